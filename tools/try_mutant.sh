#!/bin/sh
# try_mutant.sh <mutant-dir> <property> [worktree]: confirm the demo in the scratch worktree, then run our check on /repo with the patch applied
M="$1"; P="$2"; WT="$3"
set -u
if [ -n "$WT" ]; then
  (cd "$WT" && git apply "$M/patch.diff" && /venv/bin/python "$M/demo.py" >/tmp/mut/demo_with.log 2>&1; echo "demo with patch: exit $?"; git checkout -- . ; /venv/bin/python "$M/demo.py" >/tmp/mut/demo_without.log 2>&1; echo "demo without patch: exit $?")
fi
cd /repo && git apply --check "$M/patch.diff" || { echo "PATCH DOES NOT APPLY TO /repo HEAD"; exit 9; }
git apply "$M/patch.diff"
cd /verif && bin/check "$P" > /tmp/mut/check.log 2>&1; CODE=$?
cd /repo && git checkout -- . 
echo "check exit: $CODE"; grep -E "^VIOLATION|^UNDECIDED \(new\)|^CHECKER" /tmp/mut/check.log | head -8; tail -1 /tmp/mut/check.log
