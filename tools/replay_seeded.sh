#!/bin/sh
# replay_seeded.sh [ids...]: apply every kept seeded change to a scratch copy of /repo (outside /repo and /verif),
# run the property's check against it (PYVC_REPO), expect exit 1; removes the scratch copy afterwards.
S=${SEED_SCRATCH:-/tmp/seeded_scratch}
rm -rf "$S"; mkdir -p "$S"
cd /verif || exit 3
IDS="$*"; [ -z "$IDS" ] && IDS=$(ls seeded)
for id in $IDS; do
  P=$(echo "$id" | cut -d- -f1)
  rsync -a --delete --exclude .git /repo/ "$S/"
  if ! (cd "$S" && patch -p1 -s --dry-run < /verif/seeded/$id/patch.diff >/dev/null 2>&1); then echo "$id PATCH-DOES-NOT-APPLY"; continue; fi
  (cd "$S" && patch -p1 -s < /verif/seeded/$id/patch.diff)
  PYVC_REPO="$S" PYVC_OUT="$S.out" bin/check "$P" > "$S.log" 2>&1; code=$?
  echo "$id exit=$code $(grep -c '^VIOLATION' "$S.log") violations: $(grep '^VIOLATION' "$S.log" | head -2 | sed 's/.*obligation=//' | tr '\n' ';' | cut -c1-160)"
done
rm -rf "$S" "$S.log" "$S.out"
