#!/bin/sh
# refresh_all.sh [--write-baseline]: run every quick check on the unchanged tree (rewrites evidence/), then validate MANIFEST and evidence
cd /verif || exit 3
git -C /repo status --short | grep -q . && { echo "/repo working tree is not clean"; exit 3; }
rc=0
for p in C01 C02 C03 C04 C05 C06 C07 C08 C09 C10 C11 C12 C13 C14 C15 C16 C17 C18 C19 C20; do
  bin/check $p "$@" > /tmp/refresh_$p.log 2>&1; code=$?
  grep -E "^VIOLATION|^CHECKER|^UNDECIDED|^C[0-9]+:" /tmp/refresh_$p.log | cut -c1-220
  [ $code -ne 0 ] && rc=1
  rm -f /tmp/refresh_$p.log
done
python3-vt - <<'PY' || rc=1
import json, jsonschema, glob
m=json.load(open('/verif/MANIFEST.json')); jsonschema.validate(m, json.load(open('/root/.vp/MANIFEST.schema.json')))
es=json.load(open('/root/.vp/EVIDENCE.schema.json'))
lv={c['property_id']: c['level_claimed']['category'] for c in m['checks']}
for f in sorted(glob.glob('/verif/evidence/*.json')):
    e=json.load(open(f)); jsonschema.validate(e, es)
    assert e['level']==lv[e['property_id']], (f, e['level'], lv[e['property_id']])
    c=e['coverage']; assert c['discharged']==c['obligations'], (f, c['discharged'], c['obligations'])
    assert not e['violations'], f
print("manifest + evidence valid and consistent:", len(lv))
PY
exit $rc
