#!/venv/bin/python
"""Deliberate-breakage battery (DESIGN 8.2): small semantic edits of /repo (applied to the working tree, checked,
reverted) that must each fail a named obligation of the expected property; harmless edits must stay green."""
import subprocess, sys, json, os

EDITS = [
    # (property, file, old, new, expect_violation)
    ("C03", "geneticengine/representations/tree/initializations.py",
     "x for x in alternatives if self.grammar.get_distance_to_terminal(x) <= (self.max_depth - ctx.depth)\n        ]\n        if not alternatives:",
     "x for x in alternatives if self.grammar.get_distance_to_terminal(x) <= (self.max_depth - ctx.depth + 1)\n        ]\n        if not alternatives:", True),
    ("C03", "geneticengine/representations/tree/initializations.py", "        if self.max_depth < self.grammar.get_min_tree_depth():", "        if self.max_depth <= self.grammar.get_min_tree_depth():", True),
    ("C05", "geneticengine/grammar/grammar.py", "            return int(self.expansion_depthing) + min(\n", "            return int(self.expansion_depthing) + max(\n", True),
    ("C18", "geneticengine/representations/grammatical_evolution/ge.py", "        return v % (max - min + 1) + min", "        return v % (max - min) + min", True),
    ("C18", "geneticengine/random/sources.py", "            j = self.randint(0, i)", "            j = self.randint(0, i + 1)", True),
    ("C06", "geneticengine/representations/grammatical_evolution/ge.py", "        c2 = parent2.dna[:rindex] + parent1.dna[rindex:]", "        c2 = parent2.dna[:rindex] + parent1.dna[rindex + 1 :]", True),
    ("C06", "geneticengine/representations/grammatical_evolution/structured_ge.py", "        dna = deepcopy(genotype.dna)", "        dna = genotype.dna", True),
    ("C13", "geneticengine/evaluation/sequential.py", "            if not individual.has_fitness(problem):", "            if True:", True),
    ("C15", "geneticengine/algorithms/gp/operators/crossover.py", "        if (target_size // 2) * 2 < target_size:", "        if (target_size // 2) * 2 <= target_size:", True),
    ("C16", "geneticengine/problems/helpers.py", "maximizing_aggregate, reverse=True)", "maximizing_aggregate, reverse=False)", True),
    ("C12", "geneticengine/problems/__init__.py", "        return a.maximizing_aggregate > b.maximizing_aggregate", "        return a.maximizing_aggregate >= b.maximizing_aggregate", True),
    ("C14", "geneticengine/evaluation/budget.py", "        return tracker.get_number_evaluations() >= self.evaluations_budget", "        return tracker.get_number_evaluations() > self.evaluations_budget", True),
    ("C17", "geneticengine/algorithms/gp/operators/selection.py", "            winner = max(candidates, key=Individual.key_function(problem))", "            winner = min(candidates, key=Individual.key_function(problem))", True),
    ("C02", "geneticengine/grammar/metahandlers/ints.py", "        start_position = random.randint(0, self.maximum_top_limit - range_length)", "        start_position = random.randint(0, self.maximum_top_limit)", True),
    ("C20", "geneticengine/evaluation/recorder.py", "lambda t, i, p, comp=comp:", "lambda t, i, p:", True),
    # --- synthesis core (create_node and friends)
    ("C03", "geneticengine/representations/tree/initializations.py", "nctx = LocalSynthesisContext(context.depth + 1, context.nodes + 1, context.expansions + 1, dependent_vals)", "nctx = LocalSynthesisContext(context.depth, context.nodes + 1, context.expansions + 1, dependent_vals)", True),
    ("C01", "geneticengine/representations/tree/initializations.py", "    elif starting_symbol is bool:\n        return decider.random_bool()", "    elif starting_symbol is bool:\n        return decider.random_int(0, 1)", True),
    ("C01", "geneticengine/representations/tree/initializations.py", "for t in types)  # TODO", "for t in types[1:])  # TODO", True),
    ("C10", "geneticengine/representations/tree/initializations.py", "                    compatible_productions.remove(rule)", "                    global_context.grammar.alternatives[starting_symbol].remove(rule)", True),
    ("C01", "geneticengine/representations/tree/initializations.py", "                args.append(arg)\n                nctx.nodes", "                args.append(arg)\n                args.append(arg)\n                nctx.nodes", True),
    ("C02", "geneticengine/representations/tree/initializations.py", "            dependent_values = {}\n            nctx", "            dependent_values = dependent_vals\n            nctx", True),
    ("C07", "geneticengine/representations/grammatical_evolution/ge.py", "        decider = copy(self.decider)\n", "        decider = self.decider\n", True),
    ("C03", "geneticengine/representations/tree/treebased.py", "context=LocalSynthesisContext(depth=0, nodes=0, expansions=0, dependent_values={}),", "context=LocalSynthesisContext(depth=-1, nodes=0, expansions=0, dependent_values={}),", True),
    # --- trackers, searches, recorder, choosers
    ("C12", "geneticengine/evaluation/tracker.py", "                    if not self.is_dominated(old, new_pareto_front):", "                    if self.is_dominated(old, new_pareto_front):", True),
    ("C14", "geneticengine/algorithms/hill_climbing.py", "for _ in range(self.number_of_mutations)", "for _ in range(self.number_of_mutations + 1)", True),
    ("C20", "geneticengine/evaluation/recorder.py", "            self.csv_file.flush()\n", "            pass\n", True),
    ("C19", "geneticengine/representations/tree/initializations.py", "                return max(1, target - self.grammar.get_distance_to_terminal(n))", "                return target - self.grammar.get_distance_to_terminal(n)", True),
    ("C02", "geneticengine/grammar/metahandlers/lists.py", "            li.append(nv)\n        assert len(li) == size", "            li.append(nv)\n            li.append(nv)\n        assert len(li) >= size", True),
    ("C16", "geneticengine/algorithms/gp/operators/combinators.py", "            if end - start > 0:\n                yield from step.apply(\n                    problem,\n                    evaluator,\n                    representation,\n                    random,\n                    npopulation,\n                    end - start,\n                    generation,\n                )\n\n    def concat", "            if end - start > 1:\n                yield from step.apply(\n                    problem,\n                    evaluator,\n                    representation,\n                    random,\n                    npopulation,\n                    end - start,\n                    generation,\n                )\n\n    def concat", True),
    ("C09", "geneticengine/algorithms/gp/operators/evaluation.py", "        evaluator.evaluate(problem, npopulation)\n", "        evaluator.evaluate(problem, npopulation)\n        if npopulation:\n            npopulation[0].metadata[\"seen\"] = generation\n", True),
    # harmless edits of the synthesis core
    ("C01", "geneticengine/representations/tree/initializations.py", "            nv = create_node(global_context, inner_type, nctx)\n            nctx.nodes += number_of_nodes(nv)\n            nli.append(nv)", "            elem = create_node(global_context, inner_type, nctx)\n            nctx.nodes += number_of_nodes(elem)\n            nli.append(elem)", False),
    # harmless edits: verdicts must not change
    ("C18", "geneticengine/random/sources.py", "        i = self.randint(0, len(choices) - 1)\n        return choices[i]", "        i = self.randint(0, len(choices) - 1)\n        picked = choices[i]\n        return picked", False),
    ("C15", "geneticengine/algorithms/gp/operators/combinators.py", "        total = sum(self.weights)\n        shares =", "        total = sum(self.weights)\n        # (comment only)\n        shares =", False),
    ("C06", "geneticengine/representations/grammatical_evolution/ge.py", "        c1 = parent1.dna[:rindex] + parent2.dna[rindex:]\n        c2 = parent2.dna[:rindex] + parent1.dna[rindex:]", "        c2 = parent2.dna[:rindex] + parent1.dna[rindex:]\n        c1 = parent1.dna[:rindex] + parent2.dna[rindex:]", False),
]


def main():
    """Edits are applied to a scratch copy of /repo (outside /repo and /verif), checked through PYVC_REPO, and the copy is removed."""
    import shutil
    only = sys.argv[1:]
    scratch = os.environ.get("BATTERY_SCRATCH", "/tmp/battery_scratch")
    ok = True
    rows = []
    for prop, f, old, new, expect in EDITS:
        if only and prop not in only:
            continue
        subprocess.run(["rsync", "-a", "--delete", "--exclude", ".git", "/repo/", scratch + "/"], check=True)
        path = os.path.join(scratch, f)
        src = open(path).read()
        if src.count(old) != 1:
            print(f"SKIP {prop} {f}: pattern occurs {src.count(old)} times")
            ok = False
            continue
        open(path, "w").write(src.replace(old, new))
        r = subprocess.run(["/verif/bin/check", prop], capture_output=True, text=True, cwd="/verif", env=dict(os.environ, PYVC_REPO=scratch, PYVC_OUT=scratch + "_out"))
        viol = [l.split("obligation=")[-1] for l in r.stdout.splitlines() if l.startswith("VIOLATION")]
        good = (r.returncode == 1 and viol) if expect else (r.returncode == 0)
        ok &= bool(good)
        rows.append((prop, f.split("/")[-1], new.strip().splitlines()[0][:60], expect, r.returncode, viol[:2]))
        print(("ok  " if good else "BAD ") + f"{prop} {f.split('/')[-1]:20s} expect_violation={expect} exit={r.returncode} {viol[:2]}", flush=True)
    shutil.rmtree(scratch, ignore_errors=True)
    shutil.rmtree(scratch + "_out", ignore_errors=True)
    sys.exit(0 if ok else 1)


if __name__ == "__main__":
    main()
