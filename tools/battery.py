#!/venv/bin/python
"""Deliberate-breakage battery (DESIGN 8.2): small semantic edits of /repo (applied to the working tree, checked,
reverted) that must each fail a named obligation of the expected property; harmless edits must stay green."""
import subprocess, sys, json, os

EDITS = [
    # (property, file, old, new, expect_violation)
    ("C03", "geneticengine/representations/tree/initializations.py",
     "x for x in alternatives if self.grammar.get_distance_to_terminal(x) <= (self.max_depth - ctx.depth)\n        ]\n        return self.random.choice(alternatives)",
     "x for x in alternatives if self.grammar.get_distance_to_terminal(x) < (self.max_depth - ctx.depth)\n        ]\n        return self.random.choice(alternatives)", True),
    ("C03", "geneticengine/representations/tree/initializations.py", "        if self.max_depth < self.grammar.get_min_tree_depth():", "        if self.max_depth <= self.grammar.get_min_tree_depth():", True),
    ("C05", "geneticengine/grammar/grammar.py", "            return int(self.expansion_depthing) + min(\n", "            return int(self.expansion_depthing) + max(\n", True),
    ("C18", "geneticengine/representations/grammatical_evolution/ge.py", "        return v % (max - min + 1) + min", "        return v % (max - min) + min", True),
    ("C18", "geneticengine/random/sources.py", "            j = self.randint(0, i)", "            j = self.randint(0, i + 1)", True),
    ("C06", "geneticengine/representations/grammatical_evolution/ge.py", "        c2 = parent2.dna[:rindex] + parent1.dna[rindex:]", "        c2 = parent2.dna[:rindex] + parent1.dna[rindex + 1 :]", True),
    ("C06", "geneticengine/representations/grammatical_evolution/structured_ge.py", "        dna = deepcopy(genotype.dna)", "        dna = genotype.dna", True),
    ("C13", "geneticengine/evaluation/sequential.py", "            if not individual.has_fitness(problem):", "            if True:", True),
    ("C15", "geneticengine/algorithms/gp/operators/crossover.py", "        if (target_size // 2) * 2 < target_size:", "        if (target_size // 2) * 2 <= target_size:", True),
    ("C16", "geneticengine/problems/helpers.py", "maximizing_aggregate, reverse=True)", "maximizing_aggregate, reverse=False)", True),
    ("C12", "geneticengine/problems/__init__.py", "        return a.maximizing_aggregate > b.maximizing_aggregate", "        return a.maximizing_aggregate >= b.maximizing_aggregate", True),
    ("C14", "geneticengine/evaluation/budget.py", "        return tracker.get_number_evaluations() >= self.evaluations_budget", "        return tracker.get_number_evaluations() > self.evaluations_budget", True),
    ("C17", "geneticengine/algorithms/gp/operators/selection.py", "            winner = max(candidates, key=Individual.key_function(problem))", "            winner = min(candidates, key=Individual.key_function(problem))", True),
    ("C02", "geneticengine/grammar/metahandlers/ints.py", "        start_position = random.randint(0, self.maximum_top_limit - range_length)", "        start_position = random.randint(0, self.maximum_top_limit)", True),
    ("C20", "geneticengine/evaluation/recorder.py", "lambda t, i, p, comp=comp:", "lambda t, i, p:", True),
    # harmless edits: verdicts must not change
    ("C18", "geneticengine/random/sources.py", "        i = self.randint(0, len(choices) - 1)\n        return choices[i]", "        i = self.randint(0, len(choices) - 1)\n        picked = choices[i]\n        return picked", False),
    ("C15", "geneticengine/algorithms/gp/operators/combinators.py", "        total = sum(self.weights)\n        shares =", "        total = sum(self.weights)\n        # (comment only)\n        shares =", False),
    ("C06", "geneticengine/representations/grammatical_evolution/ge.py", "        c1 = parent1.dna[:rindex] + parent2.dna[rindex:]\n        c2 = parent2.dna[:rindex] + parent1.dna[rindex:]", "        c2 = parent2.dna[:rindex] + parent1.dna[rindex:]\n        c1 = parent1.dna[:rindex] + parent2.dna[rindex:]", False),
]


def main():
    only = sys.argv[1:]
    ok = True
    rows = []
    for prop, f, old, new, expect in EDITS:
        if only and prop not in only:
            continue
        path = os.path.join("/repo", f)
        src = open(path).read()
        if src.count(old) != 1:
            print(f"SKIP {prop} {f}: pattern occurs {src.count(old)} times")
            ok = False
            continue
        open(path, "w").write(src.replace(old, new))
        try:
            r = subprocess.run(["/verif/bin/check", prop], capture_output=True, text=True, cwd="/verif")
        finally:
            open(path, "w").write(src)
        viol = [l.split("obligation=")[-1] for l in r.stdout.splitlines() if l.startswith("VIOLATION")]
        good = (r.returncode == 1 and viol) if expect else (r.returncode == 0)
        ok &= bool(good)
        rows.append((prop, f.split("/")[-1], new.strip().splitlines()[0][:60], expect, r.returncode, viol[:2]))
        print(("ok  " if good else "BAD ") + f"{prop} {f.split('/')[-1]:20s} expect_violation={expect} exit={r.returncode} {viol[:2]}")
    subprocess.run(["git", "-C", "/repo", "status", "--short"])
    sys.exit(0 if ok else 1)


if __name__ == "__main__":
    main()
