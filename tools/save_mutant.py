#!/venv/bin/python
"""save_mutant.py <mutant-dir> <property> <seeded-id> <worktree> [suite-result-text]
Confirms the demo in the scratch worktree (fails with the patch, passes without), applies the patch to /repo, runs the
property's check, reverts, and stores the change under /verif/seeded/<id>/ with what detected it."""
import json, os, shutil, subprocess, sys

m, prop, sid, wt = sys.argv[1:5]
suite = sys.argv[5] if len(sys.argv) > 5 else ""
ran = []
def sh(cmd, cwd=None):
    return subprocess.run(cmd, shell=True, cwd=cwd, capture_output=True, text=True)
sh("git checkout -q -- .", wt)
assert sh(f"git apply {m}/patch.diff", wt).returncode == 0, "patch does not apply in worktree"
w = sh(f"/venv/bin/python {m}/demo.py", wt).returncode
sh("git checkout -q -- .", wt)
wo = sh(f"/venv/bin/python {m}/demo.py", wt).returncode
ran.append(f"cd <scratch worktree> && git apply patch.diff && python demo.py -> exit {w}; without patch -> exit {wo}")
assert w != 0 and wo == 0, (w, wo)
if suite:
    ran.append(f"pinned suite in the scratch worktree with the patch: {suite}")
scratch = f"/tmp/save_mutant_{sid}"
sh(f"rm -rf {scratch} {scratch}_out && mkdir -p {scratch} && rsync -a --exclude .git /repo/ {scratch}/")
assert sh(f"patch -p1 -s < {m}/patch.diff", scratch).returncode == 0, "patch does not apply to /repo's tree"
try:
    r = subprocess.run(f"bin/check {prop}", shell=True, cwd="/verif", capture_output=True, text=True, env=dict(os.environ, PYVC_REPO=scratch, PYVC_OUT=scratch + "_out"))
finally:
    sh(f"rm -rf {scratch} {scratch}_out")
viol = [l for l in r.stdout.splitlines() if l.startswith("VIOLATION")]
det = [l.split("obligation=")[-1] for l in viol]
ran.append(f"patch applied to a scratch copy of /repo's tree; PYVC_REPO=<copy> bin/check {prop} -> exit {r.returncode} ({len(viol)} VIOLATION lines); copy removed")
print(sid, "exit", r.returncode, det[:3])
if r.returncode != 1 or not viol:
    print(r.stdout[-1500:])
    sys.exit(1)
d = f"/verif/seeded/{sid}"
os.makedirs(d, exist_ok=True)
for f in ("patch.diff", "demo.py", "notes.md"):
    if os.path.exists(f"{m}/{f}"):
        shutil.copy(f"{m}/{f}", f"{d}/{f}")
notes = open(f"{m}/notes.md").read() if os.path.exists(f"{m}/notes.md") else ""
base = sh("git rev-parse --short HEAD", "/repo").stdout.strip()
json.dump({"property": prop, "id": sid, "needs_to_manifest": notes[:1800], "detected_by": "; ".join(det[:4]), "what_i_ran": ran, "base_commit": base},
          open(f"{d}/meta.json", "w"), indent=1)
