#!/venv/bin/python
"""CPython cross-check of the prover: every unit that is registered as verified is also run natively on systematically
enumerated small inputs (pyvc/bounded.py, the same contract evaluated at run time).  A contract that the prover
discharges but that fails natively exposes an unsound encoding (or an assumed callee contract that is wrong)."""
import sys, os, json, time
sys.path.insert(0, "/verif")
import multiprocessing as mp
from pyvc.run import load_specs


def work(q):
    from pyvc import bounded
    reg = load_specs()
    c = reg.contracts[q]
    t0 = time.time()
    try:
        r = bounded.check_unit(reg, c, budget_s=float(os.environ.get("XCHECK_S", "8")), max_runs=4000)
    except BaseException as ex:  # noqa
        return q, {"error": f"{type(ex).__name__}: {str(ex)[:120]}"}
    r["s"] = round(time.time() - t0, 1)
    return q, r


if __name__ == "__main__":
    reg = load_specs()
    units = [q for q, c in reg.contracts.items() if c.file and c.verify and not c.captures_only and (not sys.argv[1:] or any(a in q for a in sys.argv[1:]))]
    bad = 0
    total = driven = 0
    with mp.get_context("fork").Pool(10) as p:
        for q, r in p.imap_unordered(work, units):
            total += 1
            if r.get("violation"):
                bad += 1
                v = r["violation"]
                print(f"NATIVE-FAILS {q}: clauses={v.get('failed_clauses')} raised={v.get('raised')} recipe={json.dumps(v.get('recipe'), default=str)[:300]}", flush=True)
            elif r.get("error"):
                print(f"error {q}: {r['error']}", flush=True)
            elif r.get("evaluations", 0) > 0:
                driven += 1
    print(f"units {total}, driven natively {driven}, contracts failing natively {bad}")
    sys.exit(1 if bad else 0)
