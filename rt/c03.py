"""C03 bounded stand-in: depth limits are respected and every feasible depth limit is usable.

Oracle: rt.common.depth (longest chain of nested grammar nodes) and the independent minimum depth of
rt.structure_helpers.GrammarView (level-by-level derivability; not the library's distanceToTerminal).
"""
from __future__ import annotations

from rt.common import result, structure, depth
from rt import structure_helpers as H
from rt.structure_helpers import Findings, Budget, explore, show

REPS = ("tree-grow", "tree-full", "tree-pi", "ge", "ge-full", "ge-pi", "sge", "dsge")


def decider_kind(rep):
    return {"tree-grow": "grow", "ge": "grow", "sge": "grow", "tree-full": "full", "ge-full": "full", "tree-pi": "pi-grow", "ge-pi": "pi-grow", "dsge": "dsge"}[rep]


def run(tier: str, seed: int) -> dict:
    thorough = tier == "thorough"
    budget = Budget(430 if thorough else 34)
    F = Findings("C03")
    fam = H.full_family()
    ex_runs = 3000 if thorough else 150
    seeds = 40 if thorough else 5

    def depths(view, g, rep):
        md = view.min_depth()
        return range(max(0, md - 2), md + 4)

    evaluations = 0
    distinct = set()
    samples = []
    cells = []
    rejected_cells = set()
    for c in explore(fam, REPS, depths, seed, exhaustive_runs=ex_runs, seeds=seeds, n_ops=3, gene_grid=3 if thorough else 0, budget=budget, cell_info=cells):
        evaluations += 1
        if c.grammar is None:
            F.add(f"exception:{H.exc_site(c.exc)}", f"{c.where()}: raised {H.exc_text(c.exc)}", size=c.size)
            continue
        md = c.view.min_depth()
        feasible = c.d >= md
        upfront = c.exc is not None and isinstance(c.exc, H.GeneticEngineError) and (c.phase == "construct" or H.exc_site(c.exc).endswith(".validate"))
        if not feasible:
            # must be rejected up-front with the library's error
            if upfront:
                distinct.add((c.member, c.rep, c.d, "rejected"))
                continue
            if c.exc is not None:
                F.add(
                    f"infeasible-depth-not-rejected-upfront:{H.exc_site(c.exc)}",
                    f"{c.where()}: grammar minimum depth is {md}; expected GeneticEngineError at decider construction, got {H.exc_text(c.exc)} during {c.phase}",
                    size=c.size,
                )
            else:
                F.add(
                    f"infeasible-depth-not-rejected-upfront:{decider_kind(c.rep)}",
                    f"{c.where()}: grammar minimum depth is {md}, yet creation returned {show(c.program, 80)} of depth {depth(c.program)}",
                    size=c.size,
                )
            continue
        # feasible limit
        if c.exc is not None:
            if upfront:
                if (c.member, c.rep, c.d) in rejected_cells:
                    continue
                rejected_cells.add((c.member, c.rep, c.d))
                lib_md = c.grammar.get_min_tree_depth()
                if lib_md > c.d:
                    causes = H.overestimate_causes(c.view, c.grammar) or ["unattributed"]
                    F.add(
                        f"feasible-depth-rejected:reported-minimum-too-high:{'+'.join(causes)}",
                        f"{c.where()}: rejected with {H.exc_text(c.exc)[:90]} although a program of depth {md} exists (reported minimum {lib_md})",
                        size=c.d * 10 + len(c.view.symbols()),
                    )
                else:
                    F.add(
                        f"feasible-depth-rejected:{decider_kind(c.rep)}",
                        f"{c.where()}: rejected with {H.exc_text(c.exc)[:90]} although max_depth {c.d} >= reported minimum {lib_md} (independent minimum {md})",
                        size=c.d * 10 + len(c.view.symbols()),
                    )
            else:
                F.add(
                    f"creation-fails:{H.exc_site(c.exc)}",
                    f"{c.where()}: feasible limit (grammar minimum {md}) but {c.phase} raised {H.exc_text(c.exc)}",
                    size=c.size,
                )
            continue
        p = c.program
        try:
            st = structure(p)
            hash(st)
        except Exception:
            st = repr(p)
        if (c.member, st) not in distinct:
            distinct.add((c.member, st))
            if len(samples) < 8 and len(distinct) % 211 == 1:
                samples.append(f"{c.where()} -> depth {depth(p)}: {show(p, 70)}")
        dp = depth(p)
        if dp > c.d:
            F.add(
                f"depth-exceeded:{decider_kind(c.rep)}:{'creation' if c.phase == 'create' else 'after-variation'}",
                f"{c.where()}: program {show(p, 90)} has depth {dp} > max_depth {c.d}",
                size=c.size + dp,
            )
    n_ex = sum(1 for x in cells if x[4])
    rule = (
        f"{len(fam)} family grammars x {len(REPS)} depth-limited deciders/mappings (grow, full, pi-grow directly and through GE; SGE; dSGE) x max_depth in "
        f"[independent minimum - 2, independent minimum + 3]: all draw outcomes of creation up to {ex_runs} runs per cell ({n_ex}/{len(cells)} cells exhausted), "
        f"{seeds} seeds x (2 creations + 3 mutate/crossover steps); below the minimum: GeneticEngineError at decider construction required; "
        f"from the minimum upwards: no exception and depth(program) <= max_depth"
        + ("; wall-clock budget reached, remaining cells skipped" if budget.tripped else "")
    )
    return result(evaluations, len(distinct), rule, samples, F.violations(), exhaustive=False, cells=len(cells), cells_exhausted=n_ex, budget_tripped=budget.tripped)
