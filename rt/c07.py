"""C07 (bounded stand-in): genotype-to-phenotype mapping is a pure function of the genotype.

For GE, SGE, dSGE and the stack representation: every genotype reached by create / mutate / crossover is mapped three
times, interleaved with foreign draws on the shared seeded source (the one the decider holds and the search uses).
Checked per genotype: (a) the three outcomes are structurally identical, (b) the shared source's state
(`random.getstate()`) is the same before and after every mapping, (c) the genotype is not modified by mapping.
dSGE genotypes are mapped once beforehand so that the permitted on-demand growth has happened; afterwards the same
three conditions are required (no further growth, no further draws).  Draws are attributed to the library call site
that asked for them (decider / metahandler / genotype growth), which gives one stable key per defect.
"""
from __future__ import annotations

from abc import ABC
from dataclasses import dataclass
from typing import Annotated

from rt.common import make_family, result, violation
from geneticengine.grammar.metahandlers.ints import IntRange
from rt.heap_helpers import (
    Clock,
    SpySource,
    Timeout,
    watchdog,
    all_grammars,
    extract_grammar,
    make_rep,
    n_nodes,
    show,
    short,
    site_category,
    sstruct,
    value_snapshot,
)

REPS = ["GE", "SGE", "dSGE", "Stack"]


# A refined grammar written the way the library's own examples are (module with `from __future__ import annotations`):
# get_type_hints then re-evaluates `Annotated[int, IntRange(..)]` on every call, so the refinement objects are fresh
# each time.  Harmless for a mapping that is a function of the genotype.
class SE(ABC):
    pass


@dataclass
class SLit(SE):
    v: int


@dataclass
class SNeg(SE):
    x: SE


@dataclass
class STag(SE):
    t: Annotated[int, IntRange(-10000, 10000)]


S_GRAMMAR = ("S-string-annotated", [SE, SLit, SNeg, STag], SE, True, "Lit(v:int) | Neg(x) | Tag(t:IntRange(-10000,10000)), annotations kept as strings")


class _Junk:
    def __init__(self):
        self.a = 1


def _label(x):
    if hasattr(x, "__metadata__"):
        return f"Annotated[{getattr(x.__origin__, '__name__', x.__origin__)},{x.__metadata__[0]!r}]"
    return getattr(x, "__name__", None) or repr(x).replace("rt.common.make_family.<locals>.", "")


class _OrderSpy:
    """Observes (on the grammar INSTANCE, nothing in /repo is touched) the iteration order of the symbol set that the
    stack mapper turns into a list."""

    def __init__(self, grammar):
        self.orig = grammar.get_all_mentioned_symbols
        self.orders = []
        grammar.get_all_mentioned_symbols = self

    def __call__(self):
        st = self.orig()
        self.orders.append(tuple(_label(x) for x in st))
        return st
REP_UNIT = {
    "GE": "GrammaticalEvolutionRepresentation.genotype_to_phenotype",
    "SGE": "StructuredGrammaticalEvolutionRepresentation.genotype_to_phenotype",
    "dSGE": "DynamicStructuredGrammaticalEvolutionRepresentation.genotype_to_phenotype",
    "Stack": "StackBasedGGGPRepresentation.genotype_to_phenotype",
}


def _map(rep, gt, shared):
    """One observed mapping: (outcome, advanced?, sites)."""
    st0 = shared.state()
    shared.sites = []
    shared.watch = True
    try:
        p = rep.genotype_to_phenotype(gt)
        out = ("ok", sstruct(p), n_nodes(p))
    except Timeout:
        raise
    except Exception as ex:  # library failure: an outcome like any other, compared across the three mappings
        out = ("exc", type(ex).__name__, 0)
    finally:
        shared.watch = False
    return out, shared.state() != st0, list(shared.sites)


def _genotypes(rep, kind, shared):
    """Genotypes reached by create / mutate / crossover, with a short provenance label."""
    out = []

    def grow(g):
        if kind == "dSGE":  # the permitted growth happens here, before anything is compared
            try:
                rep.genotype_to_phenotype(g)
            except Timeout:
                raise
            except Exception:
                pass
        return g

    g0 = grow(rep.create_genotype(shared))
    g1 = grow(rep.create_genotype(shared))
    out.append(("create", g0))
    out.append(("create#2", g1))
    try:
        m = grow(rep.mutate(shared, g0))
        out.append(("mutate(create)", m))
        mm = grow(rep.mutate(shared, m))
        out.append(("mutate(mutate(create))", mm))
    except Timeout:
        raise
    except Exception:
        pass
    try:
        c1, c2 = rep.crossover(shared, g0, g1)
        out.append(("crossover(create,create#2)[0]", grow(c1)))
        out.append(("crossover(create,create#2)[1]", grow(c2)))
        out.append(("mutate(crossover(..)[0])", grow(rep.mutate(shared, c1))))
    except Timeout:
        raise
    except Exception:
        pass
    return out


def _history_scenario(seed):
    """[(representation, description)] for every representation whose mapping of one genotype differs between a grammar
    whose classes have a history (used under an earlier refinement, then re-declared and re-extracted) and the same
    grammar built from fresh class objects."""
    from geneticengine.grammar.grammar import extract_grammar as _eg
    from geneticengine.random.sources import NativeRandomSource as _NRS
    from geneticengine.representations.tree.initializations import MaxDepthDecider as _MD
    from geneticengine.representations.tree.treebased import TreeBasedRepresentation as _TR
    from geneticengine.representations.grammatical_evolution.ge import GrammaticalEvolutionRepresentation as _GE, Genotype as _GEG
    from geneticengine.representations.grammatical_evolution.structured_ge import StructuredGrammaticalEvolutionRepresentation as _SGE

    import dataclasses as _dcs

    def classes(lo, hi):
        # real type objects, no postponed annotations (names local to this function could not be resolved)
        ExprH = type("ExprH", (ABC,), {"__module__": __name__})
        LitH = _dcs.make_dataclass("LitH", [("v", Annotated[int, IntRange(lo, hi)])], bases=(ExprH,))
        AddH = _dcs.make_dataclass("AddH", [("l", ExprH), ("r", ExprH)], bases=(ExprH,))
        for c_ in (LitH, AddH):
            c_.__module__ = __name__
        return ExprH, LitH, AddH

    def plain(x):
        if hasattr(x, "__dataclass_fields__"):
            return (type(x).__name__,) + tuple(plain(getattr(x, f)) for f in x.__dataclass_fields__)
        if isinstance(x, (list, tuple)):
            return tuple(plain(y) for y in x)
        return x

    out = []
    # with history: used under IntRange(0, 9), then re-declared to IntRange(100, 109)
    E1, L1, A1 = classes(0, 9)
    g_old = _eg([L1, A1], E1)
    r = _NRS(seed)
    tree = _TR(g_old, _MD(r, g_old, 3))
    for _ in range(5):
        tree.create_genotype(r)
    for nm, mk in (("GE", lambda g, d: _GE(g, d, gene_length=40)), ("SGE", lambda g, d: _SGE(g, d, gene_length=20))):
        rep_old = mk(g_old, _MD(r, g_old, 3))
        rep_old.genotype_to_phenotype(rep_old.create_genotype(r))
    L1.__init__.__annotations__["v"] = Annotated[int, IntRange(100, 109)]
    g_hist = _eg([L1, A1], E1)
    # without history: fresh class objects declared with IntRange(100, 109) from the start
    E2, L2, A2 = classes(100, 109)
    g_fresh = _eg([L2, A2], E2)
    for nm, mk in (("GE", lambda g, d: _GE(g, d, gene_length=40)), ("SGE", lambda g, d: _SGE(g, d, gene_length=20))):
        ra, rb = _NRS(seed + 5), _NRS(seed + 5)
        rep_h, rep_f = mk(g_hist, _MD(ra, g_hist, 3)), mk(g_fresh, _MD(rb, g_fresh, 3))
        for i in range(6):
            gt_h, gt_f = rep_h.create_genotype(ra), rep_f.create_genotype(rb)
            ph, pf = plain(rep_h.genotype_to_phenotype(gt_h)), plain(rep_f.genotype_to_phenotype(gt_f))
            if ph != pf:
                out.append((nm, f"{nm}: the same genes (NativeRandomSource({seed + 5}), genotype #{i + 1}) map to {short(str(ph), 120)} under a grammar whose classes were used before "
                                f"with IntRange(0,9) and then re-declared IntRange(100,109), but to {short(str(pf), 120)} under the same grammar built from untouched classes"))
                break
    return out


def run(tier: str, seed: int) -> dict:
    quick = tier != "thorough"
    clock = Clock(26 if quick else 400)
    family = make_family()
    grammars = [S_GRAMMAR] + [g for g in all_grammars(family) if g[0] != "H-infeasible"]  # grammar mutation is C10's subject
    junk = []
    n_seeds = 3 if quick else 25
    gene_lengths = [24] if quick else [6, 24, 96]
    deciders = ["MaxDepth", "Full", "PIGrow", "ProgTerminal"]

    evaluations = 0
    mappings = 0
    distinct = set()
    samples = []
    found = {}  # key -> (rank, what, unit)
    setup_errors = {}
    outcome_stats = {}
    rounds_done = 0
    timeouts = {}

    def report(key, rank, what, unit):
        if key not in found or rank < found[key][0]:
            found[key] = (rank, what, unit)

    def case(kind, dk, gl, run_seed, gname, classes, start, gdesc):
        nonlocal evaluations, mappings
        shared = SpySource(run_seed)
        try:
            grammar = extract_grammar(classes, start)
            spy = _OrderSpy(grammar) if kind == "Stack" else None
            rep = make_rep(kind, grammar, shared, decider_kind=dk if dk != "-" else "MaxDepth", gene_length=gl)
            pool = _genotypes(rep, kind, shared)
        except Timeout:
            raise
        except Exception as ex:
            k = f"{kind}/{gname}: {type(ex).__name__}"
            setup_errors[k] = setup_errors.get(k, 0) + 1
            return
        for how, gt in pool:
            evaluations += 1
            before = value_snapshot(gt)
            outs, adv, sites, orders = [], [], [], []
            for rnd in range(3):
                if spy:
                    spy.orders = []
                o, a, st = _map(rep, gt, shared)
                if spy:
                    orders.append(spy.orders[0] if spy.orders else None)
                junk.append([_Junk() for _ in range(1 + (rnd + evaluations) % 5)])  # unrelated allocations
                if len(junk) > 400:
                    del junk[:200]
                mappings += 1
                outs.append(o)
                adv.append(a)
                sites.extend(st)
                for _ in range(rnd + 1):  # foreign use of the shared stream between mappings
                    shared.randint(0, 10**6)
            after = value_snapshot(gt)
            kinds_out = tuple(o[0] for o in outs)
            ok_key = f"{kind}:{kinds_out[0]}" + ("" if outs[0][0] == "ok" else ":" + outs[0][1])
            outcome_stats[ok_key] = outcome_stats.get(ok_key, 0) + 1
            if outs[0][0] == "ok" and outs[0][2] >= 2:
                distinct.add((kind, gname, outs[0][1]))
            differs = len({o[:2] for o in outs}) > 1
            size = max(o[2] for o in outs)
            rendered = " / ".join(show(o[1]) if o[0] == "ok" else f"raises {o[1]}" for o in outs)
            where = (
                f"{kind}{'' if dk == '-' else '(' + dk + 'Decider)'} on {gname} [{gdesc}], gene_length={gl}, "
                f"NativeRandomSource({run_seed}), genotype via {how}"
            )
            if any(adv):
                cats = {}
                for st in sites:
                    cats.setdefault(site_category(st), []).append(st)
                if "metahandler" in cats:
                    # a refinement that re-draws its value changes the path, hence later growth:
                    # one defect, reported once under the metahandler site
                    cats.pop("genotype-growth", None)
                for cat, sts in cats.items():
                    st = sts[0]
                    key = f"rt:C07:{kind}-{cat}-draws-from-shared-rng"
                    what = (
                        f"{where}: mapping the SAME genotype 3x gave {short(rendered, 260)}; the shared source's "
                        f"getstate() changed during mapping ({len(sts)} draws by {st[0]}:{st[3]} {st[2]}.{st[1]}); "
                        f"expected identical programs and an untouched shared stream"
                    )
                    report(key, (0 if differs else 1, size, len(what)), what, REP_UNIT[kind])
            elif differs:
                if kind == "Stack" and len(set(orders)) > 1:
                    i = next(j for j in range(1, 3) if orders[j] != orders[0])
                    key = "rt:C07:Stack-mapping-follows-symbol-set-order"
                    what = (
                        f"{where}: mapping the SAME genotype 3x gave {short(rendered, 200)}; no shared draws - the mapper indexes "
                        f"list(grammar.get_all_mentioned_symbols()), a set, whose order was {list(orders[0])} in mapping 1 and "
                        f"{list(orders[i])} in mapping {i + 1}"
                    )
                else:
                    key = f"rt:C07:{kind}-remap-differs-without-shared-draws"
                    what = f"{where}: mapping the SAME genotype 3x gave {short(rendered, 300)} although the shared stream was not used"
                report(key, (0, size, len(what)), what, REP_UNIT[kind])
            if before != after and not (kind == "dSGE" and any(site_category(st) == "metahandler" for st in sites)):
                key = f"rt:C07:{kind}-mapping-modifies-genotype"
                extra = " (after the permitted first growth)" if kind == "dSGE" else ""
                what = f"{where}: the genotype's genes differ before / after three mappings{extra}; outcomes {short(rendered, 200)}"
                report(key, (0, size, len(what)), what, REP_UNIT[kind])
            if not any(adv) and not differs and before == after and len(samples) < 8 and outs[0][0] == "ok" and (kind, gname) not in {(x["rep"], x["grammar"]) for x in samples}:
                samples.append({"rep": kind, "grammar": gname, "decider": dk, "via": how, "program": short(show(outs[0][1]), 120), "verdict": "3 mappings identical, stream untouched"})

    for s in range(n_seeds):
        for gl in gene_lengths:
            for (gname, classes, start, refined, gdesc) in grammars:
                for kind in REPS:
                    for dk in (deciders if kind in ("GE", "SGE") else ["-"]):
                        if clock.over():
                            break
                        run_seed = seed * 7919 + s * 101 + gl
                        try:
                            with watchdog(3 if quick else 8):
                                case(kind, dk, gl, run_seed, gname, classes, start, gdesc)
                        except Timeout:
                            timeouts[f"{kind}/{gname}"] = timeouts.get(f"{kind}/{gname}", 0) + 1
        rounds_done = s + 1 if not clock.over() else rounds_done
        if clock.over():
            break

    # history independence: the same genes mapped under a grammar whose classes were used before (under an earlier
    # declaration of a refinement) and under a grammar built from classes nobody has touched must give the same program
    try:
        for kind_h, bad_h in _history_scenario(seed):
            report(f"rt:C07:{kind_h}-mapping-depends-on-earlier-grammars", (0, 1, len(bad_h)), bad_h, REP_UNIT.get(kind_h, kind_h))
        evaluations += 1
    except Exception as ex:  # noqa
        report("rt:C07:history-scenario-crashed", (9, 1, 1), f"history-independence scenario raised {type(ex).__name__}: {str(ex)[:120]}", "GrammaticalEvolutionRepresentation")

    violations = [violation(k, v[1], unit=v[2]) for k, v in sorted(found.items())]
    rule = (
        "sampled, not exhaustive: 4 linear representations x (6 family grammars + 6 extra grammars, with and without refined fields, one with string annotations) "
        f"x deciders {{MaxDepth, Full, PIGrow, ProgressivelyTerminal}} (GE/SGE) x {n_seeds} seeds x gene lengths {gene_lengths}; "
        "per configuration 7 genotypes (create, create, mutate, mutate.mutate, both crossover children, mutate.crossover); each genotype "
        "mapped 3x with 1,2,3 foreign draws on the shared NativeRandomSource and a few unrelated object allocations in between; compared: structure of the three results, "
        "random.getstate() around each mapping, genes before/after (dSGE: after one warm-up mapping that lets the genotype grow)"
    )
    return result(
        evaluations,
        len(distinct),
        rule,
        samples,
        violations,
        exhaustive=False,
        mappings=mappings,
        seed_rounds_completed=rounds_done,
        outcome_stats=dict(sorted(outcome_stats.items())),
        setup_errors=dict(sorted(setup_errors.items())),
        timeouts_skipped=timeouts,
        seconds=round(clock.used(), 1),
    )
