"""C17 bounded stand-in: tournament and lexicase selection are sound, over ALL draw outcomes for small cases.
Never counted as proof."""
from __future__ import annotations

import itertools
import random as pyrandom
import statistics

from rt.common import result, violation, enumerate_outcomes, _Exhausted
from rt.search_helpers import IntRep, TableFitness, Deadline, single_tracker, multi_tracker, as_form

from geneticengine.problems import SingleObjectiveProblem, MultiObjectiveProblem
from geneticengine.random.sources import RandomSource, NativeRandomSource
from geneticengine.solutions.individual import Individual
from geneticengine.algorithms.gp.operators.selection import TournamentSelection, LexicaseSelection


class RecSource(RandomSource):
    """Delegates every draw to `inner`; records what every `choice` returned (the participants of a tournament)."""

    def __init__(self, inner):
        self.inner = inner
        self.choices = []

    def randint(self, min, max):
        return self.inner.randint(min, max)

    def random_float(self, min, max):
        return self.inner.random_float(min, max)

    def choice(self, choices):
        assert choices
        i = self.randint(0, len(choices) - 1)
        self.choices.append((list(choices), choices[i]))
        return choices[i]


class LibraryFailure(Exception):
    """An exception that came out of the step under test (as opposed to one of this driver)."""

    def __init__(self, ex):
        super().__init__(f"{type(ex).__name__}: {str(ex)[:60]}")
        self.ex = ex


def outcome_error(exc):
    """None: nothing to report; a LibraryFailure: report; anything else is a bug of this driver and is re-raised."""
    if exc is None or exc == "draw-limit":
        return None
    if isinstance(exc, LibraryFailure):
        return exc
    raise exc


class Findings:
    def __init__(self):
        self.by_key = {}

    def add(self, key, what, size):
        cur = self.by_key.get(key)
        if cur is None or size < cur[0]:
            self.by_key[key] = (size, what)

    def violations(self):
        return [violation(k, w, unit=k.split(":")[-1]) for k, (s, w) in sorted(self.by_key.items())]


def better(a, b, minimize):
    return a < b if minimize else a > b


def is_member(x, pop):
    return any(x is p for p in pop)


# ------------------------------------------------------------------------------------------------ tournament
def tournament_once(find, src, inds, vals, problem, tracker, rep, t, wr, k, form, minimize, popobj):
    rs = RecSource(src)
    desc = f"values={[vals[id(i)] for i in inds]}, minimize={minimize}, tournament_size={t}, with_replacement={wr}, target_size={k}, {form}"
    size = (len(inds), t, k)
    gen = TournamentSelection(t, with_replacement=wr).apply(problem, tracker.evaluator, rep, rs, (popobj if form == 'population' else list(inds)), k, 1)
    n = 0
    while True:
        mark = len(rs.choices)
        try:
            w = next(gen)
        except StopIteration:
            break
        except _Exhausted:
            raise
        except Exception as ex:  # noqa
            raise LibraryFailure(ex)
        n += 1
        drawn = [c for (_, c) in rs.choices[mark:]]
        dv = [vals.get(id(d)) for d in drawn]
        if not is_member(w, inds):
            find.add("rt:C17:TournamentSelection.members", f"TournamentSelection on {desc}: winner #{n} is not a member of the population", size)
            return False
        if not all(is_member(d, inds) for d in drawn):
            find.add("rt:C17:TournamentSelection.members", f"TournamentSelection on {desc}: a participant of tournament #{n} is not a member of the population", size)
            return False
        if not is_member(w, drawn):
            find.add("rt:C17:TournamentSelection.winner_not_drawn", f"TournamentSelection on {desc}: winner #{n} (value {vals[id(w)]}) is not among the participants drawn for it {dv}", size)
            return False
        if any(better(v, vals[id(w)], minimize) for v in dv):
            find.add(
                "rt:C17:TournamentSelection.winner_not_best",
                f"TournamentSelection on {desc}: winner #{n} has value {vals[id(w)]} but the participants drawn were {dv}",
                size,
            )
            return False
        if n > k + 5:
            break
    return True


def tournament_part(find, rng, dl, quick, stats):
    max_n = 3 if quick else 4
    cap = 40 if quick else 120
    for n in range(1, max_n + 1):
        for values in itertools.product((0, 1, 2), repeat=n):
            for minimize in (False, True):
                rep = IntRep()
                ff = TableFitness(list(values) + [0])
                problem = SingleObjectiveProblem(ff, minimize)
                tracker = single_tracker(problem)
                inds = [Individual(rep.create_genotype(None), rep) for _ in values]
                vals = {id(i): v for i, v in zip(inds, values)}
                popobj = as_form(inds, "population", tracker)
                for t in range(1, 8):
                    for wr in (False, True):
                        for k in range(1, n + 1):
                            if dl.over():
                                stats["complete"] = False
                                return
                            form = "list" if (t + k) % 3 else "population"
                            stats["cases"] += 1
                            stats["nontrivial"] += len(set(values)) > 1 and t > 1
                            for draws, res, exc in enumerate_outcomes(
                                lambda src: tournament_once(find, src, inds, vals, problem, tracker, rep, t, wr, k, form, minimize, popobj), max_runs=cap, max_draws=100
                            ):
                                stats["runs"] += 1
                                if outcome_error(exc) is not None:
                                    find.add(
                                        "rt:C17:TournamentSelection.exception",
                                        f"TournamentSelection values={list(values)}, minimize={minimize}, tournament_size={t}, with_replacement={wr}, target_size={k}, {form}, draws {draws}: raised {exc}",
                                        (n, t, k),
                                    )
                            if enumerate_outcomes.last_exhaustive:
                                stats["exhaustive_cases"] += 1
    # larger populations, native random draws
    for _ in range(60 if quick else 600):
        if dl.over():
            return
        n = rng.randint(4, 5)
        values = [rng.randint(0, 2) for _ in range(n)]
        minimize = rng.random() < 0.5
        rep = IntRep()
        problem = SingleObjectiveProblem(TableFitness(values + [0]), minimize)
        tracker = single_tracker(problem)
        inds = [Individual(rep.create_genotype(None), rep) for _ in values]
        vals = {id(i): v for i, v in zip(inds, values)}
        t, wr, k = rng.randint(1, 7), rng.random() < 0.5, rng.randint(1, n)
        popobj = as_form(inds, "population", tracker)
        stats["cases"] += 1
        stats["nontrivial"] += len(set(values)) > 1 and t > 1
        stats["runs"] += 1
        try:
            tournament_once(find, NativeRandomSource(rng.randint(0, 10**6)), inds, vals, problem, tracker, rep, t, wr, k, rng.choice(["list", "population"]), minimize, popobj)
        except LibraryFailure as exc:
            find.add("rt:C17:TournamentSelection.exception", f"TournamentSelection values={values}, minimize={minimize}, tournament_size={t}, with_replacement={wr}, target_size={k}: raised {exc}", (n, t, k))


# ------------------------------------------------------------------------------------------------ lexicase
def survivors(cands, order, vec, minimize, epsilon):
    """Reference lexicase filter: keep, case by case in `order`, the candidates that are best (within the MAD
    band when epsilon) on the case among those still standing; stops when one candidate is left."""
    cur = list(cands)
    for c in order:
        if len(cur) <= 1:
            break
        xs = [vec[id(x)][c] for x in cur]
        best = min(xs) if minimize[c] else max(xs)
        band = 0.0
        if epsilon:
            med = statistics.median(xs)
            band = statistics.median([abs(x - med) for x in xs])
        if minimize[c]:
            cur = [x for x in cur if vec[id(x)][c] <= best + band]
        else:
            cur = [x for x in cur if vec[id(x)][c] >= best - band]
    return cur


def lexicase_once(find, src, inds, vec, problem, tracker, rep, epsilon, k, form, minimize, popobj):
    n_cases = len(minimize)
    desc = f"fitness vectors={[vec[id(i)] for i in inds]}, minimize={minimize}, epsilon={epsilon}, target_size={k}, {form}"
    size = (len(inds), n_cases, k, epsilon)
    avail = list(inds)
    gen = LexicaseSelection(epsilon=epsilon).apply(problem, tracker.evaluator, rep, src, (popobj if form == 'population' else list(inds)), k, 1)
    n = 0
    while True:
        try:
            w = next(gen)
        except StopIteration:
            break
        except _Exhausted:
            raise
        except Exception as ex:  # noqa
            raise LibraryFailure(ex)
        n += 1
        if not is_member(w, inds):
            find.add("rt:C17:LexicaseSelection.members", f"LexicaseSelection on {desc}: winner #{n} is not a member of the population", size)
            return False
        if not is_member(w, avail):
            find.add("rt:C17:LexicaseSelection.copies", f"LexicaseSelection on {desc}: winner #{n} {vec[id(w)]} was returned more often than the population holds it", size)
            return False
        possible = []
        for order in itertools.permutations(range(n_cases)):
            for s in survivors(avail, order, vec, minimize, epsilon):
                if not is_member(s, possible):
                    possible.append(s)
        if not is_member(w, possible):
            on_some_case = any(is_member(w, survivors(avail, (c,), vec, minimize, epsilon)) for c in range(n_cases))
            find.add(
                "rt:C17:LexicaseSelection.winner_unfiltered",
                f"LexicaseSelection on {desc}: winner #{n} is {vec[id(w)]} although the candidates still available were {[vec[id(a)] for a in avail]}; "
                f"no order of the {n_cases} case(s) lets it survive the filter (possible winners {[vec[id(p)] for p in possible]}; best or within the band on some case: {on_some_case})",
                size,
            )
            return False
        for j, a in enumerate(avail):
            if a is w:
                del avail[j]
                break
        if n > k + 5:
            break
    return True


def lexicase_part(find, rng, dl, quick, stats):
    plan = []  # (n_cases, population as tuple of vectors)
    vecs = {c: list(itertools.product((0, 1, 2), repeat=c)) for c in (1, 2, 3)}
    for n in range(1, (4 if quick else 5) + 1):
        plan += [(1, p) for p in itertools.product(vecs[1], repeat=n)]
    for n in range(1, 3):
        plan += [(2, p) for p in itertools.product(vecs[2], repeat=n)]
    all3 = list(itertools.product(vecs[2], repeat=3))
    plan += [(2, p) for p in (rng.sample(all3, 120) if quick else all3)]
    plan += [(3, (v,)) for v in vecs[3]]
    for n, cnt in ((2, 60), (3, 80), (4, 30), (5, 12)):
        for _ in range(cnt if quick else cnt * 10):
            plan.append((3, tuple(rng.choice(vecs[3]) for _ in range(n))))
    for n, cnt in ((4, 30), (5, 15)):
        for _ in range(cnt if quick else cnt * 10):
            plan.append((2, tuple(rng.choice(vecs[2]) for _ in range(n))))
    cap = 40 if quick else 250
    for i, (n_cases, popv) in enumerate(plan):
        mins = list(itertools.product((False, True), repeat=n_cases))
        minimize = list(mins[i % len(mins)]) if n_cases > 1 or len(popv) > 3 else None
        for mm in ([minimize] if minimize is not None else [list(m) for m in mins]):
            rep = IntRep()
            table = [list(v) for v in popv] + [[0] * n_cases]
            ff = TableFitness(table)
            problem = MultiObjectiveProblem(list(mm), ff)
            tracker = multi_tracker(problem)
            inds = [Individual(rep.create_genotype(None), rep) for _ in popv]
            vec = {id(ind): list(v) for ind, v in zip(inds, popv)}
            popobj = as_form(inds, "population", tracker)
            for epsilon in (False, True):
                for k in range(1, len(popv) + 1):
                    if dl.over():
                        stats["complete"] = False
                        return
                    form = "list" if (k + i) % 3 else "population"
                    stats["cases"] += 1
                    stats["nontrivial"] += len(set(popv)) > 1 and k > 1
                    for draws, res, exc in enumerate_outcomes(
                        lambda src: lexicase_once(find, src, inds, vec, problem, tracker, rep, epsilon, k, form, list(mm), popobj), max_runs=cap, max_draws=100
                    ):
                        stats["runs"] += 1
                        if outcome_error(exc) is not None:
                            find.add(
                                "rt:C17:LexicaseSelection.exception",
                                f"LexicaseSelection fitness vectors={[list(v) for v in popv]}, minimize={mm}, epsilon={epsilon}, target_size={k}, {form}, draws {draws}: raised {exc}",
                                (len(popv), n_cases, k),
                            )
                    if enumerate_outcomes.last_exhaustive:
                        stats["exhaustive_cases"] += 1


def boundary_and_duplicates_part(find, stats):
    """(a) tournaments over populations that contain the best / worst representable fitness (+-inf): the winner must still be at
    least as fit as every participant drawn; (b) lexicase on populations in which an Individual OBJECT occurs more than once: it
    is never returned more often than the population contains it."""
    inf = float("inf")
    for values in ((inf, 0.0, 1.0), (0.0, inf, -inf, 2.0), (-inf, 1.0, 1.0), (inf, inf, 0.0)):
        for minimize in (False, True):
            rep = IntRep()
            ff = TableFitness(list(values) + [0])
            problem = SingleObjectiveProblem(ff, minimize)
            tracker = single_tracker(problem)
            inds = [Individual(rep.create_genotype(None), rep) for _ in values]
            vals = {id(i): v for i, v in zip(inds, values)}
            popobj = as_form(inds, "population", tracker)
            for t in (2, 3):
                for sd in range(6):
                    stats["cases"] += 1
                    try:
                        tournament_once(find, NativeRandomSource(sd), inds, vals, problem, tracker, rep, t, True, len(values), "list", minimize, popobj)
                    except LibraryFailure as ex:
                        find.add("rt:C17:TournamentSelection.exception", f"TournamentSelection on values={list(values)}, minimize={minimize}: {ex}", (len(values),))
    for pattern in ((0, 1, 0, 2), (0, 0, 1), (0, 1, 1, 1, 2)):
        for epsilon in (False, True):
            rep = IntRep()
            distinct = max(pattern) + 1
            ff = TableFitness([[0.0, 0.0, 0.0]] + [[float(i), float(3 - i), 1.0] for i in range(1, distinct)] + [[9.0, 9.0, 9.0]])
            problem = MultiObjectiveProblem([True, True, True], ff)
            tracker = multi_tracker(problem)
            base = [Individual(rep.create_genotype(None), rep) for _ in range(distinct)]
            pop = [base[i] for i in pattern]
            for k in range(1, len(pop) + 1):
                for sd in range(4):
                    stats["cases"] += 1
                    try:
                        out = list(LexicaseSelection(epsilon=epsilon).apply(problem, tracker.evaluator, rep, NativeRandomSource(sd), list(pop), k, 1))
                    except Exception as ex:  # noqa
                        find.add("rt:C17:LexicaseSelection.exception", f"LexicaseSelection(epsilon={epsilon}) on a population with repeated objects (pattern {list(pattern)}), k={k}: raised {type(ex).__name__}: {str(ex)[:60]}", (len(pop), k))
                        continue
                    for b_ in base:
                        have, got = sum(1 for x in pop if x is b_), sum(1 for x in out if x is b_)
                        if got > have:
                            find.add(
                                "rt:C17:LexicaseSelection.more_copies_than_in_population",
                                f"LexicaseSelection(epsilon={epsilon}) on a population in which objects repeat (pattern {list(pattern)}), k={k}, NativeRandomSource({sd}): an individual was returned {got} times but the population contains it {have} time(s)",
                                (len(pop), k),
                            )


def tournament_reuse_part(find, rng, quick, stats):
    """ONE TournamentSelection object applied to many successive populations of new individuals (as in a GP run): whatever the
    step keeps between calls must not leak from one population into the next (earlier individuals are dropped, their
    addresses get reused)."""
    import gc

    for minimize in (False, True):
        for t, wr in ((2, True), (3, True), (3, False)):
            step = TournamentSelection(t, with_replacement=wr)
            rep = IntRep()
            table = [rng.randint(0, 50) for _ in range(997)]
            ff = TableFitness(table)
            problem = SingleObjectiveProblem(ff, minimize)
            tracker = single_tracker(problem)
            for gen in range(12 if quick else 60):
                inds = [Individual(rep.create_genotype(None), rep) for _ in range(14)]
                tracker.evaluator.evaluate(problem, inds)
                vals = {id(i): ff.value(i.get_phenotype()) for i in inds}
                rs = RecSource(NativeRandomSource(gen))
                desc = f"one TournamentSelection({t}, with_replacement={wr}) object, generation {gen + 1} of successive fresh populations of 14, minimize={minimize}"
                g = step.apply(problem, tracker.evaluator, rep, rs, list(inds), 6, gen)
                n = 0
                while True:
                    mark = len(rs.choices)
                    try:
                        w = next(g)
                    except StopIteration:
                        break
                    except Exception as ex:  # noqa
                        find.add("rt:C17:TournamentSelection.exception", f"{desc}: raised {type(ex).__name__}: {str(ex)[:80]}", (gen,))
                        return
                    n += 1
                    stats["runs"] += 1
                    dv = [vals.get(id(d)) for (_, d) in rs.choices[mark:]]
                    if id(w) not in vals or any(v is not None and better(v, vals[id(w)], minimize) for v in dv):
                        find.add(
                            "rt:C17:TournamentSelection.winner_not_best",
                            f"{desc}: winner #{n} has value {vals.get(id(w))} but the participants drawn for its tournament had {dv}",
                            (gen, t),
                        )
                        return
                stats["cases"] += 1
                del inds, vals, g
                gc.collect()


def run(tier: str, seed: int) -> dict:
    quick = tier != "thorough"
    rng = pyrandom.Random(seed)
    find = Findings()
    ts = dict(cases=0, runs=0, nontrivial=0, exhaustive_cases=0, complete=True)
    ls = dict(cases=0, runs=0, nontrivial=0, exhaustive_cases=0, complete=True)
    tournament_part(find, rng, Deadline(8 if quick else 100), quick, ts)
    lexicase_part(find, rng, Deadline(16 if quick else 130), quick, ls)
    tournament_reuse_part(find, rng, quick, ts)
    boundary_and_duplicates_part(find, ls)
    samples = [
        f"tournament: {ts['cases']} configurations, {ts['runs']} draw outcomes, {ts['exhaustive_cases']} configurations with ALL outcomes",
        f"lexicase: {ls['cases']} configurations, {ls['runs']} draw outcomes, {ls['exhaustive_cases']} configurations with ALL outcomes",
    ]
    rule = (
        "TournamentSelection under a recording RandomSource (participants = what choice() returned between two winners): winner and participants are members, "
        "winner is a participant and no participant is strictly better (raw values, declared direction); populations over {0,1,2}^n (n<=3 quick, <=4 thorough, all draw "
        "outcomes up to a run cap per configuration, plus sampled n=4..5), tournament sizes 1..7, with/without replacement, target 1..n, both directions, list / Population. "
        "LexicaseSelection: winners are members, never more copies than held, and each winner is in the union over ALL case orders of the reference lexicase filter "
        "applied to the candidates still available (so it is best / within the MAD band on the first case of some order); fitness vectors over {0,1,2}^c, c 1..3, "
        "populations <= 5, all minimise flags for small cases, both epsilon modes, target 1..n, all draw outcomes up to a run cap per configuration"
    )
    return result(
        ts["runs"] + ls["runs"], ts["nontrivial"] + ls["nontrivial"], rule, samples, find.violations(), exhaustive=False,
        tournament=ts, lexicase=ls,
    )  # "complete": False means the wall-clock budget of the tier ended before the planned space did
