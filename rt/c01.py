"""C01 bounded stand-in: every program any representation produces is well-typed; creation fails only with
the library's own error types.

Oracle: rt.structure_helpers.well_typed (written from the property statement: exact base types, real tuples,
lists of well-typed elements, one union alternative, a registered concrete production under abstract types).
"""
from __future__ import annotations

from rt.common import result, structure, count_nodes
from rt import structure_helpers as H
from rt.structure_helpers import Findings, Budget, explore, well_typed, show


def mapper_family(rep):
    return "stack" if rep == "stack" else "create_node"


def redeclared_field_type(F, seed):
    """A field's declared TYPE is changed on a class that was already used (Cls.__init__.__annotations__[f] = NewType, as the
    repository's examples do) and the grammar is extracted again: programs of the new grammar must hold values of the NEW type."""
    import dataclasses as _dcs
    from abc import ABC as _ABC
    from geneticengine.grammar.grammar import extract_grammar as _eg
    from geneticengine.random.sources import NativeRandomSource as _NRS
    from geneticengine.representations.tree.initializations import MaxDepthDecider as _MD
    from geneticengine.representations.tree.treebased import TreeBasedRepresentation as _TR
    from geneticengine.representations.grammatical_evolution.ge import GrammaticalEvolutionRepresentation as _GE
    from geneticengine.representations.grammatical_evolution.structured_ge import StructuredGrammaticalEvolutionRepresentation as _SGE

    NumT = type("NumT", (_ABC,), {"__module__": __name__})
    BoolT = type("BoolT", (_ABC,), {"__module__": __name__})
    LitT = _dcs.make_dataclass("LitT", [("v", int)], bases=(NumT,))
    TrueT = _dcs.make_dataclass("TrueT", [], bases=(BoolT,))
    NotT = _dcs.make_dataclass("NotT", [("b", BoolT)], bases=(BoolT,))
    HolderT = _dcs.make_dataclass("HolderT", [("x", BoolT), ("y", NumT)])
    for c_ in (LitT, TrueT, NotT, HolderT):
        c_.__module__ = __name__
    n = 0

    def one_round(sd, want, tag):
        nonlocal n
        g = _eg([LitT, TrueT, NotT], HolderT)
        r = _NRS(sd)
        dec = _MD(r, g, 4)
        progs = []
        tree = _TR(g, dec)
        progs += [("tree create", tree.create_genotype(r)) for _ in range(8)]
        for nm, rep in (("GE mapping", _GE(g, dec, gene_length=32)), ("SGE mapping", _SGE(g, dec, gene_length=16))):
            progs += [(nm, rep.genotype_to_phenotype(rep.create_genotype(r))) for _ in range(5)]
        for how, p_ in progs:
            n += 1
            if not isinstance(p_, HolderT) or not isinstance(p_.x, want) or not isinstance(p_.y, NumT):
                F.add("redeclaration:field-holds-the-previously-declared-type", f"{tag}, {how}: {show(p_, 80)} -- field x is declared {want.__name__}", size=1)
                return

    try:
        one_round(seed, BoolT, "first declaration (x: BoolT)")
        HolderT.__init__.__annotations__["x"] = NumT
        one_round(seed + 1, NumT, "after re-declaring x: NumT and extracting the grammar again")
    except Exception as ex:  # noqa
        F.add("redeclaration:exception", f"re-declared field type scenario raised {type(ex).__name__}: {str(ex)[:100]}", size=1)
    return n


def run(tier: str, seed: int) -> dict:
    thorough = tier == "thorough"
    budget = Budget(420 if thorough else 33)
    F = Findings("C01")
    fam = H.full_family()
    ex_runs = 4000 if thorough else 300
    seeds = 60 if thorough else 8
    extra_depths = 3 if thorough else 2

    def depths(view, g, rep):
        lo = g.get_min_tree_depth()
        if rep in ("tree-pt", "stack"):
            return [lo]
        if rep == "dsge":
            lo += 1  # the dSGE decider refuses max_depth == reported minimum (C03's business)
        return range(lo, lo + extra_depths)

    evaluations = 0
    distinct = set()
    samples = []
    cells = []
    for c in explore(fam, H.ALL_REPS, depths, seed, exhaustive_runs=ex_runs, seeds=seeds, n_ops=3, gene_grid=4 if thorough else 3, budget=budget, cell_info=cells):
        evaluations += 1
        if c.exc is not None:
            if not isinstance(c.exc, H.ALLOWED_ERRORS):
                F.add(
                    f"exception:{H.exc_site(c.exc)}",
                    f"{c.where()}: raised {H.exc_text(c.exc)} during {c.phase}; only GeneticEngineError / SynthesisException are allowed",
                    size=c.size,
                )
            continue
        p = c.program
        start = c.view.start
        try:
            st = structure(p)
        except Exception:
            st = ("unstructurable", type(p).__name__)
        try:
            hash(st)
        except TypeError:
            st = repr(st)
        if (c.member, st) not in distinct:
            distinct.add((c.member, st))
            if len(samples) < 8 and len(distinct) % 97 == 1:
                samples.append(f"{c.where()} -> {show(p, 80)}")
        errs = well_typed(p, start, c.view)
        for kind, path, detail in errs:
            F.add(
                f"{mapper_family(c.rep)}:{kind}",
                f"{c.where()}: program {show(p, 90)} is not a well-typed {start.__name__}: at {path} {kind} ({detail})",
                size=c.size + count_nodes(p),
            )
    evaluations += redeclared_field_type(F, seed) or 0
    n_ex = sum(1 for x in cells if x[4])
    rule = (
        f"{len(fam)} family grammars x 8 representations/deciders x max_depth in [reported minimum, +{extra_depths - 1}]: "
        f"all draw outcomes of creation up to {ex_runs} runs per cell ({n_ex}/{len(cells)} cells exhausted; wide ranges at boundaries+midpoint), "
        f"{seeds} seeds x (2 creations + 3 mutate/crossover steps) per cell, all GE genotypes of length 3 over a small gene alphabet; "
        f"oracle = independent well-typedness checker; allowed failures: GeneticEngineError, SynthesisException; plus a field type re-declared on a used class and the grammar re-extracted (tree / GE / SGE)"
        + ("; wall-clock budget reached, remaining cells skipped" if budget.tripped else "")
    )
    return result(evaluations, len(distinct), rule, samples, F.violations(), exhaustive=False, cells=len(cells), cells_exhausted=n_ex, budget_tripped=budget.tripped)
