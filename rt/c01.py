"""C01 bounded stand-in: every program any representation produces is well-typed; creation fails only with
the library's own error types.

Oracle: rt.structure_helpers.well_typed (written from the property statement: exact base types, real tuples,
lists of well-typed elements, one union alternative, a registered concrete production under abstract types).
"""
from __future__ import annotations

from rt.common import result, structure, count_nodes
from rt import structure_helpers as H
from rt.structure_helpers import Findings, Budget, explore, well_typed, show


def mapper_family(rep):
    return "stack" if rep == "stack" else "create_node"


def run(tier: str, seed: int) -> dict:
    thorough = tier == "thorough"
    budget = Budget(420 if thorough else 33)
    F = Findings("C01")
    fam = H.full_family()
    ex_runs = 4000 if thorough else 300
    seeds = 60 if thorough else 8
    extra_depths = 3 if thorough else 2

    def depths(view, g, rep):
        lo = g.get_min_tree_depth()
        if rep in ("tree-pt", "stack"):
            return [lo]
        if rep == "dsge":
            lo += 1  # the dSGE decider refuses max_depth == reported minimum (C03's business)
        return range(lo, lo + extra_depths)

    evaluations = 0
    distinct = set()
    samples = []
    cells = []
    for c in explore(fam, H.ALL_REPS, depths, seed, exhaustive_runs=ex_runs, seeds=seeds, n_ops=3, gene_grid=4 if thorough else 3, budget=budget, cell_info=cells):
        evaluations += 1
        if c.exc is not None:
            if not isinstance(c.exc, H.ALLOWED_ERRORS):
                F.add(
                    f"exception:{H.exc_site(c.exc)}",
                    f"{c.where()}: raised {H.exc_text(c.exc)} during {c.phase}; only GeneticEngineError / SynthesisException are allowed",
                    size=c.size,
                )
            continue
        p = c.program
        start = c.view.start
        try:
            st = structure(p)
        except Exception:
            st = ("unstructurable", type(p).__name__)
        try:
            hash(st)
        except TypeError:
            st = repr(st)
        if (c.member, st) not in distinct:
            distinct.add((c.member, st))
            if len(samples) < 8 and len(distinct) % 97 == 1:
                samples.append(f"{c.where()} -> {show(p, 80)}")
        errs = well_typed(p, start, c.view)
        for kind, path, detail in errs:
            F.add(
                f"{mapper_family(c.rep)}:{kind}",
                f"{c.where()}: program {show(p, 90)} is not a well-typed {start.__name__}: at {path} {kind} ({detail})",
                size=c.size + count_nodes(p),
            )
    n_ex = sum(1 for x in cells if x[4])
    rule = (
        f"{len(fam)} family grammars x 8 representations/deciders x max_depth in [reported minimum, +{extra_depths - 1}]: "
        f"all draw outcomes of creation up to {ex_runs} runs per cell ({n_ex}/{len(cells)} cells exhausted; wide ranges at boundaries+midpoint), "
        f"{seeds} seeds x (2 creations + 3 mutate/crossover steps) per cell, all GE genotypes of length 3 over a small gene alphabet; "
        f"oracle = independent well-typedness checker; allowed failures: GeneticEngineError, SynthesisException"
        + ("; wall-clock budget reached, remaining cells skipped" if budget.tripped else "")
    )
    return result(evaluations, len(distinct), rule, samples, F.violations(), exhaustive=False, cells=len(cells), cells_exhausted=n_ex, budget_tripped=budget.tripped)
