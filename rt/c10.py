"""C10 (bounded stand-in): the grammar is read-only during synthesis and search.

`grammar.alternatives` (class names, in order), `distanceToTerminal`, `recursive_prods`, `get_weights()`, `all_nodes`,
`terminals`, `non_terminals` are snapshotted around every API call.  The production lists are additionally replaced
(on the grammar INSTANCE under test, nothing in /repo is touched) by an observing list subclass that records which
library function performs a write, so that one defect gets one key whatever public entry point reaches it.
  A. every sequence of random decisions of TreeBasedRepresentation.create_genotype at depth min+1 (ExhaustiveSource),
     each on a pristine grammar - includes every internally failing / backtracking path;
  B. 20+ operations (create, map, mutate, crossover, deliberately failing ones: max_depth below the minimum, depth
     that leaves no alternative, stack genome too short) per representation on one shared grammar, snapshot after each;
     then the set of creatable programs (all decision sequences, small depth) of the used grammar vs a pristine one;
  C. the four search algorithms x five representations.
Grammars: the family, plain / refined twins, a production made infeasible in some contexts by a Dependent refinement
(Bad(a, name: Dependent(a -> VarRange(['x'] if a else [])))), an abstract type whose ONLY production can be infeasible,
and expansion_depthing=True variants.
"""
from __future__ import annotations

import copy
import os
import sys

from rt.common import ExhaustiveSource, enumerate_outcomes, make_family, result, violation
from rt.heap_helpers import (
    LIB,
    Clock,
    NativeRandomSource,
    Timeout,
    watchdog,
    all_grammars,
    extract_grammar,
    grammar_diff,
    grammar_snapshot,
    make_decider,
    make_rep,
    n_nodes,
    short,
    show,
    sstruct,
    tname,
    HO,
    HOOnly,
)

from geneticengine.algorithms.gp.gp import GeneticProgramming
from geneticengine.algorithms.hill_climbing import HC
from geneticengine.algorithms.one_plus_one import OnePlusOne
from geneticengine.algorithms.random_search import RandomSearch
from geneticengine.evaluation.budget import EvaluationBudget
from geneticengine.problems import SingleObjectiveProblem
from geneticengine.representations.tree.treebased import TreeBasedRepresentation
from geneticengine.representations.tree.initializations import MaxDepthDecider

REPS = ["Tree", "GE", "SGE", "dSGE", "Stack"]
MUTATORS = ("append", "extend", "insert", "remove", "pop", "clear", "sort", "reverse", "__setitem__", "__delitem__", "__iadd__", "__imul__")


class SpyList(list):
    """A production list that records who writes to it (innermost library frame)."""

    def _rec(self, method):
        f = sys._getframe(2)
        site = ("<driver>", "", 0)
        while f is not None:
            fn = f.f_code.co_filename
            if fn.startswith(LIB):
                site = (fn[len(LIB):], f.f_code.co_name, f.f_lineno)
                break
            f = f.f_back
        self.log.append((self.owner, method, site))


def _mk(method):
    base = getattr(list, method)

    def w(self, *a, **k):
        self._rec(method)
        return base(self, *a, **k)

    w.__name__ = method
    return w


for _m in MUTATORS:
    setattr(SpyList, _m, _mk(_m))


def instrument(grammar):
    """Replaces every production list by an observing one; returns the shared write log."""
    log = []
    for k in list(grammar.alternatives):
        sl = SpyList(list.__iter__(grammar.alternatives[k]))
        sl.log = log
        sl.owner = tname(k)
        dict.__setitem__(grammar.alternatives, k, sl)
    return log


def soft_snapshot(g):
    return {tname(k): {tname(k2): v2 for k2, v2 in v.items()} for k, v in g.abstract_dist_to_t.items()}


def fresh(classes, start, depthing=False):
    g = extract_grammar(classes, start, depthing)
    return g, instrument(g)


class _Found:
    def __init__(self):
        self.d = {}

    def report(self, key, rank, what, unit):
        if key not in self.d or rank < self.d[key][0]:
            self.d[key] = (rank, what, unit)


def _fit(p):
    return float(n_nodes(p) % 5)


class _Monitor:
    """Snapshot + write log around one API call on one grammar."""

    def __init__(self, grammar, log, gtext, found, stats):
        self.g, self.log, self.gtext, self.found, self.stats = grammar, log, gtext, found, stats
        self.snap = grammar_snapshot(grammar)
        self.soft = soft_snapshot(grammar)
        self.pristine = copy.deepcopy(self.snap)
        self.n_ops = 0

    def after(self, op, context, outcome="", consequence=""):
        """op: API call just made (text); context: representation / seed text."""
        self.stats["checks"] += 1
        self.n_ops += 1
        now = grammar_snapshot(self.g)
        writes = self.log[:]
        del self.log[:]
        changed = grammar_diff(self.snap, now)
        if changed:
            self.stats["changed_calls"] += 1
            by_site = {}
            for owner, method, site in writes:
                by_site.setdefault((site[1], method), []).append((owner, site))
            base = (
                f"{self.gtext}; {context}: after {op}{(' (' + outcome + ')') if outcome else ''} the grammar differs: {'; '.join(short(c, 170) for c in changed[:3])}"
                f"{consequence}"
            )
            if by_site and any(c.startswith("alternatives") for c in changed):
                for (func, method), lst in by_site.items():
                    owner, site = lst[0]
                    key = f"rt:C10:{func}-{method}-on-grammar.alternatives"
                    what = base + f"; written by {site[0]}:{site[2]} {func}: alternatives[{owner}].{method}(..)"
                    self.found.report(key, (1 if outcome.startswith("raised") else 0, self.n_ops, len(what)), what, func)
                comps = [c for c in changed if not c.startswith("alternatives")]
            else:
                comps = changed
            for c in comps:
                comp = c.split(":")[0]
                key = f"rt:C10:{comp}-changed-by-{op.split('(')[0]}"
                self.found.report(key, (1 if outcome.startswith("raised") else 0, self.n_ops, len(base)), base, op.split("(")[0])
        elif writes:
            # written and restored within the call: still a write into the grammar region, reported softly
            self.stats["transient_writes"] += len(writes)
        soft = soft_snapshot(self.g)
        if soft != self.soft:
            self.stats["abstract_dist_to_t_changes"] += 1
            self.soft = soft
        self.snap = now
        return bool(changed)


def _creatable(make_grammar, max_depth, max_runs):
    """All programs TreeBasedRepresentation can create (every decision sequence) from the grammar state `make_grammar()`
    yields - a new copy per run, so the enumeration cannot disturb itself."""
    progs = set()
    fails = 0

    def fn(src):
        g = make_grammar()
        rep = TreeBasedRepresentation(g, MaxDepthDecider(src, g, max_depth))
        return sstruct(rep.create_genotype(src))

    runs = 0
    for _, res, exc in enumerate_outcomes(fn, max_runs=max_runs, max_draws=60):
        runs += 1
        if isinstance(exc, Timeout):
            raise exc
        if exc is None:
            progs.add(res)
        else:
            fails += 1
    return progs, runs, fails, bool(getattr(enumerate_outcomes, "last_exhaustive", False))


# ------------------------------------------------------------------------------------------------ A
def _part_a(gname, gdesc, classes, start, depthing, max_runs, found, stats):
    gtext = f"{gname}{' (expansion_depthing)' if depthing else ''} [{gdesc}]"
    try:
        g0 = extract_grammar(classes, start, depthing)
        md = g0.get_min_tree_depth() + 1
    except Exception:
        return True
    state = {"n": 0}

    def fn(src):
        g, log = fresh(classes, start, depthing)
        mon = _Monitor(g, log, gtext, found, stats)
        outcome = ""
        try:
            rep = TreeBasedRepresentation(g, MaxDepthDecider(src, g, md))
            p = rep.create_genotype(src)
            outcome = "returned " + short(show(sstruct(p)), 80)
            stats["programs"].add((gname, sstruct(p)))
            return p
        except BaseException as ex:  # noqa
            outcome = "raised " + type(ex).__name__
            k = f"A:{type(ex).__name__}"
            stats["errors"][k] = stats["errors"].get(k, 0) + 1
            raise
        finally:
            state["n"] += 1
            mon.n_ops = len(src.values)  # smallest witness = shortest decision sequence
            mon.after("TreeBasedRepresentation.create_genotype", f"MaxDepthDecider(max_depth={md}), random decisions {list(src.values)}", outcome)

    for _, _, exc in enumerate_outcomes(fn, max_runs=max_runs, max_draws=60):
        if isinstance(exc, Timeout):
            raise exc
    return bool(getattr(enumerate_outcomes, "last_exhaustive", False))


# ------------------------------------------------------------------------------------------------ B
def _part_b(kind, gname, gdesc, classes, start, depthing, run_seed, found, stats, enum_runs):
    gtext = f"{gname}{' (expansion_depthing)' if depthing else ''} [{gdesc}]"
    try:
        g, log = fresh(classes, start, depthing)
    except Exception:
        return
    mon = _Monitor(g, log, gtext, found, stats)
    src = NativeRandomSource(run_seed)
    ctx = f"{kind}, NativeRandomSource({run_seed})"
    md = g.get_min_tree_depth() + 2
    any_change = False

    def call(op, fn):
        nonlocal any_change
        outcome = ""
        res = None
        try:
            res = fn()
            outcome = "ok"
        except Timeout:
            raise
        except Exception as ex:
            outcome = "raised " + type(ex).__name__
            k = f"{kind}.{op.split('(')[0].split('.')[-1].strip()}:{type(ex).__name__}"
            stats["errors"][k] = stats["errors"].get(k, 0) + 1
        stats["ops"] += 1
        any_change |= mon.after(op, ctx, outcome)
        return res

    rep = call(f"{kind} representation construction", lambda: make_rep(kind, g, src, max_depth=md, gene_length=16))
    if rep is None:
        return
    rname = type(rep).__name__
    genos = []
    for _ in range(6):
        gt = call(f"{rname}.create_genotype", lambda: rep.create_genotype(src))
        if gt is not None:
            genos.append(gt)
    for gt in list(genos):
        p = call(f"{rname}.genotype_to_phenotype", lambda: rep.genotype_to_phenotype(gt))
        if p is not None:
            stats["programs"].add((gname, sstruct(p)))
    for gt in list(genos)[:4]:
        m = call(f"{rname}.mutate", lambda: rep.mutate(src, gt))
        if m is not None:
            genos.append(m)
            call(f"{rname}.genotype_to_phenotype", lambda: rep.genotype_to_phenotype(m))
    for a, b in zip(genos[:2], genos[2:4]):
        c = call(f"{rname}.crossover", lambda: rep.crossover(src, a, b))
        if c is not None:
            call(f"{rname}.genotype_to_phenotype", lambda: rep.genotype_to_phenotype(c[0]))
            call(f"{rname}.genotype_to_phenotype", lambda: rep.genotype_to_phenotype(c[1]))
    # operations that fail
    call("MaxDepthDecider construction with max_depth below the grammar minimum", lambda: make_decider("MaxDepth", src, g, g.get_min_tree_depth() - 1))
    call(f"{kind} representation construction with max_depth below the grammar minimum", lambda: make_rep(kind, g, src, max_depth=g.get_min_tree_depth() - 1, gene_length=16))
    tight = call(f"{kind} representation construction with max_depth = minimum", lambda: make_rep(kind, g, src, max_depth=g.get_min_tree_depth(), gene_length=2))
    if tight is not None:
        for _ in range(3):
            tg = call(f"{rname}.create_genotype (max_depth = minimum, 2 genes)", lambda: tight.create_genotype(src))
            if tg is not None:
                call(f"{rname}.genotype_to_phenotype (max_depth = minimum, 2 genes)", lambda: tight.genotype_to_phenotype(tg))
    # consequence: creatable programs of the used grammar vs a pristine one
    used = mon.g
    d = extract_grammar(classes, start, depthing).get_min_tree_depth() + 1
    if kind == "Tree" or any_change:
        try:
            before, r1, _, ex1 = _creatable(lambda: extract_grammar(classes, start, depthing), d, enum_runs)
            after, r2, _, ex2 = _creatable(lambda: copy.deepcopy(used), d, enum_runs)
            stats["checks"] += 1
            stats["enumerated"] += r1 + r2
            if before != after and ex1 and ex2:
                lost = sorted(show(x) for x in before - after)
                gained = sorted(show(x) for x in after - before)
                what = (
                    f"{gtext}; {ctx}: after {mon.n_ops} operations the set of programs creatable at max_depth={d} (all decision sequences) changed from {len(before)} to {len(after)} programs; "
                    f"lost {short(lost[:4], 200)}{', gained ' + short(gained[:3], 120) if gained else ''}; grammar.alternatives now {grammar_snapshot(used)['alternatives']} (was {mon.pristine['alternatives']})"
                )
                if any_change:  # consequence of the write(s) already reported: attached to them, not a defect of its own
                    cons = stats["consequences"]
                    if gname not in cons or len(what) < len(cons[gname]):
                        cons[gname] = what
                else:
                    found.report("rt:C10:creatable-set-changes-without-visible-grammar-change", (REPS.index(kind), len(what)), what, "Grammar")
        except Timeout:
            raise
        except Exception as ex:
            stats["errors"][f"creatable:{type(ex).__name__}"] = stats["errors"].get(f"creatable:{type(ex).__name__}", 0) + 1


# ------------------------------------------------------------------------------------------------ C
def _part_c(alg, kind, gname, gdesc, classes, start, run_seed, found, stats):
    gtext = f"{gname} [{gdesc}]"
    try:
        g, log = fresh(classes, start)
    except Exception:
        return
    mon = _Monitor(g, log, gtext, found, stats)
    src = NativeRandomSource(run_seed)
    problem = SingleObjectiveProblem(_fit)
    outcome = "ok"
    try:
        rep = make_rep(kind, g, src, gene_length=16)
        budget = EvaluationBudget(40)
        if alg == "GeneticProgramming":
            a = GeneticProgramming(problem, budget, rep, random=src, population_size=10)
        elif alg == "RandomSearch":
            a = RandomSearch(problem, budget, rep, random=src)
        elif alg == "HC":
            a = HC(problem, budget, rep, random=src, number_of_mutations=3)
        else:
            a = OnePlusOne(problem, budget, rep, random=src)
        best = a.search()
        stats["programs"].add((gname, sstruct(best.get_phenotype())))
    except Timeout:
        raise
    except Exception as ex:
        outcome = "raised " + type(ex).__name__
        k = f"{alg} x {kind}:{type(ex).__name__}"
        stats["errors"][k] = stats["errors"].get(k, 0) + 1
    stats["ops"] += 1
    mon.n_ops = 1000  # prefer the single-call witnesses of parts A / B
    mon.after(f"{alg}.search", f"{kind}, NativeRandomSource({run_seed}), EvaluationBudget(40), population 10", outcome)


# ------------------------------------------------------------------------------------------------
def run(tier: str, seed: int) -> dict:
    quick = tier != "thorough"
    clock = Clock(27 if quick else 400)
    family = make_family()
    grammars = all_grammars(family) + [("H-only-production", [HO, HOOnly], HO, True, "abstract HO with the single production Only(a, name:Dependent(a -> VarRange(['x'] if a else [])))")]
    from rt.heap_helpers import unproductive_grammar as _ug

    grammars = grammars + [_ug()]  # an abstract symbol without productions: operations that draw it fail (and must still leave the grammar alone)
    found = _Found()
    stats = {"checks": 0, "ops": 0, "errors": {}, "programs": set(), "changed_calls": 0, "transient_writes": 0, "abstract_dist_to_t_changes": 0, "enumerated": 0, "consequences": {}}
    parts = {}

    def guarded(label, limit, fn, *args):
        try:
            with watchdog(limit):
                return fn(*args)
        except Timeout:
            stats["errors"][f"skipped at the watchdog: {label}"] = stats["errors"].get(f"skipped at the watchdog: {label}", 0) + 1
        except Exception as ex:  # a crash of one case must not stop the exploration
            stats["errors"][f"case crashed: {label}: {type(ex).__name__}"] = stats["errors"].get(f"case crashed: {label}: {type(ex).__name__}", 0) + 1
        return False

    # A. exhaustive decision sequences of one create on a pristine grammar
    exhaustive_a = True
    exhaustive_list = []
    n_a = 0
    for (gname, classes, start, refined, gdesc) in grammars:
        for depthing in (False, True):
            if clock.used() > clock.limit * 0.3:
                exhaustive_a = False
                break
            before = stats["checks"]
            ex = guarded("A " + gname, max(5, clock.limit * 0.3 - clock.used()), _part_a, gname, gdesc, classes, start, depthing, 400 if quick else 6000, found, stats)
            exhaustive_a &= ex
            if ex:
                exhaustive_list.append(gname + ("+depthing" if depthing else ""))
            n_a += stats["checks"] - before
    parts["A_decision_sequences"] = n_a
    parts["A_exhaustive_for_all_grammars"] = exhaustive_a
    parts["A_exhaustive_for"] = exhaustive_list

    # B. operation sequences
    n_b = 0
    for s in range(2 if quick else 12):
        for (gname, classes, start, refined, gdesc) in grammars:
            for kind in REPS:
                for depthing in ((False,) if (quick and s) else (False, True)):
                    if clock.used() > clock.limit * 0.7:
                        break
                    guarded(f"B {kind}", 4 if quick else 40, _part_b, kind, gname, gdesc, classes, start, depthing, seed * 613 + s, found, stats, 300 if quick else 3000)
                    n_b += 1
    parts["B_operation_sequences"] = n_b

    # C. searches
    n_c = 0
    for s in range(1 if quick else 5):
        for (gname, classes, start, refined, gdesc) in grammars:
            if quick and gname not in ("H-infeasible", "H-only-production", "F1-arith", "F2-list", "F5-mutual", "H-dependent"):
                continue
            for alg in ("GeneticProgramming", "RandomSearch", "HC", "OnePlusOne"):
                for kind in REPS:
                    if clock.over():
                        break
                    guarded(f"C {alg} x {kind}", 3 if quick else 10, _part_c, alg, kind, gname, gdesc, classes, start, seed * 613 + s, found, stats)
                    n_c += 1
    parts["C_searches"] = n_c

    # D. every decider class (incl. the probabilistic one) on every grammar plus one with an unproductive symbol
    from rt.heap_helpers import unproductive_grammar, DECIDERS, grammar_snapshot, grammar_diff
    from geneticengine.random.sources import NativeRandomSource as _NRS

    n_d = 0
    for (gname, classes, start, refined, gdesc) in grammars:
        for dk in DECIDERS:
            if clock.over():
                break
            try:
                g = extract_grammar(classes, start)
            except Exception:
                continue
            snap0 = grammar_snapshot(g)
            for sd in range(3 if quick else 12):
                src = _NRS(seed * 97 + sd)
                try:
                    with watchdog(3):
                        dec = make_decider(dk, src, g, g.get_min_tree_depth() + 2 if g.get_min_tree_depth() < 100000 else 4)
                        rep = TreeBasedRepresentation(g, dec)
                        t = rep.create_genotype(src)
                        rep.mutate(src, t)
                except Timeout:
                    pass
                except Exception:
                    pass
                n_d += 1
                stats["checks"] += 1
                snap1 = grammar_snapshot(g)
                if snap1 != snap0:
                    found.report(
                        f"rt:C10:{dk}Decider-changes-grammar",
                        len(classes),
                        f"{gname} [{gdesc}], TreeBasedRepresentation with the {dk} decider, seed {seed * 97 + sd}: after create + mutate the grammar differs: {'; '.join(grammar_diff(snap0, snap1))[:400]}",
                        f"{dk}.choose_production_alternatives",
                    )
                    break
    parts["D_all_deciders"] = n_d

    notes = []
    if stats["abstract_dist_to_t_changes"]:
        notes.append(
            f"{stats['abstract_dist_to_t_changes']} calls after which Grammar.abstract_dist_to_t (a defaultdict of defaultdicts) had gained entries by being READ "
            "(relabel_nodes, expansion_depthing grammars); not one of the components the property names, not flagged"
        )
    if stats["transient_writes"]:
        notes.append(f"{stats['transient_writes']} writes to production lists that left no visible difference at the end of the call")
    samples = [
        {"part": "A", "what": "one create per decision sequence, pristine grammar each", "sequences": n_a, "exhaustive": exhaustive_a},
        {"part": "B", "what": "~35 API calls per (grammar, representation, seed) incl. failing ones, snapshot after each; creatable-set comparison", "sequences": n_b, "enumerated_creations": stats["enumerated"]},
        {"part": "C", "what": "search algorithms", "runs": n_c},
        {"grammar calls after which the snapshot differed": stats["changed_calls"], "of": stats["checks"]},
    ]
    violations = []
    for k, v in sorted(found.d.items()):
        what = v[1]
        if k.endswith("-on-grammar.alternatives") and stats["consequences"]:
            gn = next((g for g in ("H-infeasible", "H-only-production") if g in stats["consequences"]), sorted(stats["consequences"])[0])
            what += " || consequence (part B): " + stats["consequences"][gn]
        violations.append(violation(k, what, unit=v[2]))
    rule = (
        f"{len(grammars)} grammars (6 family, 6 extra incl. Dependent-infeasible and only-production-infeasible; with and without expansion_depthing). "
        "A: ALL random-decision sequences (ExhaustiveSource; wide integer ranges at boundaries+midpoint) of TreeBasedRepresentation.create_genotype at max_depth=min+1, pristine grammar per sequence; "
        "B: sampled - per representation ~35 calls (create x6, map, mutate x4, crossover x2, failing constructions / creations) on one shared grammar, then the creatable set "
        "(all decision sequences at max_depth=min+1) of the used grammar vs a pristine one; C: GP / RandomSearch / HC / 1+1 x 5 representations, EvaluationBudget(40). "
        "Observed after every call: alternatives (names, order), distanceToTerminal, recursive_prods, get_weights(), all_nodes, terminals, non_terminals, starting_symbol; "
        "writers of production lists identified by an observing list subclass."
    )
    return result(
        stats["checks"],
        len(stats["programs"]),
        rule,
        samples,
        violations,
        exhaustive=False,
        operations=stats["ops"],
        parts=parts,
        library_exceptions=dict(sorted(stats["errors"].items())),
        notes=notes,
        seconds=round(clock.used(), 1),
    )
