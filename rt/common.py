"""Shared infrastructure of the bounded stand-in layer (never counted as proof).

* ExhaustiveSource / enumerate_outcomes: a RandomSource that enumerates ALL outcomes of every randint by
  depth-first replay (wide ranges: boundary values + midpoints), so that "all sequences of random
  decisions" is literal for small cases.
* ScriptedSource: replays a fixed list of draws.
* grammar family: systematically generated small class hierarchies realised as real dataclasses.
* snapshot(): deep structural snapshots (programs, genes, gengy_* metadata, contexts, fitness stores).
* result helpers: every driver returns the dict described in `result()`.
"""
from __future__ import annotations

import os
import sys
import itertools
from abc import ABC
from dataclasses import dataclass, is_dataclass, fields as dc_fields
from typing import Annotated, Any, Union

REPO = os.environ.get("PYVC_REPO", "/repo")
if REPO not in sys.path:
    sys.path.insert(0, REPO)

from geneticengine.random.sources import RandomSource, NativeRandomSource  # noqa: E402
from geneticengine.grammar.metahandlers.ints import IntRange, IntList  # noqa: E402,F401
from geneticengine.grammar.metahandlers.lists import ListSizeBetween  # noqa: E402,F401
from geneticengine.grammar.metahandlers.vars import VarRange  # noqa: E402,F401
from geneticengine.grammar.decorators import abstract  # noqa: E402


# ------------------------------------------------------------------------------------------------
class ScriptedSource(RandomSource):
    """Replays `script`; afterwards returns the lower bound.  Records every draw as (lo, hi, value)."""

    def __init__(self, script=(), after="lo"):
        self.script = list(script)
        self.pos = 0
        self.log = []
        self.after = after

    def _draw(self, lo, hi, is_float):
        if self.pos < len(self.script):
            v = self.script[self.pos]
            if not (lo <= v <= hi):
                v = lo
        else:
            v = lo if self.after == "lo" else hi
        self.pos += 1
        self.log.append((lo, hi, v))
        return float(v) if is_float else int(v)

    def randint(self, min, max):
        return self._draw(min, max, False)

    def random_float(self, min, max):
        return self._draw(min, max, True)


class _Exhausted(Exception):
    pass


class ExhaustiveSource(RandomSource):
    """One run of a DFS over all draw outcomes.  `prefix` fixes the first draws (as indices into the
    candidate values of each draw); the source records the number of candidates at every position."""

    WIDE = 12  # ranges with more values than this are sampled at boundaries and midpoints

    def __init__(self, prefix=(), max_draws=200):
        self.prefix = list(prefix)
        self.arity = []  # number of candidate values at each draw position
        self.values = []
        self.max_draws = max_draws

    @classmethod
    def candidates(cls, lo, hi):
        if hi - lo + 1 <= cls.WIDE:
            return list(range(lo, hi + 1))
        mid = (lo + hi) // 2
        return sorted({lo, lo + 1, mid, hi - 1, hi})

    def randint(self, min, max):
        if max < min:
            raise ValueError(f"empty range for randint({min}, {max})")
        cands = self.candidates(min, max)
        i = len(self.arity)
        if i >= self.max_draws:
            raise _Exhausted()
        self.arity.append(len(cands))
        idx = self.prefix[i] if i < len(self.prefix) else 0
        v = cands[idx]
        self.values.append(v)
        return v

    def random_float(self, min, max):
        # floats: the two ends and the middle
        i = len(self.arity)
        if i >= self.max_draws:
            raise _Exhausted()
        cands = [min, (min + max) / 2, max] if max > min else [min]
        self.arity.append(len(cands))
        idx = self.prefix[i] if i < len(self.prefix) else 0
        v = cands[idx]
        self.values.append(v)
        return float(v)


def enumerate_outcomes(fn, max_runs=20000, max_draws=200):
    """Calls fn(source) for every sequence of draw outcomes (DFS, lexicographic).  Yields
    (draw values, result | exception).  Sets .exhaustive on the generator's `info` dict (returned last)."""
    prefix = []
    runs = 0
    exhaustive = True
    while True:
        src = ExhaustiveSource(prefix, max_draws)
        try:
            res = fn(src)
            exc = None
        except _Exhausted:
            res, exc = None, "draw-limit"
            exhaustive = False
        except BaseException as ex:  # noqa
            res, exc = None, ex
        yield list(src.values), res, exc
        runs += 1
        # next prefix in DFS order
        arity = src.arity
        chosen = (prefix + [0] * len(arity))[: len(arity)]
        j = len(arity) - 1
        while j >= 0 and chosen[j] + 1 >= arity[j]:
            j -= 1
        if j < 0:
            break
        prefix = chosen[:j] + [chosen[j] + 1]
        if runs >= max_runs:
            exhaustive = False
            break
    enumerate_outcomes.last_exhaustive = exhaustive


# ------------------------------------------------------------------------------------------------
# structural views of programs (independent of the library's own metadata)
BASE = (int, float, str, bool)


def is_node(v) -> bool:
    return is_dataclass(v) and not isinstance(v, type)


def children(v):
    """Direct children of a program value: dataclass fields, list / tuple elements."""
    if isinstance(v, (list, tuple)):
        return list(v)
    if is_node(v):
        return [getattr(v, f.name) for f in dc_fields(v)]
    return []


def depth(v) -> int:
    """Longest chain of nested grammar nodes (base values 0, field-less node 1, lists/tuples transparent)."""
    if is_node(v):
        return 1 + max([depth(c) for c in children(v)], default=0)
    if isinstance(v, (list, tuple)):
        return max([depth(c) for c in v], default=0)
    return 0


def count_nodes(v) -> int:
    if is_node(v):
        return 1 + sum(count_nodes(c) for c in children(v))
    if isinstance(v, (list, tuple)):
        return sum(count_nodes(c) for c in v)
    return 0


def structure(v):
    """Hashable structural fingerprint of a program (types + base values), for equality / set membership."""
    if is_node(v):
        return (type(v).__qualname__,) + tuple(structure(c) for c in children(v))
    if isinstance(v, list):
        return ("list",) + tuple(structure(c) for c in v)
    if isinstance(v, tuple):
        return ("tuple",) + tuple(structure(c) for c in v)
    if isinstance(v, float):
        return ("float", repr(v))
    return (type(v).__name__, v)


def snapshot(v, _depth=0, _seen=None):
    """Deep snapshot including library metadata (gengy_* attributes, stored contexts) and gene containers."""
    if _seen is None:
        _seen = {}
    if _depth > 60:
        return "<deep>"
    if isinstance(v, BASE) or v is None:
        return (type(v).__name__, v if not isinstance(v, float) else repr(v))
    if id(v) in _seen:
        return ("<ref>", _seen[id(v)])
    _seen[id(v)] = len(_seen)
    if isinstance(v, dict):
        return ("dict",) + tuple((repr(k) if not isinstance(k, BASE) else k, snapshot(x, _depth + 1, _seen)) for k, x in v.items())
    if isinstance(v, (list, tuple)):
        head = (type(v).__name__,) + tuple(snapshot(x, _depth + 1, _seen) for x in v)
        extra = tuple((a, snapshot(getattr(v, a), _depth + 1, _seen)) for a in sorted(getattr(v, "__dict__", {})) if a.startswith("gengy") and a != "gengy_types_this_way")
        return head + (("attrs",) + extra if extra else ())
    if isinstance(v, type):
        return ("type", v.__qualname__)
    if callable(v) and not hasattr(v, "__dict__"):
        return ("callable",)
    d = getattr(v, "__dict__", None)
    if d is None:
        return (type(v).__name__, repr(v))
    items = []
    for a in sorted(d):
        if a == "gengy_types_this_way":
            tw = d[a]
            items.append((a, tuple(sorted((getattr(k, "__qualname__", repr(k)), len(x)) for k, x in tw.items()))))
        elif a in ("random", "grammar", "representation", "tracker"):
            continue
        else:
            items.append((a, snapshot(d[a], _depth + 1, _seen)))
    return (type(v).__qualname__,) + tuple(items)


# ------------------------------------------------------------------------------------------------
# grammar family: small hierarchies as real dataclasses (module-level names so get_type_hints resolves)
def make_family():
    """Returns a list of (name, classes, start symbol, description).  Every member is a fresh set of real
    dataclasses; fields cover base types, abstract types, lists, unions, tuples and annotated types."""
    fams = []
    g = globals()

    def reg(*classes):
        for c in classes:
            g[c.__name__] = c
            c.__module__ = __name__
        return list(classes)

    # F1: one abstract type, leaf + binary recursion
    class E1(ABC):
        pass

    @dataclass
    class Lit1(E1):
        v: Annotated[int, IntRange(0, 2)]

    @dataclass
    class Add1(E1):
        l: E1
        r: E1

    fams.append(("F1-arith", reg(E1, Lit1, Add1), E1, "abstract E with leaf(IntRange) and binary recursion"))

    # F2: list of abstract
    class E2(ABC):
        pass

    @dataclass
    class Leaf2(E2):
        pass

    @dataclass
    class Many2(E2):
        xs: list[E2]

    fams.append(("F2-list", reg(E2, Leaf2, Many2), E2, "production with an un-annotated list[E] field"))

    # F3: union field and nested abstract layers
    class R3(ABC):
        pass

    @abstract
    class S3(R3):
        pass

    @dataclass
    class A3(S3):
        pass

    @dataclass
    class B3(S3):
        x: R3

    @dataclass
    class C3(R3):
        u: Union[A3, B3]

    fams.append(("F3-union", reg(R3, S3, A3, B3, C3), R3, "nested abstract layers and a Union[A,B] field"))

    # F4: tuple field, bool / float / str base fields
    class E4(ABC):
        pass

    @dataclass
    class P4(E4):
        t: tuple[int, bool]

    @dataclass
    class Q4(E4):
        b: bool
        n: Annotated[str, VarRange(["x", "y"])]

    fams.append(("F4-tuple-base", reg(E4, P4, Q4), E4, "tuple[int,bool] field, bool field, VarRange str field"))

    # F5: bounded list and IntList, mutual recursion
    class X5(ABC):
        pass

    class Y5(ABC):
        pass

    @dataclass
    class XL5(X5):
        k: Annotated[int, IntList([1, 5])]

    @dataclass
    class XY5(X5):
        y: Y5

    @dataclass
    class YX5(Y5):
        xs: Annotated[list[X5], ListSizeBetween(1, 2)]

    fams.append(("F5-mutual", reg(X5, Y5, XL5, XY5, YX5), X5, "mutual recursion X<->Y through a ListSizeBetween(1,2) field"))

    # F6: concrete root with a Union of concrete types at different depths
    @dataclass
    class Leaf6:
        pass

    @dataclass
    class Mid6:
        l: Leaf6

    @dataclass
    class Deep6:
        m: Mid6

    @dataclass
    class Root6:
        x: Union[Leaf6, Deep6]

    fams.append(("F6-union-depths", reg(Leaf6, Mid6, Deep6, Root6), Root6, "Union[Leaf, Deep] under a concrete root"))
    return fams


def result(evaluations, distinct_nontrivial, rule, samples, violations, exhaustive=False, **extra):
    d = dict(evaluations=int(evaluations), distinct_nontrivial=int(distinct_nontrivial), rule=rule, samples=list(samples)[:8], violations=list(violations), exhaustive=bool(exhaustive))
    d.update(extra)
    return d


def violation(key: str, what: str, unit: str | None = None, **replay):
    """key: stable identifier (used by KNOWN_FINDINGS.txt); what: one-line description with the failing input."""
    rp = {"confirmed": True}
    rp.update(replay)
    return {"key": key, "what": what, "unit": unit or "bounded", "replay": rp}
