"""C15 bounded stand-in: every built-in step / initialiser asked for k individuals yields exactly k; every
generation of a GP run has exactly population_size individuals.  Never counted as proof."""
from __future__ import annotations

import itertools
import random as pyrandom

from rt.common import result, violation, make_family
from rt.search_helpers import (
    IntRep, TableFitness, Recorder, Watchdog, Deadline, CountingBudget, run_step, blame, describe_call, spec_name, needs_multi,
    _avail, single_tracker, FORMS,
)

from geneticengine.problems import SingleObjectiveProblem
from geneticengine.random.sources import NativeRandomSource
from geneticengine.evaluation.budget import EvaluationBudget
from geneticengine.algorithms.gp.gp import GeneticProgramming, default_generic_programming_step
from geneticengine.algorithms.gp.operators.initializers import StandardInitializer, HalfAndHalfInitializer
from geneticengine.representations.common import GenericPopulationInitializer
from geneticengine.solutions.individual import Individual

WEIGHT_VALUES = (0, 1, 2, 3, 5, 90)
LEAVES = [
    ("elitism",), ("novelty",), ("tournament", 2, False), ("tournament", 1, False), ("tournament", 3, True), ("mutation", 0.5),
    ("mutation", 1.0), ("mutation", 0.0), ("crossover", 1.0), ("crossover", 0.0), ("identity",), ("evaluate",),
]
LEX_LEAVES = [("lexicase", False), ("lexicase", True)]


class Findings:
    def __init__(self):
        self.by_key = {}

    def add(self, key, what, size):
        cur = self.by_key.get(key)
        if cur is None or size < cur[0]:
            self.by_key[key] = (size, what)

    def violations(self):
        return [violation(k, w, unit=k.split(":")[-1]) for k, (s, w) in sorted(self.by_key.items())]


_cache = {}


def _ok(spec, k, L, form):
    """Outcome of one isolated application (cached): True iff exactly k individuals and no exception."""
    key = (repr(spec), k, L, form)
    if key not in _cache:
        r = run_step(spec, k, L, form, "multi" if needs_multi(spec) else "single", probe=False)
        _cache[key] = r["count"] == k and r["exc"] is None
    return _cache[key]


def _shallow(spec, leaf):
    if spec[0] == "seq":
        return ("seq", [leaf for _ in spec[1]])
    if spec[0] in ("par", "xpar"):
        return (spec[0], [leaf for _ in spec[1]], spec[2])
    return spec


def input_class(spec, k, L, form):
    """The simplest input class on which the step (combinators: with always-k leaves) already fails."""
    variants = [spec] if spec[0] not in ("seq", "par", "xpar") else [_shallow(spec, ("novelty",)), _shallow(spec, ("identity",))]

    def bad(kk, LL, ff):
        return any(not _ok(v, kk, LL, ff) for v in variants)

    if bad(k, k, "list"):
        return "exactly_k"
    if L > k and bad(k, L, "list"):
        return "population_larger_than_target"
    if form == "population" and bad(k, L, "population"):
        return "population_object"
    if form in ("generator", "iterator"):
        return "one_shot_iterator"
    if form == "population":
        return "population_object"
    return "population_larger_than_target" if L > k else "exactly_k"


def key_of(b):
    """Stable key of a blamed contract breach."""
    node, kind, rec = b
    own = node.last()
    k = own["k"]
    a = _avail(own)
    L = a if a is not None else max(k, own["it"].n - own["before"])
    form = own["form"]
    cls = node.cls
    if kind == "sub_call_pre":
        if rec["form"] == "iterator" and rec["exhausted_at_start"] and cls == "ParallelStep":
            return "rt:C15:ParallelStep.iterate.one_shot_iterator"
        if cls == "ExclusiveParallelStep":
            c = input_class(node.spec, k, L, "list")
            return "rt:C15:ExclusiveParallelStep.ranges" + ("" if c == "exactly_k" else "." + c)
        return f"rt:C15:{cls}.sub_call_population"
    c = input_class(node.spec, k, L, form)
    if cls == "ParallelStep":
        base = "compute_ranges"
    elif cls == "ExclusiveParallelStep":
        base = "ranges"
    else:
        base = None
    if base is not None:
        return f"rt:C15:{cls}.{base}" + ("" if c == "exactly_k" else "." + c)
    return f"rt:C15:{cls}.{c}"


def check_case(find, spec, k, L, form, seed=0):
    """One application; returns (counts as nontrivial, sample text)."""
    r = run_step(spec, k, L, form, "multi" if needs_multi(spec) else "single", seed=seed)
    good = r["count"] == k and r["exc"] is None
    if isinstance(r["exc"], Watchdog):
        find.add(f"rt:C15:{r['node'].cls}.unbounded_output", f"{spec_name(spec)} asked for {k} of a {form} of {L}: {r['exc']}", (k, L))
        return good
    if not good:
        b = blame(r["node"])
        key = key_of(b)
        what = (
            f"{spec_name(spec)} asked for k={k} with a {form} of {L} individuals yielded {r['count']}"
            + (f" and raised {type(r['exc']).__name__}" if r["exc"] is not None else "")
            + f"; breach at {b[0].cls} ({b[1]}): {describe_call(b[2])}"
        )
        find.add(key, what, (len(spec_name(spec)), k, L))
    return good


def lexicase_duplicates(find):
    """LexicaseSelection on populations in which the same Individual object occurs more than once (unapplied crossover /
    mutation and elitism hand on the same objects): asked for k <= len(population) it must still yield exactly k."""
    from geneticengine.algorithms.gp.operators.selection import LexicaseSelection
    from geneticengine.problems import MultiObjectiveProblem
    from geneticengine.random.sources import NativeRandomSource
    from geneticengine.solutions.individual import Individual
    from rt.search_helpers import IntRep, TableFitness, multi_tracker

    n = 0
    for pattern in ((0, 1, 0, 2, 1, 3), (0, 0, 0, 1), (0, 1, 2, 2, 2, 0, 1), (0, 0)):
        for epsilon in (False, True):
            rep = IntRep()
            distinct = max(pattern) + 1
            ff = TableFitness([[i % 3, (i * 2) % 3] for i in range(distinct)] + [[0, 0]])
            problem = MultiObjectiveProblem([False, True], ff)
            tracker = multi_tracker(problem)
            base = [Individual(rep.create_genotype(None), rep) for _ in range(distinct)]
            pop = [base[i] for i in pattern]
            for k in range(1, len(pop) + 1):
                n += 1
                try:
                    out = list(LexicaseSelection(epsilon=epsilon).apply(problem, tracker.evaluator, rep, NativeRandomSource(k), list(pop), k, 1))
                    exc = None
                except Exception as ex:  # noqa
                    out, exc = [], ex
                if exc is not None or len(out) != k:
                    find.add(
                        "rt:C15:LexicaseSelection.exactly_k",
                        f"LexicaseSelection(epsilon={epsilon}) asked for k={k} with a list of {len(pop)} individuals in which objects repeat (pattern {list(pattern)}) "
                        + (f"raised {type(exc).__name__}: {str(exc)[:60]}" if exc is not None else f"yielded {len(out)}"),
                        (len(pop), k),
                    )
    return n


def all_weight_vectors(max_len=4):
    for n in range(1, max_len + 1):
        for w in itertools.product(WEIGHT_VALUES, repeat=n):
            if any(w):
                yield w


def nestings(rng, n):
    """Compositions up to depth three: C1(a, C2(C3(b, c), d)) with C in {seq, par, xpar}."""
    wts = [(1, 1), (1, 2), (5, 90), (3, 1), (2, 3), (1, 0), (0, 1), (90, 5)]
    seq_ok = [leaf for leaf in LEAVES]
    out = []
    combos = list(itertools.product(("seq", "par", "xpar"), repeat=3))
    for i in range(n):
        c1, c2, c3 = combos[i % len(combos)]
        depth = 2 + (i // len(combos)) % 2

        def mk(c, kids):
            if rng.random() < 0.5:
                kids = kids[::-1]
            if c == "seq":
                return ("seq", kids)
            return (c, kids, rng.choice(wts))

        a, b, c, d = (rng.choice(seq_ok) for _ in range(4))
        inner = mk(c3, [b, c])
        mid = mk(c2, [inner, d]) if depth == 3 else inner
        top = mk(c1, [a, mid])
        out.append(top)
    return out


def tree_setup():
    from geneticengine.grammar.grammar import extract_grammar
    from geneticengine.representations.tree.treebased import TreeBasedRepresentation
    from geneticengine.representations.tree.initializations import MaxDepthDecider

    name, classes, start, _ = make_family()[0]
    g = extract_grammar(classes, start)
    r = NativeRandomSource(1)
    rep = TreeBasedRepresentation(g, MaxDepthDecider(r, g, 3))
    return g, rep


def run(tier: str, seed: int) -> dict:
    quick = tier != "thorough"
    dl = Deadline(24 if quick else 270)
    rng = pyrandom.Random(seed)
    find = Findings()
    evaluations = 0
    nontrivial = 0
    samples = []
    exhaustive = True
    parts = {}

    def case(spec, k, L, form):
        nonlocal evaluations, nontrivial
        evaluations += 1
        good = check_case(find, spec, k, L, form, seed=seed)
        if k >= 2:
            nontrivial += 1
        if len(samples) < 8 and evaluations % 997 == 1:
            samples.append(f"{spec_name(spec)} k={k} L={L} {form} -> {'ok' if good else 'VIOLATION'}")
        return good

    # A. leaf steps x sizes x iterable forms
    n0 = evaluations
    for leaf in LEAVES + LEX_LEAVES:
        for k in range(1, 7):
            for L in (k, k + 1, k + 3):
                for form in FORMS:
                    case(leaf, k, L, form)
    parts["leaf_steps"] = evaluations - n0

    # B. ParallelStep / ExclusiveParallelStep: all weight vectors x sizes (list, L == k)
    n0 = evaluations
    vectors = list(all_weight_vectors(4))
    vectors_run = vectors
    # the pure partition function is checked on ALL vectors in both tiers
    from geneticengine.algorithms.gp.operators.combinators import ParallelStep, IdentityStep

    if hasattr(ParallelStep, "compute_ranges"):
        for w in vectors:
            st = ParallelStep([IdentityStep() for _ in w], list(w))
            for L in range(2, 13):
                evaluations += 1
                nontrivial += 1
                try:
                    rg = st.compute_ranges(list(range(L)), L)
                    okp = rg[0][0] == 0 and rg[-1][1] == L and all(a <= b for a, b in rg) and all(x[1] == y[0] for x, y in zip(rg, rg[1:]))
                    detail = f"ranges {rg}"
                except Exception as ex:  # noqa
                    okp, detail = False, f"raised {type(ex).__name__}: {ex}"
                if not okp:
                    find.add("rt:C15:ParallelStep.compute_ranges", f"compute_ranges with weights={list(w)}, population and target {L}: {detail} do not partition [0,{L})", (len(w), L, sum(w)))
    weights_done = True
    for w in vectors_run:
        if dl.over():
            weights_done = False
            break
        for L in range(2, 13):
            for comb in ("par", "xpar"):
                for leaf in (("novelty",), ("identity",)):
                    case((comb, [leaf for _ in w], w), L, L, "list")
    parts["weight_vectors"] = evaluations - n0

    # B2. population larger than the target and the other iterable forms, on a spread of vectors
    n0 = evaluations
    spread = [(1, 1), (1, 2), (5, 5, 90), (1, 1, 1), (3, 3, 3, 1), (1, 1, 1, 1, 1, 1), (0, 1), (1, 0), (2, 3, 5), (90, 1, 1, 1)]
    spread += [tuple(rng.choice(WEIGHT_VALUES[1:]) for _ in range(rng.randint(2, 4))) for _ in range(6 if quick else 30)]
    for w in spread:
        for k in range(2, 13):
            for L in (k, k + 1, k + 3):
                for form in FORMS:
                    for comb in ("par", "xpar"):
                        for leaf in (("novelty",), ("identity",), ("elitism",)):
                            if dl.over():
                                break
                            case((comb, [leaf for _ in w], w), k, L, form)
    parts["forms_and_larger_populations"] = evaluations - n0

    # C. nestings up to depth three
    n0 = evaluations
    for spec in nestings(rng, 108 if quick else 1080):
        for k in range(2, 13):
            for form in FORMS:
                if dl.over():
                    exhaustive = False
                    break
                case(spec, k, k, form)
    # lexicase on populations in which Individual objects repeat
    evaluations += lexicase_duplicates(find)
    # one nesting family with lexicase (multi-objective problem)
    for w in ((1, 1), (1, 2)):
        for k in range(2, 9):
            for form in FORMS:
                case(("seq", [("lexicase", False), ("par", [("elitism",), ("mutation", 1.0)], w)]), k, k, form)
                case(("par", [("lexicase", True), ("novelty",)], w), k, k + 1, form)
    parts["nestings"] = evaluations - n0

    # D. initialisers
    n0 = evaluations
    try:
        from geneticengine.representations.tree.operators import (
            FullInitializer, GrowInitializer, PositionIndependentGrowInitializer, RampedHalfAndHalfInitializer, InjectInitialPopulationWrapper,
        )

        g, trep = tree_setup()
        problem = SingleObjectiveProblem(lambda p: 0.0)

        def init_case(name, mk, rep, k, extra=""):
            nonlocal evaluations, nontrivial
            evaluations += 1
            nontrivial += k >= 2
            try:
                out = []
                for x in mk().initialize(problem, rep, NativeRandomSource(seed + k), k):
                    out.append(x)
                    if len(out) > 5 * k + 20:
                        break
                bad = len(out) != k or not all(isinstance(x, Individual) for x in out)
                detail = f"yielded {len(out)}"
            except Exception as ex:  # noqa
                bad, detail = True, f"raised {type(ex).__name__}: {str(ex)[:80]}"
            if bad:
                find.add(f"rt:C15:{name}.initialize", f"{name}{extra} asked for {k} individuals {detail}", (k, len(extra)))

        irep = IntRep()
        for k in range(1, 8):
            init_case("StandardInitializer", StandardInitializer, irep, k)
            init_case("StandardInitializer", StandardInitializer, trep, k)
            init_case("GenericPopulationInitializer", GenericPopulationInitializer, irep, k)
            init_case("GenericPopulationInitializer", GenericPopulationInitializer, trep, k)
            init_case("HalfAndHalfInitializer", lambda: HalfAndHalfInitializer(StandardInitializer(), StandardInitializer()), irep, k, "(Standard, Standard)")
            init_case("HalfAndHalfInitializer", lambda: HalfAndHalfInitializer(FullInitializer(3), GrowInitializer()), trep, k, "(Full(3), Grow)")
            init_case("FullInitializer", lambda: FullInitializer(3), trep, k, "(3)")
            init_case("GrowInitializer", GrowInitializer, trep, k)
            init_case("PositionIndependentGrowInitializer", lambda: PositionIndependentGrowInitializer(3), trep, k, "(3)")
            init_case("RampedHalfAndHalfInitializer", lambda: RampedHalfAndHalfInitializer(3), trep, k, "(3)")
            for m in range(0, k + 3):
                progs = [trep.create_genotype(NativeRandomSource(100 + i)) for i in range(m)]
                init_case("InjectInitialPopulationWrapper", lambda: InjectInitialPopulationWrapper(list(progs), StandardInitializer()), trep, k, f" with {m} injected programs")
                inds = [Individual(p, trep) for p in progs]
                init_case("InjectInitialPopulationWrapper", lambda: InjectInitialPopulationWrapper(list(inds), GrowInitializer()), trep, k, f" with {m} injected individuals")
    except ImportError as ex:
        parts["initialisers_error"] = str(ex)
    parts["initialisers"] = evaluations - n0

    # E. whole GP runs: every generation has exactly population_size individuals
    n0 = evaluations

    def gp_run(label, mkstep, spec, pop, minimize=False):
        nonlocal evaluations, nontrivial
        evaluations += 1
        nontrivial += 1
        rep = IntRep(cap=20000)
        ff = TableFitness([rng.randint(0, 4) for _ in range(53)], cap=20000)
        problem = SingleObjectiveProblem(ff, minimize)
        rec = Recorder()
        tracker = single_tracker(problem, [rec])
        budget = CountingBudget(EvaluationBudget(pop * 5), cap=40)
        gp = GeneticProgramming(problem, budget, rep, NativeRandomSource(seed), tracker, population_size=pop, step=mkstep())
        err = None
        try:
            gp.search()
        except Watchdog:
            pass  # steps that never create new individuals cannot reach the budget; sizes are still checked
        except Exception as ex:  # noqa
            err = ex
        sizes = {}
        for ind, is_best, gen, best in rec.log:
            sizes[gen] = sizes.get(gen, 0) + 1
        gens = sorted(sizes)
        complete = gens[:-1] if err is not None else gens  # a crashed generation is reported through err
        wrong = [(gg, sizes[gg]) for gg in complete if sizes[gg] != pop]
        if sizes.get(0, pop) != pop:
            find.add("rt:C15:GeneticProgramming.initial_population", f"{label}: population_size={pop}, generation 0 has {sizes.get(0)} individuals", (pop,))
        wrong = [x for x in wrong if x[0] != 0]
        if wrong or err is not None:
            key = None
            if spec is not None:
                r = run_step(spec, pop, pop, "population", seed=seed)
                if r["count"] != pop or r["exc"] is not None:
                    key = key_of(blame(r["node"]))
            key = key or "rt:C15:GeneticProgramming.generation_size"
            what = f"GP run, population_size={pop}, step {label}: generation sizes {[sizes[gg] for gg in gens]}"
            if err is not None:
                what += f", raised {type(err).__name__}: {str(err)[:60]}"
            find.add(key, what, (len(label), pop))
        if len(samples) < 8 and pop in (5, 9):
            samples.append(f"GP {label} pop={pop}: generation sizes {[sizes[gg] for gg in gens]}")

    default_spec = ("par", [("elitism",), ("novelty",), ("seq", [("tournament", 5, False), ("crossover", 0.01), ("mutation", 0.9)])], (5, 5, 90))
    from rt.search_helpers import build

    comps = [
        ("default_generic_programming_step()", default_generic_programming_step, default_spec),
        ("P(elitism|novelty|S(tournament(2);X(mutation|crossover))) w=[1,1,6]", None, ("par", [("elitism",), ("novelty",), ("seq", [("tournament", 2, False), ("xpar", [("mutation", 0.5), ("crossover", 0.9)], (1, 1))])], (1, 1, 6))),
        ("P(novelty x6) w=[1]*6", None, ("par", [("novelty",)] * 6, (1,) * 6)),
        ("P(elitism|novelty|mutation|identity) w=[3,3,3,1]", None, ("par", [("elitism",), ("novelty",), ("mutation", 1.0), ("identity",)], (3, 3, 3, 1))),
        ("S(tournament(3);P(elitism|mutation) w=[1,2])", None, ("seq", [("tournament", 3, False), ("par", [("elitism",), ("mutation", 1.0)], (1, 2))])),
        ("X(mutation|crossover|novelty) w=[2,3,5]", None, ("xpar", [("mutation", 1.0), ("crossover", 1.0), ("novelty",)], (2, 3, 5))),
        ("S(P(tournament(2)|novelty) w=[90,5];evaluate;elitism)", None, ("seq", [("par", [("tournament", 2, False), ("novelty",)], (90, 5)), ("evaluate",), ("elitism",)])),
    ]
    for label, mk, spec in comps:
        for pop in range(2, 13):
            if dl.over():
                exhaustive = False
                break
            gp_run(label, mk if mk is not None else (lambda s=spec: build(s)[0]), spec, pop)
    try:
        from geml.simplegp import SimpleGP

        for pop in range(2, 13):
            for e, nv in ((1, 1), (0, 1), (1, 0), (2, 3)):
                if e + nv <= pop and not dl.over():
                    spec = ("par", [("elitism",), ("novelty",), ("seq", [("tournament", 5, False), ("xpar", [("mutation", 0.01), ("crossover", 0.9)], (1, 1))])], (e, nv, pop - e - nv))
                    gp_run(f"SimpleGP.build_step(elitism={e}, novelty={nv})", lambda: SimpleGP.build_step(None, pop, e, nv, 0.01, 0.9, ("tournament", 5)), spec, pop)
    except ImportError as ex:
        parts["simplegp_error"] = str(ex)
    parts["gp_runs"] = evaluations - n0

    samples = samples[:3] + [f"{name}: {cnt} cases" for name, cnt in parts.items() if isinstance(cnt, int)][:5]
    rule = (
        "len(list(step.apply(...))) == k for every built-in step (k 1..6, population of k, k+1, k+3 as list / Population / one-shot generator); "
        "ParallelStep and ExclusiveParallelStep with weight vectors over {0,1,2,3,5,90}^<=4 (not all zero) x sizes 2..12 (all 1550 vectors, "
        "compute_ranges itself and the step with always-k and with identity leaves); "
        "seeded nestings of seq/par/xpar to depth 3 (quick 108, thorough 1080 compositions) x sizes 2..12 x 3 forms; initialisers k 1..7, injected populations of length 0..k+2; "
        "GP runs (IntRep stub, 5*pop evaluations) population_size 2..12 x 7 step compositions + SimpleGP.build_step, individuals per generation counted by a SearchRecorder"
    )
    return result(evaluations, nontrivial, rule, samples, find.violations(), exhaustive=False, parts=parts, weight_vectors_exhaustive=weights_done)
