"""C13 bounded stand-in: fitness comes from the phenotype, is computed at most once per individual and problem,
is counted honestly, and the parallel evaluator agrees with the sequential one.  Invocations are counted with an
append-only temp file (worker processes do not share memory).  Never counted as proof."""
from __future__ import annotations

import itertools
import os
import random as pyrandom
import shutil
import tempfile

from rt.common import result, violation
from rt.search_helpers import IntRep, Watchdog, Deadline, CountingBudget, single_tracker, multi_tracker, build

from geneticengine.problems import SingleObjectiveProblem, MultiObjectiveProblem
from geneticengine.random.sources import NativeRandomSource
from geneticengine.evaluation.budget import EvaluationBudget
from geneticengine.evaluation.sequential import SequentialEvaluator
from geneticengine.evaluation.parallel import ParallelEvaluator
from geneticengine.evaluation.tracker import SingleObjectiveProgressTracker
from geneticengine.solutions.individual import Individual
from geneticengine.algorithms.gp.gp import GeneticProgramming
from geneticengine.algorithms.gp.population import Population

VALUES = [0.0, 1.0, -2.0, 3.5, 2.0, -1.0, 0.5, 4.0, -3.0, 1.5, 2.5]


class Findings:
    """One violation per key (smallest witness).  A defect of a problem class shows in every evaluator scenario
    that uses that class: such echoes are dropped, the defect is reported once at the problem."""

    def __init__(self):
        self.by_key = {}

    def add(self, key, what, size, pclasses=()):
        slot = self.by_key.setdefault(key, {})
        pc = tuple(sorted(set(pclasses)))
        cur = slot.get(pc)
        if cur is None or size < cur[0]:
            slot[pc] = (size, what)

    def violations(self):
        broken = {k.split(":")[2].split(".")[0] for k in self.by_key if k.split(":")[2].split(".")[0].endswith("Problem")}
        out = []
        for k, slot in sorted(self.by_key.items()):
            cands = [v for pc, v in slot.items() if not (set(pc) & broken)]
            if cands:
                out.append(violation(k, min(cands)[1], unit=k.split(":")[-1]))
        if any(v["key"].endswith("Evaluator.fitness_value") for v in out):
            # the disagreement is already explained by a wrong value against the reference
            out = [v for v in out if not v["key"].endswith(".differs_from_sequential")]
        return out


class Log:
    """Append-only invocation log: one line 'tag phenotype' per fitness-function invocation (O_APPEND writes)."""

    def __init__(self, directory):
        self.path = os.path.join(directory, "invocations.log")
        open(self.path, "w").close()

    def lines(self):
        with open(self.path) as f:
            return [tuple(x.split()) for x in f.read().splitlines() if x.strip()]

    def count(self):
        return len(self.lines())


# worker timing: phenotype -> seconds to sleep inside the fitness function.  Used for the parallel evaluator so that
# earlier individuals finish LATER than later ones ("regardless of how workers are scheduled")
DELAYS: dict = {}


def make_ff(path, tag, fn):
    def ff(p):
        fd = os.open(path, os.O_WRONLY | os.O_APPEND | os.O_CREAT)
        try:
            os.write(fd, f"{tag} {p}\n".encode())
        finally:
            os.close(fd)
        d = DELAYS.get(p, 0)
        if d:
            import time as _t

            _t.sleep(d)
        return fn(p)

    return ff


def val(p, k=0):
    return VALUES[(p * 3 + k * 5) % len(VALUES)]


# name -> (constructor(log path, tag), reference components(p), reference aggregate(components))
def problem_kinds():
    def single(minimize):
        return (
            lambda path, tag: SingleObjectiveProblem(make_ff(path, tag, lambda p: val(p)), minimize),
            lambda p: [val(p)],
            lambda c: -c[0] if minimize else c[0],
        )

    def multi(minimize, n):
        mm = minimize if isinstance(minimize, list) else [minimize] * n
        return (
            lambda path, tag: MultiObjectiveProblem(list(minimize) if isinstance(minimize, list) else minimize, make_ff(path, tag, lambda p: [val(p, k) for k in range(n)])),
            lambda p: [val(p, k) for k in range(n)],
            lambda c: sum(-x if m else x for x, m in zip(c, mm)),
        )

    return {
        "SingleObjectiveProblem(minimize=False)": single(False),
        "SingleObjectiveProblem(minimize=True)": single(True),
        "MultiObjectiveProblem(minimize=[False,True])": multi([False, True], 2),
        "MultiObjectiveProblem(minimize=[True,True,False])": multi([True, True, False], 3),
        "MultiObjectiveProblem(minimize=True)": multi(True, 3),
        "MultiObjectiveProblem(minimize=False)": multi(False, 2),
        "MultiObjectiveProblem(minimize=[False])": multi([False], 1),
    }


def check_problem_level(find, log, kinds):
    """problem.evaluate(phenotype): components, aggregate, exactly one invocation."""
    n = 0
    for name, (mk, comps, aggr) in kinds.items():
        tag = "PL" + str(n)
        problem = mk(log.path, tag)
        for p in range(0, 11):
            before = log.count()
            n += 1
            try:
                f = problem.evaluate(p)
            except Exception as ex:  # noqa
                find.add(f"rt:C13:{name.split('(')[0]}.evaluate_exception", f"{name}.evaluate({p}) raised {type(ex).__name__}: {str(ex)[:80]}", (p,))
                continue
            inv = log.count() - before
            exp_c = [float(x) for x in comps(p)]
            if list(f.fitness_components) != exp_c:
                find.add(f"rt:C13:{name.split('(')[0]}.components", f"{name}.evaluate({p}): components {f.fitness_components}, the fitness function returns {exp_c}", (p,))
            if f.maximizing_aggregate != aggr(exp_c):
                find.add(f"rt:C13:{name.split('(')[0]}.aggregate", f"{name}.evaluate({p}) with components {exp_c}: aggregate {f.maximizing_aggregate}, expected {aggr(exp_c)}", (p,))
            if inv != 1:
                find.add(f"rt:C13:{name.split('(')[0]}.one_invocation", f"{name}.evaluate({p}) invoked the fitness function {inv} times", (p,))
    return n


def scenario(find, log, evname, mkev, kinds, kind_names, n, pre_mask, dup, serial, via):
    """One population: n fresh individuals, those in pre_mask evaluated beforehand (by another evaluator), the
    individual `dup` presented a second time; evaluated for each problem in kind_names with ONE evaluator."""
    rep = IntRep(start=serial)
    inds = [Individual(rep.create_genotype(None), rep) for _ in range(n)]
    pop = list(inds) + ([inds[dup]] if dup is not None else [])
    ev = mkev()
    DELAYS.clear()
    if evname == "ParallelEvaluator":
        # adversarial schedule: the first presented individuals are the slowest
        DELAYS.update({serial: 0.25, serial + 1: 0.12})
    desc0 = f"{evname}, {n} individuals (phenotypes {serial}..{serial + n - 1}), already evaluated: {[i for i in range(n) if pre_mask[i]]}, presented twice: {dup}, via {via}"
    size = (n, sum(pre_mask), dup is not None, len(kind_names))
    out = {}
    ok = True
    for j, name in enumerate(kind_names):
        mk, comps, aggr = kinds[name]
        tag = f"S{serial}_{j}_{evname[0]}"
        problem = mk(log.path, tag)
        desc = f"{desc0}, problem {name}"
        pcs = (name.split("(")[0],)
        helper = SequentialEvaluator()
        helper.evaluate(problem, [i for i, m in zip(inds, pre_mask) if m])
        before_log = log.count()
        before_cnt = ev.number_of_evaluations()
        try:
            if via == "evaluate":
                ev.evaluate(problem, list(pop))
            elif via == "evaluate_async":
                got = list(ev.evaluate_async(problem, iter(pop)))
                if len(got) != len(pop) or not all(a is b for a, b in zip(got, pop)):
                    find.add(f"rt:C13:{evname}.yields_input", f"{desc}: evaluate_async yielded {len(got)} individuals / a different order for {len(pop)} presented", size, pcs)
                    ok = False
            elif via == "tracker":
                tr = (single_tracker if name.startswith("Single") else multi_tracker)(problem)
                tr.evaluator = ev
                tr.evaluate(list(pop))
                tr.evaluate_single(pop[0])
            elif via == "Population twice":
                tr = (single_tracker if name.startswith("Single") else multi_tracker)(problem)
                tr.evaluator = ev
                p1 = Population(iter(pop), tr, 0)
                Population(iter(p1), tr, 1)
        except Exception as ex:  # noqa
            find.add(f"rt:C13:{evname}.exception", f"{desc}: raised {type(ex).__name__}: {str(ex)[:100]}", size, pcs)
            return None
        new_lines = log.lines()[before_log:]
        counted = ev.number_of_evaluations() - before_cnt
        if counted != len(new_lines):
            find.add(f"rt:C13:{evname}.counter", f"{desc}: evaluator counted {counted} evaluations, the fitness function was invoked {len(new_lines)} times", size, pcs)
            ok = False
        all_for_tag = [ln for ln in log.lines() if ln[0] == tag]
        per = {}
        for ln in all_for_tag:
            per[ln[1]] = per.get(ln[1], 0) + 1
        multi_inv = {p: c for p, c in per.items() if c > 1}
        if multi_inv:
            find.add(f"rt:C13:{evname}.at_most_once", f"{desc}: fitness function invoked more than once for phenotype(s) {multi_inv}", size, pcs)
            ok = False
        fits = []
        for ind in inds:
            if not ind.has_fitness(problem):
                find.add(f"rt:C13:{evname}.fitness_missing", f"{desc}: individual with phenotype {ind.get_phenotype()} has no fitness afterwards", size, pcs)
                ok = False
                fits.append(None)
                continue
            f = ind.get_fitness(problem)
            exp_c = [float(x) for x in comps(ind.get_phenotype())]
            fits.append((list(f.fitness_components), f.maximizing_aggregate))
            if list(f.fitness_components) != exp_c or f.maximizing_aggregate != aggr(exp_c):
                find.add(
                    f"rt:C13:{evname}.fitness_value",
                    f"{desc}: individual with phenotype {ind.get_phenotype()} has fitness {list(f.fitness_components)} / aggregate {f.maximizing_aggregate}, the fitness function gives {exp_c} / {aggr(exp_c)}",
                    size,
                    pcs,
                )
                ok = False
        out[name] = fits
    return out if ok else out


def gp_run(find, log, evname, mkev, pop, budget_n, spec, seed, tagno):
    tag = f"G{tagno}"
    rep = IntRep(cap=5000)
    problem = SingleObjectiveProblem(make_ff(log.path, tag, lambda p: val(p)), minimize=bool(tagno % 2))
    ev = mkev()
    tracker = SingleObjectiveProgressTracker(problem, ev)
    step = build(spec)[0] if spec is not None else None
    gp = GeneticProgramming(problem, CountingBudget(EvaluationBudget(budget_n), cap=200), rep, NativeRandomSource(seed), tracker, population_size=pop, step=step)
    desc = f"GP run with {evname}, population_size={pop}, EvaluationBudget({budget_n}), step {'default' if spec is None else spec}"
    try:
        gp.search()
    except Watchdog:
        pass
    except Exception as ex:  # noqa
        find.add(f"rt:C13:{evname}.exception", f"{desc}: raised {type(ex).__name__}: {str(ex)[:100]}", (pop, budget_n))
        return
    lines = [ln for ln in log.lines() if ln[0] == tag]
    per = {}
    for ln in lines:
        per[ln[1]] = per.get(ln[1], 0) + 1
    multi_inv = {p: c for p, c in per.items() if c > 1}
    if multi_inv:
        find.add(f"rt:C13:{evname}.at_most_once", f"{desc}: fitness function invoked more than once for phenotype(s) {dict(list(multi_inv.items())[:4])}", (pop, budget_n, 99), ("SingleObjectiveProblem",))
    if ev.number_of_evaluations() != len(lines):
        find.add(f"rt:C13:{evname}.counter", f"{desc}: evaluator counted {ev.number_of_evaluations()}, the fitness function was invoked {len(lines)} times", (pop, budget_n, 99), ("SingleObjectiveProblem",))


def short_lived_problems(find):
    """The same individuals are evaluated for a problem that is then dropped, and afterwards for a NEW problem (which the
    allocator likes to place where the old one was): the recorded fitness for the new problem must be what ITS fitness
    function returns, computed by one invocation per individual, and the counter must move."""
    import gc
    from geneticengine.evaluation.sequential import SequentialEvaluator
    from geneticengine.problems import SingleObjectiveProblem
    from geneticengine.solutions.individual import Individual
    from rt.search_helpers import IntRep

    rep = IntRep()
    inds = [Individual(rep.create_genotype(None), rep) for _ in range(4)]
    n = 0
    for rnd in range(6):
        calls = []
        sign = rnd % 2 == 1

        def ff(p, _r=rnd, _calls=calls):
            _calls.append(p)
            return float(p * 10 + _r)

        problem = SingleObjectiveProblem(ff, minimize=sign)
        ev = SequentialEvaluator()
        ev.evaluate(problem, inds)
        n += 1
        got = [i.get_fitness(problem).fitness_components[0] for i in inds]
        want = [float(i.get_phenotype() * 10 + rnd) for i in inds]
        aggs = [i.get_fitness(problem).maximizing_aggregate for i in inds]
        if got != want or len(calls) != len(inds) or ev.number_of_evaluations() != len(inds) or aggs != [(-w if sign else w) for w in want]:
            find.add(
                "rt:C13:Individual.fitness_of_a_later_problem",
                f"round {rnd + 1}: 4 individuals evaluated for a new problem after an earlier one was dropped: recorded components {got} (expected {want}), aggregates {aggs}, "
                f"{len(calls)} fitness invocations, counter {ev.number_of_evaluations()}",
                (rnd,),
            )
            break
        del problem, ev, ff
        gc.collect()
    return n


def run(tier: str, seed: int) -> dict:
    quick = tier != "thorough"
    dl = Deadline(22 if quick else 240)
    rng = pyrandom.Random(seed)
    find = Findings()
    directory = tempfile.mkdtemp(prefix="rt_c13_")
    evaluations = nontrivial = 0
    samples = []
    par_calls = 0
    mismatches = 0
    try:
        log = Log(directory)
        kinds = problem_kinds()
        names = list(kinds)
        evaluations += check_problem_level(find, log, kinds)
        evaluations += short_lived_problems(find)
        serial = 1000
        vias = ("evaluate", "evaluate_async", "tracker", "Population twice")
        # sequential: every size 1..4 x every pre-evaluation mask x duplicate position x problem x way of presenting
        plan = []
        for n in range(1, 5 if quick else 6):
            for mask in itertools.product((False, True), repeat=n):
                for dup in [None] + list(range(n)):
                    plan.append((n, mask, dup))
        for i, (n, mask, dup) in enumerate(plan):
            if dl.over():
                break
            kn = [names[i % len(names)], names[(i // 2 + 3) % len(names)]]
            if kn[0] == kn[1]:
                kn = kn[:1]
            via = vias[i % len(vias)]
            scenario(find, log, "SequentialEvaluator", SequentialEvaluator, kinds, kn, n, mask, dup, serial, via)
            serial += 10
            evaluations += 1
            nontrivial += n > 1
        # parallel vs sequential on equal populations (real pathos pools)
        par_plan = [p for p in plan if p[0] <= 3] if quick else plan
        rng.shuffle(par_plan)
        par_plan = sorted(par_plan[: (60 if quick else 400)], key=lambda p: p[0])
        for i, (n, mask, dup) in enumerate(par_plan):
            if dl.over():
                break
            kn = [names[i % len(names)], names[(i + 2) % len(names)]]
            via = vias[i % 2] if i % 5 else vias[2 + (i // 5) % 2]
            a = scenario(find, log, "SequentialEvaluator", SequentialEvaluator, kinds, kn, n, mask, dup, serial, via)
            b = scenario(find, log, "ParallelEvaluator", ParallelEvaluator, kinds, kn, n, mask, dup, serial, via)
            par_calls += len(kn)
            serial += 10
            evaluations += 2
            nontrivial += n > 1
            if a is not None and b is not None and a != b:
                mismatches += 1
                find.add(
                    "rt:C13:ParallelEvaluator.differs_from_sequential",
                    f"{n} individuals (phenotypes {serial - 10}..), already evaluated {[j for j in range(n) if mask[j]]}, presented twice {dup}, problems {kn}: sequential fitness {a} but parallel {b}",
                    (n, sum(mask)),
                    [x.split("(")[0] for x in kn],
                )
            if len(samples) < 6:
                samples.append(f"n={n} pre-evaluated={[j for j in range(n) if mask[j]]} dup={dup} {kn[0]} via {via}: parallel == sequential: {a == b}")
        # step compositions that re-present individuals to the evaluator
        specs = [None, ("par", [("elitism",), ("identity",), ("seq", [("tournament", 2, True), ("mutation", 0.5), ("crossover", 0.5)])], (1, 1, 2)), ("seq", [("evaluate",), ("elitism",), ("mutation", 0.5)])]
        t = 0
        for spec in specs:
            for pop in (2, 3, 5):
                gp_run(find, log, "SequentialEvaluator", SequentialEvaluator, pop, 4 * pop + 1, spec, seed + t, t)
                t += 1
                evaluations += 1
                nontrivial += 1
        for spec in specs[: (1 if quick else 3)]:
            if not dl.over():
                gp_run(find, log, "ParallelEvaluator", ParallelEvaluator, 3, 9, spec, seed + t, t)
                t += 1
                evaluations += 1
                nontrivial += 1
                par_calls += 9
        total_invocations = log.count()
    finally:
        shutil.rmtree(directory, ignore_errors=True)
        try:
            from pathos.helpers import shutdown

            shutdown()
        except Exception:  # noqa
            pass
    rule = (
        "problem.evaluate on 7 problem forms (single max/min; multi with list and bool `minimize`, 1-3 objectives): components == fitness function, aggregate == v / -v / sum with minimised "
        "components negated, exactly one invocation.  SequentialEvaluator: all populations of 1..4 (thorough 1..5) individuals x every subset already evaluated x one individual presented twice (or none) x two "
        "problems sharing the individuals x presented through evaluate / evaluate_async / tracker.evaluate / Population built twice: recorded fitness == fitness function of the phenotype, "
        "at most one invocation per (individual, problem) in an append-only file log, evaluator counter == number of invocations.  ParallelEvaluator (real pathos pools): a seeded subset "
        "(60 populations of <= 3 individuals quick / all 320 thorough) with the same checks and parallel == sequential fitness on equal populations; GP runs (default step and two compositions re-presenting individuals) "
        "with both evaluators: counter == invocations, each phenotype evaluated once"
    )
    return result(evaluations, nontrivial, rule, samples, find.violations(), exhaustive=False, parallel_evaluator_calls=par_calls, fitness_invocations_logged=total_invocations, parallel_vs_sequential_mismatches=mismatches)
