"""C02 bounded stand-in: refinements hold on every produced value; each handler's validate accepts everything
its generate can produce.

Oracle: rt.structure_helpers.handler_pred / refined -- the documented predicate of each metahandler, written
from the class docstrings and constructor parameters (inclusive bounds; IntervalRange: minimum_length <= b-a <=
maximum_length, 0 <= a, b <= maximum_top_limit; Dependent evaluated against the actual sibling values).
"""
from __future__ import annotations

from typing import Annotated, get_args, get_origin

import numpy as np

from rt.common import result, structure, count_nodes, enumerate_outcomes
from rt import structure_helpers as H
from rt.structure_helpers import Findings, Budget, explore, refined, handler_pred, show


def handler_grid():
    """(label, handler, base type, dependent values)"""
    out = []
    for a, b in ((3, 3), (-2, 2), (0, 1)):
        out.append((f"IntRange({a},{b})", H.IntRange(a, b), int, {}))
    for el in ([7], [1, 5, 9], [2, 2]):
        out.append((f"IntList({el})", H.IntList(el), int, {}))
    for a, b in ((0.5, 0.5), (-1.0, 1.0)):
        out.append((f"FloatRange({a},{b})", H.FloatRange(a, b), float, {}))
    for el in ([2.5], [1.0, 2.0]):
        out.append((f"FloatList({el})", H.FloatList(el), float, {}))
    for el in (["x"], ["x", "y", "z"]):
        out.append((f"VarRange({el})", H.VarRange(el), str, {}))
    for a, b in ((0, 0), (0, 2), (2, 2), (1, 3)):
        out.append((f"ListSizeBetween({a},{b})", H.ListSizeBetween(a, b), list[int], {}))
        out.append((f"ListSizeBetweenWithoutListOperations({a},{b})", H.ListSizeBetweenWithoutListOperations(a, b), list[int], {}))
    for a, b, o in ((0, 0, "a"), (0, 2, "a"), (2, 2, "a"), (1, 3, "ab")):
        out.append((f"StringSizeBetween({a},{b},{o!r})", H.StringSizeBetween(a, b, o), str, {}))
    out.append(("WeightedStringHandler([[1.0]],['a'])", H.WeightedStringHandler(np.array([[1.0]]), ["a"]), str, {}))
    out.append(("WeightedStringHandler([[0,1],[.5,.5]],['a','b'])", H.WeightedStringHandler(np.array([[0.0, 1.0], [0.5, 0.5]]), ["a", "b"]), str, {}))
    out.append(("WeightedStringHandler([[.2,.8]]*3,['a','b'])", H.WeightedStringHandler(np.array([[0.2, 0.8]] * 3), ["a", "b"]), str, {}))
    for a, b, t in ((5, 10, 100), (1, 2, 3), (0, 1, 2)):
        out.append((f"IntervalRange({a},{b},{t})", H.IntervalRange(a, b, t), tuple[int, int], {}))
    for a in (0, 2, 3):
        out.append((f"Dependent('a', a->IntRange(a,3)) with a={a}", H.Dependent("a", lambda a: H.IntRange(a, 3)), int, {"a": a}))
    return out


def check_handlers(F: Findings, stats):
    for label, h, base, deps in handler_grid():
        hname = type(h).__name__

        def fn(src, h=h, base=base, deps=deps):
            s = H.SafeSource(src)

            def rec(t, **kw):
                if get_origin(t) is Annotated:
                    inner = get_args(t)[1]
                    return inner.generate(s, None, get_args(t)[0], rec, deps)
                return 0

            return h.generate(s, None, base, rec, deps)

        for values, v, exc in enumerate_outcomes(fn, max_runs=4000):
            stats["evaluations"] += 1
            if isinstance(exc, str):
                continue
            if exc is not None:
                if not isinstance(exc, H.ALLOWED_ERRORS):
                    F.add(f"handler:{hname}:generate-raises:{type(exc).__name__}", f"{label}.generate with draws={values} raised {H.exc_text(exc)}", size=len(values))
                continue
            stats["distinct"].add((label, repr(v)))
            r = handler_pred(h, v, deps)
            if r is not None and not r[0]:
                F.add(f"handler:{hname}:generate-violates-documented-predicate", f"{label}.generate with draws={values} returned {v!r}: {r[2]}", size=len(values))
            try:
                ok = h.validate(v)
            except Exception as ex:  # noqa
                F.add(f"handler:{hname}:validate-raises:{type(ex).__name__}", f"{label}.validate({v!r}) raised {H.exc_text(ex)} for a value its own generate produced (draws={values})", size=len(values))
                continue
            if not ok:
                F.add(f"handler:{hname}:validate-rejects-generated", f"{label}.validate({v!r}) is {ok!r} for a value its own generate produced (draws={values})", size=len(values))


def run(tier: str, seed: int) -> dict:
    thorough = tier == "thorough"
    budget = Budget(420 if thorough else 33)
    F = Findings("C02")
    stats = {"evaluations": 0, "distinct": set()}
    check_handlers(F, stats)
    n_handler_cases = stats["evaluations"]

    fam = H.full_family()
    ex_runs = 4000 if thorough else 300
    seeds = 60 if thorough else 8
    extra_depths = 3 if thorough else 2

    def depths(view, g, rep):
        lo = g.get_min_tree_depth()
        if rep in ("tree-pt", "stack"):
            return [lo]
        if rep == "dsge":
            lo += 1
        return range(lo, lo + extra_depths)

    samples = []
    cells = []
    refined_positions = 0
    for c in explore(fam, H.ALL_REPS, depths, seed, exhaustive_runs=ex_runs, seeds=seeds, n_ops=3, gene_grid=4 if thorough else 3, budget=budget, cell_info=cells):
        stats["evaluations"] += 1
        if c.exc is not None or c.program is None:
            continue  # failures are C01's business
        p = c.program
        try:
            st = structure(p)
            hash(st)
        except Exception:
            st = repr(p)
        k = (c.member, st)
        if k not in stats["distinct"]:
            stats["distinct"].add(k)
            if len(samples) < 8 and len(stats["distinct"]) % 131 == 1:
                samples.append(f"{c.where()} -> {show(p, 80)}")
        errs = refined(p, c.view.start)
        for handler, path, detail in errs:
            fam_key = "stack" if c.rep == "stack" else "create_node"
            hkey = handler.split("(")[0] if not handler.startswith("Dependent") else "Dependent"
            F.add(
                "stack:refinement-not-enforced" if fam_key == "stack" else f"{fam_key}:{hkey}",
                f"{c.where()}: program {show(p, 90)} violates {handler} at {path}: {detail}",
                size=c.size + count_nodes(p),
            )
    n_ex = sum(1 for x in cells if x[4])
    rule = (
        f"(a) {len(handler_grid())} handler/parameter combinations (min==max, empty-allowed lists, one-letter alphabets): all draw outcomes of generate "
        f"({n_handler_cases} runs) checked against the documented predicate and the handler's own validate; "
        f"(b) {len(fam)} family grammars x 8 representations x max_depth in [reported minimum, +{extra_depths - 1}]: creation over all draw outcomes up to {ex_runs} runs per cell "
        f"({n_ex}/{len(cells)} cells exhausted), {seeds} seeds x (2 creations + 3 mutate/crossover steps); every refined position (top level, in lists, in unions, under Dependent) "
        f"checked against the documented predicate with the actual sibling values"
        + ("; wall-clock budget reached, remaining cells skipped" if budget.tripped else "")
    )
    return result(stats["evaluations"], len(stats["distinct"]), rule, samples, F.violations(), exhaustive=False, handler_runs=n_handler_cases, cells=len(cells), cells_exhausted=n_ex, budget_tripped=budget.tripped)
