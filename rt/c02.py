"""C02 bounded stand-in: refinements hold on every produced value; each handler's validate accepts everything
its generate can produce.

Oracle: rt.structure_helpers.handler_pred / refined -- the documented predicate of each metahandler, written
from the class docstrings and constructor parameters (inclusive bounds; IntervalRange: minimum_length <= b-a <=
maximum_length, 0 <= a, b <= maximum_top_limit; Dependent evaluated against the actual sibling values).
"""
from __future__ import annotations

from typing import Annotated, get_args, get_origin

import numpy as np

from rt.common import result, structure, count_nodes, enumerate_outcomes
from rt import structure_helpers as H
from rt.structure_helpers import Findings, Budget, explore, refined, handler_pred, show


def handler_grid():
    """(label, handler, base type, dependent values)"""
    out = []
    for a, b in ((3, 3), (-2, 2), (0, 1)):
        out.append((f"IntRange({a},{b})", H.IntRange(a, b), int, {}))
    for el in ([7], [1, 5, 9], [2, 2]):
        out.append((f"IntList({el})", H.IntList(el), int, {}))
    for a, b in ((0.5, 0.5), (-1.0, 1.0)):
        out.append((f"FloatRange({a},{b})", H.FloatRange(a, b), float, {}))
    for el in ([2.5], [1.0, 2.0]):
        out.append((f"FloatList({el})", H.FloatList(el), float, {}))
    for el in (["x"], ["x", "y", "z"]):
        out.append((f"VarRange({el})", H.VarRange(el), str, {}))
    for a, b in ((0, 0), (0, 2), (2, 2), (1, 3)):
        out.append((f"ListSizeBetween({a},{b})", H.ListSizeBetween(a, b), list[int], {}))
        out.append((f"ListSizeBetweenWithoutListOperations({a},{b})", H.ListSizeBetweenWithoutListOperations(a, b), list[int], {}))
    for a, b, o in ((0, 0, "a"), (0, 2, "a"), (2, 2, "a"), (1, 3, "ab")):
        out.append((f"StringSizeBetween({a},{b},{o!r})", H.StringSizeBetween(a, b, o), str, {}))
    out.append(("WeightedStringHandler([[1.0]],['a'])", H.WeightedStringHandler(np.array([[1.0]]), ["a"]), str, {}))
    out.append(("WeightedStringHandler([[0,1],[.5,.5]],['a','b'])", H.WeightedStringHandler(np.array([[0.0, 1.0], [0.5, 0.5]]), ["a", "b"]), str, {}))
    out.append(("WeightedStringHandler([[.2,.8]]*3,['a','b'])", H.WeightedStringHandler(np.array([[0.2, 0.8]] * 3), ["a", "b"]), str, {}))
    for a, b, t in ((5, 10, 100), (1, 2, 3), (0, 1, 2)):
        out.append((f"IntervalRange({a},{b},{t})", H.IntervalRange(a, b, t), tuple[int, int], {}))
    for a in (0, 2, 3):
        out.append((f"Dependent('a', a->IntRange(a,3)) with a={a}", H.Dependent("a", lambda a: H.IntRange(a, 3)), int, {"a": a}))
    return out


def check_handlers(F: Findings, stats):
    for label, h, base, deps in handler_grid():
        hname = type(h).__name__

        def fn(src, h=h, base=base, deps=deps):
            s = H.SafeSource(src)

            def rec(t, **kw):
                if get_origin(t) is Annotated:
                    inner = get_args(t)[1]
                    return inner.generate(s, None, get_args(t)[0], rec, deps)
                return 0

            return h.generate(s, None, base, rec, deps)

        for values, v, exc in enumerate_outcomes(fn, max_runs=4000):
            stats["evaluations"] += 1
            if isinstance(exc, str):
                continue
            if exc is not None:
                if not isinstance(exc, H.ALLOWED_ERRORS):
                    F.add(f"handler:{hname}:generate-raises:{type(exc).__name__}", f"{label}.generate with draws={values} raised {H.exc_text(exc)}", size=len(values))
                continue
            stats["distinct"].add((label, repr(v)))
            r = handler_pred(h, v, deps)
            if r is not None and not r[0]:
                F.add(f"handler:{hname}:generate-violates-documented-predicate", f"{label}.generate with draws={values} returned {v!r}: {r[2]}", size=len(values))
            try:
                ok = h.validate(v)
            except Exception as ex:  # noqa
                F.add(f"handler:{hname}:validate-raises:{type(ex).__name__}", f"{label}.validate({v!r}) raised {H.exc_text(ex)} for a value its own generate produced (draws={values})", size=len(values))
                continue
            if not ok:
                F.add(f"handler:{hname}:validate-rejects-generated", f"{label}.validate({v!r}) is {ok!r} for a value its own generate produced (draws={values})", size=len(values))


def redeclaration_scenario(F: Findings, stats, seed):
    """A refinement is re-declared on a class that was already used (the Cls.__init__.__annotations__[...] idiom of the
    handlers' docstrings), the grammar is extracted again, and everything created / mapped under the NEW grammar must satisfy
    the NEW refinement (nothing about the class may be remembered across extractions)."""
    from abc import ABC as _ABC
    from dataclasses import dataclass as _dc
    from typing import Annotated as _Ann
    from geneticengine.grammar.grammar import extract_grammar as _eg
    from geneticengine.grammar.metahandlers.ints import IntRange as _IR
    from geneticengine.grammar.metahandlers.lists import ListSizeBetween as _LS
    from geneticengine.random.sources import NativeRandomSource as _NRS
    from geneticengine.representations.tree.initializations import MaxDepthDecider as _MD
    from geneticengine.representations.tree.treebased import TreeBasedRepresentation as _TR
    from geneticengine.representations.grammatical_evolution.ge import GrammaticalEvolutionRepresentation as _GE
    from geneticengine.representations.grammatical_evolution.structured_ge import StructuredGrammaticalEvolutionRepresentation as _SGE

    import dataclasses as _dcs

    # classes are built with real type objects (this module uses postponed annotations, which get_type_hints could not
    # resolve for names local to this function)
    ExprR = type("ExprR", (_ABC,), {"__module__": __name__})
    LitR = _dcs.make_dataclass("LitR", [("value", _Ann[int, _IR(0, 5)])], bases=(ExprR,))
    PlusR = _dcs.make_dataclass("PlusR", [("left", ExprR), ("right", ExprR)], bases=(ExprR,))
    VecR = _dcs.make_dataclass("VecR", [("items", _Ann[list[LitR], _LS(1, 2)])], bases=(ExprR,))
    for _c in (LitR, PlusR, VecR):
        _c.__module__ = __name__

    def walk(e, lo, hi, smin, smax, out, what):
        if isinstance(e, LitR):
            if not lo <= e.value <= hi:
                out.append(f"{what}: LitR.value={e.value} with the field declared IntRange({lo},{hi})")
        elif isinstance(e, PlusR):
            walk(e.left, lo, hi, smin, smax, out, what)
            walk(e.right, lo, hi, smin, smax, out, what)
        elif isinstance(e, VecR):
            if not smin <= len(e.items) <= smax:
                out.append(f"{what}: len(VecR.items)={len(e.items)} with the field declared ListSizeBetween({smin},{smax})")
            for i in e.items:
                walk(i, lo, hi, smin, smax, out, what)

    def one_round(sd, lo, hi, smin, smax, tag):
        out = []
        g = _eg([LitR, PlusR, VecR], ExprR)
        r = _NRS(sd)
        dec = _MD(r, g, 4)
        tree = _TR(g, dec)
        pop = [tree.create_genotype(r) for _ in range(12)]
        for e in pop:
            walk(e, lo, hi, smin, smax, out, f"{tag}, tree create")
            walk(tree.mutate(r, e), lo, hi, smin, smax, out, f"{tag}, tree mutate")
        for nm, rep in (("GE", _GE(g, dec, gene_length=64)), ("SGE", _SGE(g, dec, gene_length=32))):
            for _ in range(6):
                gt = rep.create_genotype(r)
                walk(rep.genotype_to_phenotype(gt), lo, hi, smin, smax, out, f"{tag}, {nm} mapping")
        stats["evaluations"] = stats.get("evaluations", 0) + 36
        return out

    try:
        bad = one_round(seed, 0, 5, 1, 2, "first declaration")
        LitR.__init__.__annotations__["value"] = _Ann[int, _IR(100, 105)]
        VecR.__init__.__annotations__["items"] = _Ann[list[LitR], _LS(3, 4)]
        bad2 = one_round(seed + 1, 100, 105, 3, 4, "after re-declaring the refinements and extracting the grammar again")
    except Exception as ex:  # noqa
        F.add("redeclaration:exception", f"re-declaration scenario raised {type(ex).__name__}: {str(ex)[:100]}", size=1)
        return
    for m in bad[:1]:
        F.add("redeclaration:first-declaration-violated", m, size=1)
    for m in bad2[:1]:
        F.add("redeclaration:stale-refinement-after-re-extraction", m + f" ({len(bad2)} such values)", size=1)


def run(tier: str, seed: int) -> dict:
    thorough = tier == "thorough"
    budget = Budget(420 if thorough else 33)
    F = Findings("C02")
    stats = {"evaluations": 0, "distinct": set()}
    check_handlers(F, stats)
    n_handler_cases = stats["evaluations"]

    fam = H.full_family()
    ex_runs = 4000 if thorough else 300
    seeds = 60 if thorough else 8
    extra_depths = 3 if thorough else 2

    def depths(view, g, rep):
        lo = g.get_min_tree_depth()
        if rep in ("tree-pt", "stack"):
            return [lo]
        if rep == "dsge":
            lo += 1
        return range(lo, lo + extra_depths)

    samples = []
    cells = []
    refined_positions = 0
    for c in explore(fam, H.ALL_REPS, depths, seed, exhaustive_runs=ex_runs, seeds=seeds, n_ops=3, gene_grid=4 if thorough else 3, budget=budget, cell_info=cells):
        stats["evaluations"] += 1
        if c.exc is not None or c.program is None:
            continue  # failures are C01's business
        p = c.program
        try:
            st = structure(p)
            hash(st)
        except Exception:
            st = repr(p)
        k = (c.member, st)
        if k not in stats["distinct"]:
            stats["distinct"].add(k)
            if len(samples) < 8 and len(stats["distinct"]) % 131 == 1:
                samples.append(f"{c.where()} -> {show(p, 80)}")
        errs = refined(p, c.view.start)
        for handler, path, detail in errs:
            fam_key = "stack" if c.rep == "stack" else "create_node"
            hkey = handler.split("(")[0] if not handler.startswith("Dependent") else "Dependent"
            F.add(
                "stack:refinement-not-enforced" if fam_key == "stack" else f"{fam_key}:{hkey}",
                f"{c.where()}: program {show(p, 90)} violates {handler} at {path}: {detail}",
                size=c.size + count_nodes(p),
            )
    redeclaration_scenario(F, stats, seed)
    n_ex = sum(1 for x in cells if x[4])
    rule = (
        f"(a) {len(handler_grid())} handler/parameter combinations (min==max, empty-allowed lists, one-letter alphabets): all draw outcomes of generate "
        f"({n_handler_cases} runs) checked against the documented predicate and the handler's own validate; "
        f"(b) {len(fam)} family grammars x 8 representations x max_depth in [reported minimum, +{extra_depths - 1}]: creation over all draw outcomes up to {ex_runs} runs per cell "
        f"({n_ex}/{len(cells)} cells exhausted), {seeds} seeds x (2 creations + 3 mutate/crossover steps); every refined position (top level, in lists, in unions, under Dependent) "
        f"checked against the documented predicate with the actual sibling values; "
        f"(c) refinements re-declared on used classes (Cls.__init__.__annotations__[...] = ...), grammar extracted again: tree create / mutate and GE / SGE mapping under the new grammar against the NEW refinements"
        + ("; wall-clock budget reached, remaining cells skipped" if budget.tripped else "")
    )
    return result(stats["evaluations"], len(stats["distinct"]), rule, samples, F.violations(), exhaustive=False, handler_runs=n_handler_cases, cells=len(cells), cells_exhausted=n_ex, budget_tripped=budget.tripped)
