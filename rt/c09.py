"""C09 (bounded stand-in): operators and steps never modify their inputs.

Deep snapshots (program, genes, gengy_* node metadata, stored synthesis contexts, cached phenotype, fitness_store
contents) of every input are taken before an operation and compared afterwards - and again after the offspring have
been consumed by further operations (sharing clause).  Covered:
  1. Representation.mutate / crossover / genotype_to_phenotype chains for all five representations;
  2. the custom variation paths of ListSizeBetween / StringSizeBetween (through treebased.mutate and called directly);
  3. every step (mutation, crossover, tournament, lexicase, elitism, novelty, identity) and Sequence / Parallel /
     ExclusiveParallel nestings up to depth 3 - inputs compared after the step and after the offspring went through
     evaluation + mutation + crossover;
  4. 5 generations of GeneticProgramming.search with the default step: all individuals of every earlier generation
     compared each time a new generation is built, and at the end.
Reading of "same cached fitness": filling an ABSENT cache entry (fitness, phenotype) is permitted, changing or dropping
an existing one is not; dSGE genotypes may grow during mapping only.  Individual.metadata is not part of the property's
list and is only counted in `notes`.
"""
from __future__ import annotations

import itertools
import zlib

from rt.common import make_family, result, violation, snapshot
from rt.heap_helpers import (
    Clock,
    NativeRandomSource,
    Timeout,
    watchdog,
    all_grammars,
    extract_grammar,
    individual_changes,
    individual_snapshot,
    make_rep,
    n_nodes,
    short,
    show,
    sstruct,
    value_snapshot,
    value_unchanged,
    HL,
    HLLeaf,
    HLMany,
)

from geneticengine.algorithms.gp.gp import GeneticProgramming, default_generic_programming_step
from geneticengine.algorithms.gp.structure import GeneticStep
from geneticengine.algorithms.gp.operators.combinators import ExclusiveParallelStep, IdentityStep, ParallelStep, SequenceStep
from geneticengine.algorithms.gp.operators.crossover import GenericCrossoverStep
from geneticengine.algorithms.gp.operators.elitism import ElitismStep
from geneticengine.algorithms.gp.operators.mutation import GenericMutationStep
from geneticengine.algorithms.gp.operators.novelty import NoveltyStep
from geneticengine.algorithms.gp.operators.selection import LexicaseSelection, TournamentSelection
from geneticengine.evaluation.budget import SearchBudget
from geneticengine.evaluation.sequential import SequentialEvaluator
from geneticengine.grammar.utils import get_arguments, get_generic_parameter
from geneticengine.problems import MultiObjectiveProblem, SingleObjectiveProblem
from geneticengine.representations.tree import treebased
from geneticengine.representations.tree.initializations import GlobalSynthesisContext
from geneticengine.solutions.individual import Individual

REPS = ["Tree", "GE", "SGE", "dSGE", "Stack"]
REP_CLASS = {
    "Tree": "TreeBasedRepresentation",
    "GE": "GrammaticalEvolutionRepresentation",
    "SGE": "StructuredGrammaticalEvolutionRepresentation",
    "dSGE": "DynamicStructuredGrammaticalEvolutionRepresentation",
    "Stack": "StackBasedGGGPRepresentation",
}


def _fit1(p):
    return float(n_nodes(p) % 5) + (zlib.crc32(repr(sstruct(p)).encode()) % 13) / 13.0


def _fit2(p):
    return [float(n_nodes(p) % 4), float(len(repr(sstruct(p))) % 3)]


def _fit2nan(p):
    """as _fit2, but some programs have an undefined second component (e.g. a division by zero inside the fitness function)"""
    return [float(n_nodes(p) % 4), float("nan") if n_nodes(p) % 3 == 0 else float(len(repr(sstruct(p))) % 3)]


class _Found:
    def __init__(self):
        self.d = {}

    def report(self, key, rank, what, unit):
        if key not in self.d or rank < self.d[key][0]:
            self.d[key] = (rank, what, unit)


# ------------------------------------------------------------------------------------------------ 1. operators
def _operator_chain(kind, gname, gdesc, grammar, run_seed, found, stats):
    src = NativeRandomSource(run_seed)
    rep = make_rep(kind, grammar, src, gene_length=12)
    tracked = []  # (label, object, snapshot)

    def track(label, obj):
        tracked.append([label, obj, value_snapshot(obj)])
        return obj

    def verify(op, strict):
        stats["checks"] += 1
        for rec in tracked:
            label, obj, snap = rec
            now = value_snapshot(obj)
            same = (snap == now) if strict else value_unchanged(snap, now)
            if not same:
                key = f"rt:C09:{REP_CLASS[kind]}.{op.split('(')[0]}-modifies-input"
                what = (
                    f"{kind} on {gname} [{gdesc}], NativeRandomSource({run_seed}): after {op} the earlier genotype '{label}' differs from its snapshot "
                    f"(program now {short(show(sstruct(obj)), 120)})"
                )
                found.report(key, (len(tracked), len(what)), what, f"{REP_CLASS[kind]}.{op.split('(')[0]}")
                rec[2] = now  # report each modification once, keep following the object
            elif not strict:
                rec[2] = now  # permitted dSGE growth: new baseline

    def do_map(label, g):
        try:
            p = rep.genotype_to_phenotype(g)
            stats["programs"].add((kind, gname, sstruct(p)))
        except Timeout:
            raise
        except Exception as ex:
            stats["errors"][f"{kind}.map:{type(ex).__name__}"] = stats["errors"].get(f"{kind}.map:{type(ex).__name__}", 0) + 1
        verify(f"genotype_to_phenotype({label})", strict=False)

    try:
        a = track("a=create", rep.create_genotype(src))
        b = track("b=create", rep.create_genotype(src))
    except Exception as ex:
        stats["errors"][f"{kind}.create:{type(ex).__name__}"] = stats["errors"].get(f"{kind}.create:{type(ex).__name__}", 0) + 1
        return
    do_map("a", a)
    do_map("b", b)
    cur = {"a": a, "b": b}
    plan = [
        ("mutate", "m1", ("a",)),
        ("crossover", ("c1", "c2"), ("a", "b")),
        ("map", None, ("m1",)),
        ("map", None, ("c1",)),
        ("mutate", "m2", ("m1",)),
        ("crossover", ("c3", "c4"), ("m1", "b")),
        ("mutate", "m3", ("c3",)),
        ("map", None, ("c4",)),
        ("crossover", ("c5", "c6"), ("c3", "c1")),
        ("map", None, ("m3",)),
        ("mutate", "m4", ("c5",)),
        ("map", None, ("m4",)),
        ("crossover", ("c7", "c8"), ("m4", "a")),
        ("map", None, ("c7",)),
        ("map", None, ("a",)),
    ]
    for op, outn, args in plan:
        if any(x not in cur for x in args):
            continue
        try:
            if op == "mutate":
                r = rep.mutate(src, cur[args[0]])
                cur[outn] = track(f"{outn}=mutate({args[0]})", r)
                verify(f"mutate({args[0]})", strict=True)
            elif op == "crossover":
                r1, r2 = rep.crossover(src, cur[args[0]], cur[args[1]])
                cur[outn[0]] = track(f"{outn[0]}=crossover({args[0]},{args[1]})[0]", r1)
                cur[outn[1]] = track(f"{outn[1]}=crossover({args[0]},{args[1]})[1]", r2)
                verify(f"crossover({args[0]},{args[1]})", strict=True)
            else:
                do_map(args[0], cur[args[0]])
            stats["ops"] += 1
        except Timeout:
            raise
        except Exception as ex:
            k = f"{kind}.{op}:{type(ex).__name__}"
            stats["errors"][k] = stats["errors"].get(k, 0) + 1
            verify(f"{op}({','.join(args)}) [raised {type(ex).__name__}]", strict=(op != "map"))


# ------------------------------------------------------------------------------------------------ 2. custom variation
def _custom_variation(run_seed, found, stats):
    grammar = extract_grammar([HL, HLLeaf, HLMany], HL)
    src = NativeRandomSource(run_seed)
    rep = make_rep("Tree", grammar, src, max_depth=4)
    gc = GlobalSynthesisContext(src, grammar, rep.decider)
    trees = []
    for _ in range(6):
        try:
            trees.append(rep.create_genotype(src))
        except Exception as ex:
            stats["errors"][f"custom.create:{type(ex).__name__}"] = stats["errors"].get(f"custom.create:{type(ex).__name__}", 0) + 1
    list_t = dict(get_arguments(HLMany))["xs"]
    str_t = dict(get_arguments(HLLeaf))["s"]
    manys = []
    leaves = []

    def walk(n):
        if isinstance(n, HLMany):
            manys.append(n)
            for c in n.xs:
                walk(c)
        elif isinstance(n, HLLeaf):
            leaves.append(n)

    for t in trees:
        walk(t)
    before = [snapshot(t) for t in trees]

    def verify(what_op, unit):
        stats["checks"] += 1
        for i, t in enumerate(trees):
            now = snapshot(t)
            if now != before[i]:
                key = f"rt:C09:{unit}-modifies-input"
                found.report(key, (n_nodes(t),), f"Tree on H-lists, NativeRandomSource({run_seed}): after {what_op} the input tree {short(show(sstruct(t)), 140)} differs from its snapshot", unit)
                before[i] = now

    def attempt(label, unit, fn):
        try:
            fn()
            stats["ops"] += 1
        except Timeout:
            raise
        except Exception as ex:
            k = f"{label}:{type(ex).__name__}"
            stats["errors"][k] = stats["errors"].get(k, 0) + 1
        verify(label, unit)

    lsb = list_t.__metadata__[0]
    ssb = str_t.__metadata__[0]
    for m in manys[:8]:
        attempt("treebased.mutate(list node, Annotated[list, ListSizeBetween])", "ListSizeBetween.mutate", lambda: treebased.mutate(gc, m.xs, list_t, dependent_values={}))
        attempt("ListSizeBetween.mutate(direct)", "ListSizeBetween.mutate", lambda: lsb.mutate(src, grammar, treebased.random_node, get_generic_parameter(list_t), m.xs))
        others = [o for o in manys if o is not m][:3]
        attempt("ListSizeBetween.crossover(direct)", "ListSizeBetween.crossover", lambda: lsb.crossover(src, grammar, others, "xs", HL, m.xs))
    for lf in leaves[:8]:
        attempt("treebased.mutate(str value, Annotated[str, StringSizeBetween])", "StringSizeBetween.mutate", lambda: treebased.mutate(gc, lf.s, str_t, dependent_values={}))
        attempt("StringSizeBetween.mutate(direct)", "StringSizeBetween.mutate", lambda: ssb.mutate(src, grammar, treebased.random_node, 2, str, lf.s))
        others = [o for o in leaves if o is not lf][:3]
        attempt("StringSizeBetween.crossover(direct)", "StringSizeBetween.crossover", lambda: ssb.crossover(src, grammar, others, "s", str, lf.s))
    # the whole-tree operators on this grammar as well
    for t in list(trees)[:4]:
        attempt("TreeBasedRepresentation.mutate", "TreeBasedRepresentation.mutate", lambda: trees.append(rep.mutate(src, t)) or before.append(snapshot(trees[-1])))
    for t1, t2 in zip(trees[:3], trees[1:4]):
        attempt("TreeBasedRepresentation.crossover", "TreeBasedRepresentation.crossover", lambda: rep.crossover(src, t1, t2))


# ------------------------------------------------------------------------------------------------ 3. steps
LEAVES = {
    "Mutation(1)": lambda: GenericMutationStep(1),
    "Mutation(.5)": lambda: GenericMutationStep(0.5),
    "Crossover(1)": lambda: GenericCrossoverStep(1),
    "Crossover(.5)": lambda: GenericCrossoverStep(0.5),
    "Tournament(3)": lambda: TournamentSelection(3),
    "Tournament(2,repl)": lambda: TournamentSelection(2, with_replacement=True),
    "Elitism": lambda: ElitismStep(),
    "Novelty": lambda: NoveltyStep(),
    "Identity": lambda: IdentityStep(),
}
LEAF_CLASS = {
    "Mutation(1)": "GenericMutationStep",
    "Mutation(.5)": "GenericMutationStep",
    "Crossover(1)": "GenericCrossoverStep",
    "Crossover(.5)": "GenericCrossoverStep",
    "Tournament(3)": "TournamentSelection",
    "Tournament(2,repl)": "TournamentSelection",
    "Elitism": "ElitismStep",
    "Novelty": "NoveltyStep",
    "Identity": "IdentityStep",
    "Lexicase": "LexicaseSelection",
    "Lexicase(eps)": "LexicaseSelection",
}
COMBINATORS = {
    "Seq": lambda a, b: SequenceStep(a, b),
    "Par": lambda a, b: ParallelStep([a, b], [1, 2]),
    "XPar": lambda a, b: ExclusiveParallelStep([a, b], [2, 1]),
}
COMB_CLASS = {"Seq": "SequenceStep", "Par": "ParallelStep", "XPar": "ExclusiveParallelStep"}


def _compositions(depth, rnd, leaves, limit):
    """(text, factory, leaf names, outer combinator) for nestings of exactly `depth` (1 = a leaf)."""
    names = list(leaves)
    if depth == 1:
        return [(n, leaves[n], [n], None) for n in names]
    out = []
    if depth == 2:
        for c, a, b in itertools.product(COMBINATORS, names, names):
            out.append((f"{c}({a}, {b})", (lambda c=c, a=a, b=b: COMBINATORS[c](leaves[a](), leaves[b]())), [a, b], c))
    else:
        inner = _compositions(2, rnd, leaves, 10**9)
        for c in COMBINATORS:
            for (t, f, ls, _) in inner:
                for x in names:
                    out.append((f"{c}({t}, {x})", (lambda c=c, f=f, x=x: COMBINATORS[c](f(), leaves[x]())), ls + [x], c))
                    out.append((f"{c}({x}, {t})", (lambda c=c, f=f, x=x: COMBINATORS[c](leaves[x](), f())), [x] + ls, c))
    if len(out) > limit:
        idx = sorted(rnd.random.sample(range(len(out)), limit))
        out = [out[i] for i in idx]
    return out


def _population(rep, src, problem, evaluator, size):
    pop = []
    for i in range(size):
        ind = Individual(rep.create_genotype(src), rep)
        if i % 3 != 2:
            try:
                evaluator.evaluate(problem, [ind])  # evaluated (phenotype + fitness cached)
            except Exception:
                pass
        elif i % 2 == 0:
            try:
                ind.get_phenotype()  # phenotype cached, no fitness
            except Exception:
                pass
        pop.append(ind)
    return pop


def _step_case(kind, gname, gdesc, grammar, text, factory, leaf_names, outer, multi, run_seed, found, stats, leaf_keys, nan=False):
    src = NativeRandomSource(run_seed)
    rep = make_rep(kind, grammar, src, gene_length=12)
    problem = MultiObjectiveProblem([False, True], _fit2nan if nan else _fit2) if multi else SingleObjectiveProblem(_fit1)
    evaluator = SequentialEvaluator()
    try:
        pop = _population(rep, src, problem, evaluator, 7)
    except Exception as ex:
        stats["errors"][f"{kind}.population:{type(ex).__name__}"] = stats["errors"].get(f"{kind}.population:{type(ex).__name__}", 0) + 1
        return
    if multi:  # lexicase requires evaluated candidates; it evaluates them itself through the evaluator
        pass
    before = [individual_snapshot(i) for i in pop]
    ids = [id(i) for i in pop]
    target = [7, 6, 3][run_seed % 3]
    step = factory()
    where = f"{text} on 7 individuals ({kind}, {gname} [{gdesc}], NativeRandomSource({run_seed}), target_size={target})"

    def key_for(suffix):
        if outer is None:
            return f"rt:C09:{LEAF_CLASS[leaf_names[0]]}{suffix}"
        inherited = [k for k in (f"rt:C09:{LEAF_CLASS[n]}{suffix}" for n in leaf_names) if k in leaf_keys]
        if inherited:
            return None  # the responsible leaf step is already reported on its own
        return f"rt:C09:{COMB_CLASS[outer]}-composition{suffix}"

    def verify(stage, suffix):
        stats["checks"] += 1
        meta_changed = 0
        for i, ind in enumerate(pop):
            now = individual_snapshot(ind)
            ch = individual_changes(before[i], now)
            if before[i]["metadata"] != now["metadata"]:
                meta_changed += 1
            if ch:
                key = key_for(suffix)
                if key:
                    what = f"{where}: {stage}, input individual #{i} changed: {'; '.join(ch)}"
                    found.report(key, (len(leaf_names), len(what)), what, text.split("(")[0])
                    if outer is None:
                        leaf_keys.add(key)
            before[i] = now
        if [id(i) for i in pop] != ids:
            key = key_for("-reorders-input-population")
            if key:
                found.report(key, (len(leaf_names),), f"{where}: {stage}, the input population list was reordered / resized", text.split("(")[0])
        if meta_changed:
            stats["metadata_changes"] += meta_changed

    out = []
    try:
        for ind in step.apply(problem, evaluator, rep, src, pop, target, 1):
            out.append(ind)
        stats["ops"] += 1
    except Timeout:
        raise
    except Exception as ex:
        k = f"step {text.split('(')[0]}:{type(ex).__name__}"
        stats["errors"][k] = stats["errors"].get(k, 0) + 1
    verify("after the step was consumed", "-modifies-input")
    # consume the offspring: evaluation, then mutation and crossover of the offspring (sharing clause)
    try:
        evaluator.evaluate(problem, out)
        nxt = list(GenericMutationStep(1).apply(problem, evaluator, rep, src, out, len(out), 2))
        evaluator.evaluate(problem, nxt)
        if len(out) >= 2:
            nxt2 = list(GenericCrossoverStep(1).apply(problem, evaluator, rep, src, out, len(out) - len(out) % 2, 2))
            evaluator.evaluate(problem, nxt2)
    except Timeout:
        raise
    except Exception as ex:
        k = f"consume:{type(ex).__name__}"
        stats["errors"][k] = stats["errors"].get(k, 0) + 1
    verify("after its offspring were evaluated, mutated and crossed over", "-offspring-alias-mutated-later")
    for o in out:
        try:
            stats["programs"].add((kind, gname, sstruct(o.get_phenotype())))
        except Exception:
            pass


# ------------------------------------------------------------------------------------------------ 4. generations
class _Generations(SearchBudget):
    def __init__(self, n):
        self.n = n
        self.calls = 0

    def is_done(self, tracker):
        self.calls += 1
        return self.calls > self.n


class _Recorder(GeneticStep):
    """Delegates to the default step; at every entry re-checks all individuals of all earlier generations."""

    def __init__(self, inner, on_change, stats):
        self.inner = inner
        self.history = []
        self.on_change = on_change
        self.stats = stats

    def check(self, stage):
        self.stats["checks"] += 1
        for gen, inds, snaps in self.history:
            for i, ind in enumerate(inds):
                now = individual_snapshot(ind)
                ch = individual_changes(snaps[i], now)
                if snaps[i]["metadata"] != now["metadata"]:
                    self.stats["metadata_changes"] += 1
                if ch:
                    self.on_change(gen, i, stage, ch)
                snaps[i] = now

    def iterate(self, problem, evaluator, representation, random, population, target_size, generation):
        self.check(f"when generation {generation} is about to be built")
        inds = list(population)
        self.history.append((generation - 1, inds, [individual_snapshot(i) for i in inds]))
        yield from self.inner.apply(problem, evaluator, representation, random, population, target_size, generation)


def _generations(kind, gname, gdesc, grammar, run_seed, found, stats, n_gen=5):
    src = NativeRandomSource(run_seed)
    rep = make_rep(kind, grammar, src, gene_length=12)
    problem = SingleObjectiveProblem(_fit1)
    where = f"GeneticProgramming(default step, population 10, {n_gen} generations) x {kind} on {gname} [{gdesc}], NativeRandomSource({run_seed})"

    def on_change(gen, i, stage, ch):
        what = f"{where}: individual #{i} of generation {gen} changed {stage}: {'; '.join(ch)}"
        found.report("rt:C09:GeneticProgramming-default-step-modifies-earlier-generation", (gen, len(what)), what, "GeneticProgramming.search")

    rec = _Recorder(default_generic_programming_step(), on_change, stats)
    gp = GeneticProgramming(problem, _Generations(n_gen), rep, random=src, population_size=10, step=rec)
    try:
        best = gp.search()
        stats["ops"] += 1
        stats["programs"].add((kind, gname, sstruct(best.get_phenotype())))
    except Timeout:
        raise
    except Exception as ex:
        k = f"GP x {kind}:{type(ex).__name__}"
        stats["errors"][k] = stats["errors"].get(k, 0) + 1
    rec.check("after the search finished")
    stats["generations"] += len(rec.history)
    for _, inds, _ in rec.history:
        for ind in inds:
            try:
                stats["programs"].add((kind, gname, sstruct(ind.get_phenotype())))
            except Exception:
                pass


# ------------------------------------------------------------------------------------------------ monitor self-test
def _canary(family):
    """The snapshots must notice every kind of write the property forbids (done on private objects)."""
    seen = {}
    for kind in REPS:
        name, classes, start, _ = family[1] if kind == "Stack" else family[0]  # the stack mapper cannot build F1 programs
        grammar = extract_grammar(classes, start)
        src = NativeRandomSource(5)
        rep = make_rep(kind, grammar, src, max_depth=4, gene_length=12)
        problem = SingleObjectiveProblem(_fit1)
        ind = None
        for _ in range(30):
            cand = Individual(rep.create_genotype(src), rep)
            try:
                if n_nodes(cand.get_phenotype()) >= (3 if kind == "Tree" else 1):
                    ind = cand
                    break
            except Exception:
                continue
        if ind is None:
            seen[kind] = "no usable individual"
            continue
        SequentialEvaluator().evaluate(problem, [ind])
        checks = {}
        base = individual_snapshot(ind)
        # 1. cached fitness changed
        old = ind.fitness_store[problem]
        ind.fitness_store[problem] = type(old)(old.maximizing_aggregate + 1, list(old.fitness_components))
        checks["fitness-changed"] = bool(individual_changes(base, individual_snapshot(ind)))
        ind.fitness_store[problem] = old
        # 2. cached fitness dropped
        del ind.fitness_store[problem]
        checks["fitness-dropped"] = bool(individual_changes(base, individual_snapshot(ind)))
        ind.fitness_store[problem] = old
        assert not individual_changes(base, individual_snapshot(ind))
        # 3. genes / deep program field / node metadata
        g = ind.genotype
        if kind == "Tree":
            node = g
            while hasattr(node, "l"):
                node = node.l
            node.v += 1
            checks["deep-field"] = bool(individual_changes(base, individual_snapshot(ind)))
            node.v -= 1
            g.gengy_nodes += 1
            checks["node-metadata"] = bool(individual_changes(base, individual_snapshot(ind)))
            g.gengy_nodes -= 1
            g.gengy_synthesis_context.depth += 1
            checks["stored-context"] = bool(individual_changes(base, individual_snapshot(ind)))
            g.gengy_synthesis_context.depth -= 1
        else:
            dna = g.dna
            lst = dna if isinstance(dna, list) else next(v for v in dna.values() if v)
            lst[0] += 1
            checks["gene-changed"] = bool(individual_changes(base, individual_snapshot(ind)))
            lst[0] -= 1
            lst.append(7)
            grown = bool(individual_changes(base, individual_snapshot(ind)))
            checks["gene-appended"] = (not grown) if kind == "dSGE" else grown  # growth is the one permitted dSGE effect
            lst.pop()
            if kind == "dSGE":
                x = lst.pop()
                checks["gene-removed"] = bool(individual_changes(base, individual_snapshot(ind)))
                lst.append(x)
        assert not individual_changes(base, individual_snapshot(ind))
        seen[kind] = "ok" if all(checks.values()) else {k: v for k, v in checks.items() if not v}
    return seen


# ------------------------------------------------------------------------------------------------
def run(tier: str, seed: int) -> dict:
    quick = tier != "thorough"
    clock = Clock(27 if quick else 400)
    family = make_family()
    grammars = [g for g in all_grammars(family) if g[0] != "H-infeasible"]  # grammar mutation is C10's subject
    found = _Found()
    stats = {"checks": 0, "ops": 0, "errors": {}, "programs": set(), "metadata_changes": 0, "generations": 0}
    rnd = NativeRandomSource(seed + 17)
    parts = {}

    def guarded(label, fn, *args):
        try:
            with watchdog(3 if quick else 10):
                fn(*args)
        except Timeout:
            stats["errors"][f"skipped at the watchdog: {label}"] = stats["errors"].get(f"skipped at the watchdog: {label}", 0) + 1
        except Exception as ex:  # a crash of one case must not stop the exploration
            stats["errors"][f"case crashed: {label}: {type(ex).__name__}"] = stats["errors"].get(f"case crashed: {label}: {type(ex).__name__}", 0) + 1

    try:
        canary = _canary(family)
    except Exception as ex:  # the self-test must never take the driver down
        canary = {"error": f"{type(ex).__name__}: {ex}"}

    # 1. operator chains
    n1 = 0
    for s in range(5 if quick else 30):
        for (gname, classes, start, refined, gdesc) in grammars:
            for kind in REPS:
                if clock.used() > clock.limit * 0.25:
                    break
                guarded(f"chain {kind}", _operator_chain, kind, gname, gdesc, extract_grammar(classes, start), seed * 1009 + s, found, stats)
                n1 += 1
    parts["operator_chains"] = n1

    # 2. custom variation paths
    n2 = 0
    for s in range(6 if quick else 40):
        guarded("custom variation", _custom_variation, seed * 1009 + s, found, stats)
        n2 += 1
    parts["custom_variation_rounds"] = n2

    # 3. steps and compositions
    leaf_keys = set()
    step_grammars = [g for g in grammars if g[0] in ("F1-arith", "F2-list", "F5-mutual", "H-plain", "H-lists", "F6-union-depths")]
    n3 = 0
    lex = {"Lexicase": lambda: LexicaseSelection(), "Lexicase(eps)": lambda: LexicaseSelection(epsilon=True)}
    for depth, limit in ((1, 10**9), (2, 120 if quick else 243), (3, 150 if quick else 1200)):
        comps = _compositions(depth, rnd, LEAVES, limit)
        comps_mo = _compositions(depth, rnd, {**lex, "Mutation(1)": LEAVES["Mutation(1)"], "Elitism": LEAVES["Elitism"]}, max(4, limit // 8)) if depth <= 2 else []
        for ci, (comp, multi) in enumerate([(c, False) for c in comps] + [(c, True) for c in comps_mo]):
            text, factory, leaf_names, outer = comp
            if clock.used() > clock.limit * 0.8:
                break
            reps_here = REPS if depth == 1 else [REPS[(ci + k) % 5] for k in range(1 if quick else 2)]
            for kind in reps_here:
                gsel = step_grammars if (depth == 1 and not quick) else [step_grammars[(ci + REPS.index(kind)) % len(step_grammars)]]
                for (gname, classes, start, refined, gdesc) in gsel:
                    guarded(f"step {kind}", _step_case, kind, gname, gdesc, extract_grammar(classes, start), text, factory, leaf_names, outer, multi, seed * 1009 + ci, found, stats, leaf_keys)
                    n3 += 1
                    if multi:
                        # the same case with fitness vectors that contain undefined (NaN) components
                        guarded(f"step {kind} (NaN components)", _step_case, kind, gname, gdesc, extract_grammar(classes, start), text, factory, leaf_names, outer, multi, seed * 1009 + ci, found, stats, leaf_keys, True)
                        n3 += 1
    parts["step_cases"] = n3

    # 4. generations
    n4 = 0
    for s in range(2 if quick else 10):
        for (gname, classes, start, refined, gdesc) in step_grammars:
            for kind in REPS:
                if clock.over():
                    break
                guarded(f"generations {kind}", _generations, kind, gname, gdesc, extract_grammar(classes, start), seed * 1009 + s, found, stats)
                n4 += 1
    parts["gp_runs"] = n4

    notes = []
    if stats["metadata_changes"]:
        notes.append(
            f"{stats['metadata_changes']} observations of Individual.metadata changing on an input individual (Population.__init__ rewrites metadata['generation'] of "
            "individuals carried over by elitism / selection); not in the property's list (program, genes, node metadata, cached fitness), not flagged"
        )
    samples = [
        {"part": "operator chains", "what": "15 operations per chain (mutate / crossover / map of parents, children, grandchildren); every earlier genotype re-snapshotted after each operation", "chains": n1},
        {"part": "custom variation", "rounds": n2},
        {"part": "steps", "cases": n3, "leaf_steps": sorted(set(LEAF_CLASS.values())), "combinators": sorted(COMB_CLASS.values())},
        {"part": "generations", "gp_runs": n4, "generations_recorded": stats["generations"]},
    ]
    violations = [violation(k, v[1], unit=v[2]) for k, v in sorted(found.d.items())]
    rule = (
        "sampled: (1) 15-operation mutate/crossover/map chains, 5 representations x 11 grammars x seeds, all earlier genotypes compared after every operation; "
        "(2) ListSizeBetween/StringSizeBetween mutate+crossover through treebased.mutate and directly, whole input trees compared; "
        "(3) 11 leaf steps and Sequence/Parallel/ExclusiveParallel nestings of depth 2 and 3 (sampled) on 7-individual populations mixing evaluated, phenotype-only and "
        "fresh individuals, single- and two-objective problems (the latter also with NaN components); inputs compared after the step and after the offspring were evaluated, mutated and crossed over; "
        "(4) GeneticProgramming.search with the default step, population 10, 5 generations, every earlier generation compared whenever a new one is built. "
        "Deep snapshots: fields, genes, gengy_* metadata, stored contexts, cached phenotype, fitness_store."
    )
    return result(
        stats["checks"],
        len(stats["programs"]),
        rule,
        samples,
        violations,
        exhaustive=False,
        operations=stats["ops"],
        parts=parts,
        library_exceptions=dict(sorted(stats["errors"].items())),
        notes=notes,
        monitor_self_test=canary,
        seconds=round(clock.used(), 1),
    )
