"""C16 bounded stand-in: ElitismStep returns exactly k individuals and they are the best ones; in GP runs whose
(top-level) ParallelStep reserves an elitism slot the best fitness of the population never gets worse.
Never counted as proof."""
from __future__ import annotations

import itertools
import random as pyrandom

from rt.common import result, violation
from rt.search_helpers import (
    IntRep, TableFitness, Recorder, Watchdog, Deadline, CountingBudget, single_tracker, as_form, build, spec_name,
)

from geneticengine.problems import SingleObjectiveProblem
from geneticengine.random.sources import NativeRandomSource
from geneticengine.evaluation.budget import EvaluationBudget
from geneticengine.solutions.individual import Individual
from geneticengine.algorithms.gp.gp import GeneticProgramming
from geneticengine.algorithms.gp.operators.elitism import ElitismStep


def better(a, b, minimize):
    """a strictly better than b in the declared direction (raw fitness values)."""
    return a < b if minimize else a > b


class Findings:
    def __init__(self):
        self.by_key = {}

    def add(self, key, what, size):
        cur = self.by_key.get(key)
        if cur is None or size < cur[0]:
            self.by_key[key] = (size, what)

    def violations(self):
        return [violation(k, w, unit=k.split(":")[-1]) for k, (s, w) in sorted(self.by_key.items())]


def elitism_case(find, values, dup, minimize, k, form, pre_evaluated, other_problem_first=False):
    """values: fitness per individual; dup: index of an individual that is presented a second time (or None)."""
    rep = IntRep()
    ff = TableFitness(list(values) + [0])
    problem = SingleObjectiveProblem(ff, minimize)
    tracker = single_tracker(problem)
    inds = [Individual(rep.create_genotype(None), rep) for _ in values]
    if other_problem_first:
        # a warm start: the individuals already carry a fitness for another, still alive problem that ranks them the other way
        elitism_case.keep_alive = other = SingleObjectiveProblem(TableFitness([-(v if v == v and abs(v) != float("inf") else 0) for v in values] + [0]), minimize)
        single_tracker(other).evaluator.evaluate(other, inds)
    pop = list(inds) + ([inds[dup]] if dup is not None else [])
    if pre_evaluated:
        tracker.evaluator.evaluate(problem, inds)
    vals = {id(i): v for i, v in zip(inds, values)}
    desc = f"values={[vals[id(i)] for i in pop]}" + (f" (last is the same object as #{dup})" if dup is not None else "") + f", minimize={minimize}, k={k}, {form}"
    try:
        out = list(ElitismStep().apply(problem, tracker.evaluator, rep, NativeRandomSource(0), as_form(pop, form, tracker), k, 1))
    except Exception as ex:  # noqa
        find.add("rt:C16:ElitismStep.exception", f"ElitismStep on {desc} raised {type(ex).__name__}: {str(ex)[:80]}", (len(pop), k))
        return False
    size = (len(pop), k, sum(v for v in values if v == v and abs(v) != float("inf")))
    if len(out) != k:
        find.add("rt:C16:ElitismStep.count", f"ElitismStep on {desc} returned {len(out)} individuals", size)
        return False
    # members only, no more copies than presented
    remaining = list(pop)
    for o in out:
        for j, r in enumerate(remaining):
            if r is o:
                del remaining[j]
                break
        else:
            find.add("rt:C16:ElitismStep.members", f"ElitismStep on {desc} returned an individual that was not (or not that often) in the population", size)
            return False
    worst_in = None
    for o in out:
        if worst_in is None or better(worst_in, vals[id(o)], minimize):
            worst_in = vals[id(o)]
    for e in remaining:
        if better(vals[id(e)], worst_in, minimize):
            find.add(
                "rt:C16:ElitismStep.top_k",
                f"ElitismStep on {desc} kept {[vals[id(o)] for o in out]} and dropped {vals[id(e)]}, which is strictly better than the kept {worst_in}",
                size,
            )
            return False
    # recorded fitness must be the table value (guards the oracle against a mis-evaluated stub)
    for o in out:
        if o.get_fitness(problem).fitness_components != [float(vals[id(o)])]:
            find.add("rt:C16:ElitismStep.fitness", f"ElitismStep on {desc}: kept individual has fitness {o.get_fitness(problem)} instead of {vals[id(o)]}", size)
            return False
    return True


def parallel_slot_case(find, values, minimize, target, weights):
    """One generation step: ParallelStep([ElitismStep, NoveltyStep], weights) asked for `target` individuals out of a LARGER
    population; whenever the elitism slice has positive size the output must contain an individual at least as good as every
    member of the input."""
    from geneticengine.algorithms.gp.operators.combinators import ParallelStep
    from geneticengine.algorithms.gp.operators.novelty import NoveltyStep

    rep = IntRep()
    ff = TableFitness(list(values) + [0] * 40)
    problem = SingleObjectiveProblem(ff, minimize)
    tracker = single_tracker(problem)
    inds = [Individual(rep.create_genotype(None), rep) for _ in values]
    step = ParallelStep([ElitismStep(), NoveltyStep()], weights=list(weights))
    desc = f"ParallelStep([ElitismStep, NoveltyStep], weights={list(weights)}).apply on values={list(values)}, minimize={minimize}, target_size={target}"
    try:
        ranges = step.compute_ranges(inds, target)
        out = list(step.apply(problem, tracker.evaluator, rep, NativeRandomSource(0), list(inds), target, 1))
        tracker.evaluator.evaluate(problem, out)
    except Exception as ex:  # noqa
        find.add("rt:C16:ParallelStep.exception", f"{desc} raised {type(ex).__name__}: {str(ex)[:80]}", (len(values), target))
        return False
    if ranges[0][1] - ranges[0][0] <= 0:
        return True
    best_in = min(values) if minimize else max(values)
    got = [ff.value(o.get_phenotype()) for o in out]
    best_out = min(got) if minimize else max(got)
    if better(best_in, best_out, minimize):
        find.add("rt:C16:ParallelStep.elitism_slot_lost_the_best", f"{desc}: the elitism slice has {ranges[0][1] - ranges[0][0]} slot(s) but the best of the new population is {best_out} while {best_in} was in the old one", (len(values), target))
        return False
    return True


def gp_case(find, label, spec, pop, minimize, rng, seed):
    rep = IntRep(cap=50000)
    table = [rng.randint(0, 9) for _ in range(101)]
    ff = TableFitness(table, cap=50000)
    problem = SingleObjectiveProblem(ff, minimize)
    rec = Recorder()
    tracker = single_tracker(problem, [rec])
    budget = CountingBudget(EvaluationBudget(10**9), cap=10)  # 10 generations, then the watchdog ends the run
    step, node = build(spec, probe=True)
    gp = GeneticProgramming(problem, budget, rep, NativeRandomSource(seed), tracker, population_size=pop, step=step)
    try:
        gp.search()
    except Watchdog:
        pass
    except Exception as ex:  # noqa
        find.add("rt:C16:GeneticProgramming.exception", f"GP run {label} pop={pop} raised {type(ex).__name__}: {str(ex)[:80]}", (pop,))
        return 0
    gens = {}
    for ind, is_best, gen, best in rec.log:
        gens.setdefault(gen, []).append(ff.value(ind.get_phenotype()))
    # generations in which the top-level ParallelStep called its ElitismStep child for >= 1 individuals
    reserved = set()
    for ch in node.children:
        if ch.cls == "ElitismStep":
            for c in ch.calls:
                if c["k"] >= 1:
                    reserved.add(c["generation"])
    checked = 0
    for g in sorted(gens):
        if g == 0 or g not in reserved or g - 1 not in gens:
            continue
        pick = min if minimize else max
        b0, b1 = pick(gens[g - 1]), pick(gens[g])
        checked += 1
        if better(b0, b1, minimize):
            find.add(
                "rt:C16:GeneticProgramming.best_fitness_regressed",
                f"GP run, step {label}, population_size={pop}, minimize={minimize}: best fitness {b0} in generation {g - 1} but {b1} in generation {g} (elitism slot reserved); generation {g - 1} values {gens[g - 1]}, generation {g} values {gens[g]}",
                (pop, g),
            )
            break
    return checked


def run(tier: str, seed: int) -> dict:
    quick = tier != "thorough"
    dl = Deadline(24 if quick else 270)
    rng = pyrandom.Random(seed)
    find = Findings()
    evaluations = nontrivial = 0
    samples = []
    exhaustive = True

    # 1. ElitismStep on all populations over {0,1,2}^n
    max_n = 4 if quick else 5
    for n in range(1, max_n + 1):
        for values in itertools.product((0, 1, 2), repeat=n):
            for minimize in (False, True):
                for dup in [None] + ([0, n - 1] if n >= 2 else [0]):
                    size = n + (dup is not None)
                    for k in range(1, size + 1):
                        for form in ("list", "population"):
                            if dl.over():
                                exhaustive = False
                                break
                            pre = (sum(values) + k) % 2 == 0
                            if form == "population":
                                pre = True
                            ok = elitism_case(find, values, dup, minimize, k, form, pre)
                            evaluations += 1
                            if len(set(values)) > 1 and k < size:
                                nontrivial += 1
                            if len(samples) < 4 and evaluations % 1501 == 7:
                                samples.append(f"ElitismStep values={values} dup={dup} minimize={minimize} k={k} {form}: {'ok' if ok else 'VIOLATION'}")
    # 1b. boundary fitness values: the best / worst representable values (a fitness of 1/error or -log(error) at zero
    # error), negative and fractional values, mixed with ordinary ones
    inf = float("inf")
    for n in range(1, 4):
        for values in itertools.product((-inf, -1.5, 0, 2, inf), repeat=n):
            if not any(v in (inf, -inf) for v in values):
                continue
            for minimize in (False, True):
                for k in range(1, n + 1):
                    if dl.over():
                        exhaustive = False
                        break
                    ok = elitism_case(find, values, None, minimize, k, "list", (n + k) % 2 == 0)
                    evaluations += 1
                    if len(set(values)) > 1 and k < n:
                        nontrivial += 1
    # 1b'. fitness values that differ only beyond single precision, and individuals evaluated under another problem before
    for values in ((16777216.0, 16777217.0, 3.0), (1e9 + 3, 1e9 + 12, 5.0), (1.0, 1.0 + 1e-9, 0.5), (5.0, 1e9 + 12, 1e9 + 3)):
        for perm in itertools.permutations(values):
            for minimize in (False, True):
                for k in (1, 2):
                    ok = elitism_case(find, perm, None, minimize, k, "list", k == 1)
                    evaluations += 1
                    nontrivial += 1
    for values in ((0, 1, 2), (2, 0, 1, 1), (3, 1, 2, 0)):
        for minimize in (False, True):
            for k in range(1, len(values)):
                ok = elitism_case(find, values, None, minimize, k, "list", False, other_problem_first=True)
                evaluations += 1
                nontrivial += 1
    # 1c. one generation step with a reserved elitism slot, asked for fewer individuals than the population holds
    for values in ((0, 1, 2, 3, 9), (9, 0, 1, 2), (1, 1, 5, 1, 1, 1), (3, 2, 7)):
        for perm in itertools.islice(itertools.permutations(values), 12):
            for minimize in (False, True):
                for target in range(1, len(values)):
                    for weights in ((1, 1), (1, 3), (3, 1)):
                        ok = parallel_slot_case(find, perm, minimize, target, weights)
                        evaluations += 1
                        nontrivial += 1
    n_elitism = evaluations

    # 2. GP runs, 10 generations, best fitness per generation
    comps = [
        ("P(elitism|novelty) w=[1,1]", ("par", [("elitism",), ("novelty",)], (1, 1))),
        ("P(elitism|novelty) w=[1,9]", ("par", [("elitism",), ("novelty",)], (1, 9))),
        ("P(novelty|elitism) w=[3,1]", ("par", [("novelty",), ("elitism",)], (3, 1))),
        ("P(elitism|S(tournament(2);mutation(1))) w=[1,4]", ("par", [("elitism",), ("seq", [("tournament", 2, False), ("mutation", 1.0)])], (1, 4))),
        ("default step P(elitism|novelty|S(tournament(5);crossover(.01);mutation(.9))) w=[5,5,90]", ("par", [("elitism",), ("novelty",), ("seq", [("tournament", 5, False), ("crossover", 0.01), ("mutation", 0.9)])], (5, 5, 90))),
        ("P(elitism|novelty|S(tournament(5);X(mutation|crossover))) w=[1,1,6]", ("par", [("elitism",), ("novelty",), ("seq", [("tournament", 5, False), ("xpar", [("mutation", 0.5), ("crossover", 0.9)], (1, 1))])], (1, 1, 6))),
        ("P(elitism|S(tournament(3,replacement);crossover(1))) w=[2,3]", ("par", [("elitism",), ("seq", [("tournament", 3, True), ("crossover", 1.0)])], (2, 3))),
    ]
    pops = list(range(2, 13)) + [20, 30]
    runs = 0
    gens_checked = 0
    reps = 1 if quick else 6
    for r in range(reps):
        for label, spec in comps:
            for pop in pops:
                for minimize in (False, True):
                    if dl.over():
                        exhaustive = False
                        break
                    c = gp_case(find, label, spec, pop, minimize, rng, seed + r)
                    runs += 1
                    gens_checked += c
                    evaluations += 1
                    nontrivial += c > 0
                    if len(samples) < 8 and c > 0 and runs % 37 == 1:
                        samples.append(f"GP {label} pop={pop} minimize={minimize}: {c} generation transitions with a reserved elitism slot checked")
    rule = (
        f"ElitismStep: all populations over {{0,1,2}}^n, n 1..{max_n}, optionally with one individual presented twice, and all populations over {{-inf,-1.5,0,2,+inf}}^n, n 1..3, that contain an infinite value, values that differ only beyond float32 precision, individuals that already carry a fitness for another problem, both directions, k 1..|pop|; one generation step ParallelStep([Elitism, Novelty]) asked for fewer individuals than the population holds (4 value sets x 12 orders x 3 weightings x every target), "
        "as list and as Population (pre-evaluated or not): exactly k members (multiset), no excluded individual strictly better than an included one "
        "(raw table values compared in the declared direction).  GP: 7 step compositions with a top-level ParallelStep containing an ElitismStep x "
        "population_size 2..12, 20, 30 x both directions x 10 generations on a random table landscape; for every generation in which the ElitismStep "
        "was asked for >= 1 individuals the best fitness present is not worse than in the previous generation"
    )
    return result(evaluations, nontrivial, rule, samples, find.violations(), exhaustive=False, elitism_cases=n_elitism, elitism_exhaustive=exhaustive, gp_runs=runs, generation_transitions_checked=gens_checked)
