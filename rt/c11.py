"""C11 bounded stand-in: per-node size / depth metadata equals an independent traversal.

Oracle: rt.structure_helpers.meta_oracle -- node count (every grammar node, lists and tuples transparent),
distance in edges to the deepest terminal (base values and field-less nodes are terminals), weighted size (sum of
the distances of all nodes of the subtree), type index (exactly the sub-nodes of each production type, the node
itself included).  A node that has fields is at distance >= 1: a field holding an empty list counts one edge
(a production with fields is not a terminal, even when its lists happen to be empty).
"""
from __future__ import annotations

import itertools

from rt.common import result, structure, count_nodes
from rt import structure_helpers as H
from rt.structure_helpers import Findings, Budget, explore, meta_oracle, all_nodes, show

REPS = ("tree-grow", "tree-full", "tree-pi", "tree-pt", "ge", "sge", "dsge", "stack")
ATTRS = ("gengy_nodes", "gengy_distance_to_term", "gengy_weighted_nodes", "gengy_types_this_way")
DEVIATIONS = (
    ("fieldless-node-counts-zero", {"leaf_zero": True}),
    ("tuple-elements-ignored", {"tuples_ignored": True}),
    ("list-elements-ignored", {"lists_ignored": True}),
    ("list-counted-as-node", {"lists_as_nodes": True}),
)


def observed(n):
    idx = {}
    for k, v in dict(n.gengy_types_this_way).items():
        if isinstance(k, type) and H.dataclasses.is_dataclass(k):
            ids = sorted(id(x) for x in v)
            if ids:
                idx[k] = ids
    return n.gengy_nodes, n.gengy_distance_to_term, n.gengy_weighted_nodes, idx


def norm(o):
    return o[0], o[1], o[2], {k: sorted(v) for k, v in o[3].items() if v}


def explain(n, obs):
    """[] if the labels equal the oracle; else the names of the deviations that reproduce them (or ['other'])."""
    for e in (1,):
        if norm(meta_oracle(n, empty_list_dist=e)) == obs:
            return []
    for r in (1, 2, 3, 4):
        for combo in itertools.combinations(DEVIATIONS, r):
            kw = {}
            for _, k in combo:
                kw.update(k)
            for e in (1,):
                if norm(meta_oracle(n, empty_list_dist=e, **kw)) == obs:
                    return [name for name, _ in combo]
    return ["other"]


def check_nodes(F, p, where, fam_key, size):
    """every node of p against the independent traversal (same rule as the main loop)"""
    n = 0
    for node, below_list in all_nodes(p):
        n += 1
        if any(not hasattr(node, a) for a in ATTRS):
            continue  # reported by the main loop under :no-metadata
        try:
            obs = observed(node)
        except Exception:
            continue
        why = explain(node, obs)
        if not why:
            continue
        exp = norm(meta_oracle(node))
        diffs = [f"{label}={o} (traversal: {e})" for label, o, e in zip(("gengy_nodes", "gengy_distance_to_term", "gengy_weighted_nodes"), obs[:3], exp[:3]) if o != e]
        if obs[3] != exp[3]:
            diffs.append("gengy_types_this_way=" + str({k.__name__: len(v) for k, v in obs[3].items()}) + " (traversal: " + str({k.__name__: len(v) for k, v in exp[3].items()}) + ")")
        for w in why:
            F.add(f"{fam_key}:{w}", f"{where}: node {show(node, 60)}: " + "; ".join(diffs), size=size + count_nodes(node) * 10)
    return n


def parents_after_crossover(F, fam, seed, quick):
    """Tree crossover of a program with itself, with a structurally equal duplicate and with an unrelated one: afterwards the
    metadata of the PARENTS (programs the library created, still in the population) must still equal the traversal -- a
    crossover that edits the other parent's type index in place leaves a stale index behind."""
    from geneticengine.grammar.grammar import extract_grammar
    from geneticengine.random.sources import NativeRandomSource
    from geneticengine.representations.tree.initializations import MaxDepthDecider
    from geneticengine.representations.tree.treebased import TreeBasedRepresentation

    n = 0
    for name, classes, start, _desc in fam:
        try:
            g = extract_grammar(list(classes), start)
            lo = g.get_min_tree_depth()
            if lo >= 1000000:
                continue
        except Exception:
            continue
        for sd in range(seed, seed + (3 if quick else 12)):
            try:
                r = NativeRandomSource(sd)
                rep = TreeBasedRepresentation(g, MaxDepthDecider(r, g, lo + 2))
                a = rep.create_genotype(NativeRandomSource(sd))
                twin = TreeBasedRepresentation(g, MaxDepthDecider(NativeRandomSource(sd), g, lo + 2)).create_genotype(NativeRandomSource(sd))
                other = rep.create_genotype(r)
                for label, x, y in (("with itself", a, a), ("with a structurally equal duplicate", a, twin), ("with another program", a, other)):
                    kids = rep.crossover(r, x, y)
                    for who, prog in (("first parent", x), ("second parent", y), ("first child", kids[0]), ("second child", kids[1])):
                        n += check_nodes(F, prog, f"{name}, tree crossover {label} (seed {sd}), {who} afterwards", "create_node", 50)
            except Exception:
                continue
    return n


def run(tier: str, seed: int) -> dict:
    thorough = tier == "thorough"
    budget = Budget(430 if thorough else 33)
    F = Findings("C11")
    fam = H.full_family()
    ex_runs = 2500 if thorough else 200
    seeds = 40 if thorough else 6
    extra_depths = 3 if thorough else 2

    def depths(view, g, rep):
        lo = g.get_min_tree_depth()
        if rep in ("tree-pt", "stack"):
            return [lo]
        return range(lo, lo + extra_depths)

    evaluations = 0
    nodes_checked = 0
    distinct = set()
    samples = []
    cells = []
    for c in explore(fam, REPS, depths, seed, exhaustive_runs=ex_runs, seeds=seeds, n_ops=3, gene_grid=3, budget=budget, cell_info=cells):
        evaluations += 1
        if c.exc is not None or c.program is None:
            continue
        p = c.program
        try:
            st = structure(p)
            hash(st)
        except Exception:
            st = repr(p)
        first = (c.member, st, c.phase) not in distinct
        distinct.add((c.member, st, c.phase))
        if not first and c.phase == "create":
            continue  # labels depend only on the structure for freshly created programs
        if len(samples) < 8 and len(distinct) % 173 == 1:
            samples.append(f"{c.where()} -> {show(p, 80)}")
        fam_key = "stack" if c.rep == "stack" else "create_node"
        for n, below_list in all_nodes(p):
            nodes_checked += 1
            missing = [a for a in ATTRS if not hasattr(n, a)]
            if missing:
                F.add(
                    f"{fam_key}:no-metadata",
                    f"{c.where()}: node {show(n, 50)} of program {show(p, 70)} has no {', '.join(missing)}",
                    size=c.size + count_nodes(p),
                )
                continue
            try:
                obs = observed(n)
            except Exception as ex:  # noqa
                F.add(f"{fam_key}:unreadable-metadata", f"{c.where()}: node {show(n, 50)}: {H.exc_text(ex)}", size=c.size)
                continue
            why = explain(n, obs)
            if not why:
                continue
            exp = norm(meta_oracle(n))
            diffs = []
            for label, o, e in zip(("gengy_nodes", "gengy_distance_to_term", "gengy_weighted_nodes"), obs[:3], exp[:3]):
                if o != e:
                    diffs.append(f"{label}={o} (traversal: {e})")
            if obs[3] != exp[3]:
                diffs.append(
                    "gengy_types_this_way="
                    + str({k.__name__: len(v) for k, v in obs[3].items()})
                    + " (traversal: "
                    + str({k.__name__: len(v) for k, v in exp[3].items()})
                    + ")"
                )
            for w in why:
                F.add(
                    f"{fam_key}:{w}",
                    f"{c.where()}: node {show(n, 60)}{' (below a list)' if below_list else ''}: " + "; ".join(diffs),
                    size=c.size + count_nodes(n) * 10,
                )
    nodes_checked += parents_after_crossover(F, fam, seed, not thorough)
    n_ex = sum(1 for x in cells if x[4])
    rule = (
        f"{len(fam)} family grammars x 8 representations/deciders x max_depth in [reported minimum, +{extra_depths - 1}]: every node of every program created over all draw outcomes "
        f"(<= {ex_runs} runs per cell, {n_ex}/{len(cells)} cells exhausted), of {seeds} seeds x (2 creations + 3 mutate/crossover steps), and of GE boundary genotypes: "
        f"gengy_nodes, gengy_distance_to_term, gengy_weighted_nodes, gengy_types_this_way against an independent traversal ({nodes_checked} nodes compared); tree crossover of a program with itself / an equal duplicate / another program: parents and children re-checked afterwards"
        + ("; wall-clock budget reached, remaining cells skipped" if budget.tripped else "")
    )
    return result(evaluations, len(distinct), rule, samples, F.violations(), exhaustive=False, nodes_checked=nodes_checked, cells=len(cells), cells_exhausted=n_ex, budget_tripped=budget.tripped)
