"""C11 bounded stand-in: per-node size / depth metadata equals an independent traversal.

Oracle: rt.structure_helpers.meta_oracle -- node count (every grammar node, lists and tuples transparent),
distance in edges to the deepest terminal (base values and field-less nodes are terminals), weighted size (sum of
the distances of all nodes of the subtree), type index (exactly the sub-nodes of each production type, the node
itself included).  A node that has fields is at distance >= 1: a field holding an empty list counts one edge
(a production with fields is not a terminal, even when its lists happen to be empty).
"""
from __future__ import annotations

import itertools

from rt.common import result, structure, count_nodes
from rt import structure_helpers as H
from rt.structure_helpers import Findings, Budget, explore, meta_oracle, all_nodes, show

REPS = ("tree-grow", "tree-full", "tree-pi", "tree-pt", "ge", "sge", "dsge", "stack")
ATTRS = ("gengy_nodes", "gengy_distance_to_term", "gengy_weighted_nodes", "gengy_types_this_way")
DEVIATIONS = (
    ("fieldless-node-counts-zero", {"leaf_zero": True}),
    ("tuple-elements-ignored", {"tuples_ignored": True}),
    ("list-elements-ignored", {"lists_ignored": True}),
    ("list-counted-as-node", {"lists_as_nodes": True}),
)


def observed(n):
    idx = {}
    for k, v in dict(n.gengy_types_this_way).items():
        if isinstance(k, type) and H.dataclasses.is_dataclass(k):
            ids = sorted(id(x) for x in v)
            if ids:
                idx[k] = ids
    return n.gengy_nodes, n.gengy_distance_to_term, n.gengy_weighted_nodes, idx


def norm(o):
    return o[0], o[1], o[2], {k: sorted(v) for k, v in o[3].items() if v}


def explain(n, obs):
    """[] if the labels equal the oracle; else the names of the deviations that reproduce them (or ['other'])."""
    for e in (1,):
        if norm(meta_oracle(n, empty_list_dist=e)) == obs:
            return []
    for r in (1, 2, 3, 4):
        for combo in itertools.combinations(DEVIATIONS, r):
            kw = {}
            for _, k in combo:
                kw.update(k)
            for e in (1,):
                if norm(meta_oracle(n, empty_list_dist=e, **kw)) == obs:
                    return [name for name, _ in combo]
    return ["other"]


def check_nodes(F, p, where, fam_key, size):
    """every node of p against the independent traversal (same rule as the main loop)"""
    n = check_containers(F, p, where, fam_key, size)
    for node, below_list in all_nodes(p):
        n += 1
        if any(not hasattr(node, a) for a in ATTRS):
            continue  # reported by the main loop under :no-metadata
        try:
            obs = observed(node)
        except Exception:
            continue
        why = explain(node, obs)
        if not why:
            continue
        exp = norm(meta_oracle(node))
        diffs = [f"{label}={o} (traversal: {e})" for label, o, e in zip(("gengy_nodes", "gengy_distance_to_term", "gengy_weighted_nodes"), obs[:3], exp[:3]) if o != e]
        if obs[3] != exp[3]:
            diffs.append("gengy_types_this_way=" + str({k.__name__: len(v) for k, v in obs[3].items()}) + " (traversal: " + str({k.__name__: len(v) for k, v in exp[3].items()}) + ")")
        for w in why:
            F.add(f"{fam_key}:{w}", f"{where}: node {show(node, 60)}: " + "; ".join(diffs), size=size + count_nodes(node) * 10)
    return n


# ---- grammar local to this driver: a list field that is NOT the last field, followed by a field of the same types ----
from abc import ABC as _ABC
from dataclasses import dataclass as _dc


class EQ11(_ABC):
    pass


@_dc
class LitQ11(EQ11):
    v: int


@_dc
class SeqQ11(EQ11):
    items: list[EQ11]
    last: EQ11
    more: list[EQ11]


class AtomQ2(EQ11, _ABC):
    pass


@_dc
class VarQ2(AtomQ2):
    i: int


@_dc
class NegQ2(EQ11):
    e: EQ11
    a: AtomQ2


LAYERED = [("Q2-two-abstract-layers", [EQ11, AtomQ2, VarQ2, NegQ2, LitQ11], EQ11, "E <- Atom (abstract) <- Var; Neg(e: E, a: Atom): a field typed by the upper abstract class holds a production two expansions away")]


def local_family():
    return [("Q1-list-then-sibling", [EQ11, LitQ11, SeqQ11], EQ11, "Seq(items: list[E], last: E, more: list[E]): list fields followed by siblings of the same types")]


def _containers(v, out):
    if H.is_node(v):
        for c in H._dc_children(v):
            _containers(c, out)
    elif isinstance(v, (list, tuple)):
        if isinstance(v, list) and hasattr(v, "gengy_types_this_way"):
            out.append(v)
        for e in v:
            _containers(e, out)
    return out


def check_containers(F, p, where, fam_key, size):
    """The type index carried by a labelled list container lists exactly the grammar nodes beneath that list (per production
    type): siblings of the list, and nodes of other lists, do not belong to it."""
    n = 0
    for li in _containers(p, []):
        n += 1
        exp = {}
        for node, _ in all_nodes(list(li)):
            exp.setdefault(type(node), []).append(id(node))
        exp = {k: sorted(v) for k, v in exp.items()}
        try:
            obs = {k: sorted(id(x) for x in v) for k, v in dict(li.gengy_types_this_way).items() if isinstance(k, type) and H.dataclasses.is_dataclass(k) and v}
        except Exception:
            continue
        if obs != exp:
            F.add(f"{fam_key}:list-container-index-differs",
                  f"{where}: list {show(li, 60)} carries gengy_types_this_way=" + str({k.__name__: len(v) for k, v in obs.items()}) + ", the nodes beneath it are " + str({k.__name__: len(v) for k, v in exp.items()}),
                  size=size + 10 * len(li))
    return n


def parents_after_crossover(F, fam, seed, quick):
    """Tree crossover of a program with itself, with a structurally equal duplicate and with an unrelated one: afterwards the
    metadata of the PARENTS (programs the library created, still in the population) must still equal the traversal -- a
    crossover that edits the other parent's type index in place leaves a stale index behind."""
    from geneticengine.grammar.grammar import extract_grammar
    from geneticengine.random.sources import NativeRandomSource
    from geneticengine.representations.tree.initializations import MaxDepthDecider
    from geneticengine.representations.tree.treebased import TreeBasedRepresentation

    n = 0
    for name, classes, start, _desc in fam:
        try:
            g = extract_grammar(list(classes), start)
            lo = g.get_min_tree_depth()
            if lo >= 1000000:
                continue
        except Exception:
            continue
        for sd in range(seed, seed + (3 if quick else 12)):
            try:
                r = NativeRandomSource(sd)
                rep = TreeBasedRepresentation(g, MaxDepthDecider(r, g, lo + 2))
                a = rep.create_genotype(NativeRandomSource(sd))
                twin = TreeBasedRepresentation(g, MaxDepthDecider(NativeRandomSource(sd), g, lo + 2)).create_genotype(NativeRandomSource(sd))
                other = rep.create_genotype(r)
                for label, x, y in (("with itself", a, a), ("with a structurally equal duplicate", a, twin), ("with another program", a, other)):
                    kids = rep.crossover(r, x, y)
                    for who, prog in (("first parent", x), ("second parent", y), ("first child", kids[0]), ("second child", kids[1])):
                        n += check_nodes(F, prog, f"{name}, tree crossover {label} (seed {sd}), {who} afterwards", "create_node", 50)
            except Exception:
                continue
    return n


def expansion_mode_probe(F, fam, seed, quick):
    """Grammars extracted with expansion_depthing=True (abstract expansions and list levels are counted): one-step fold
    equations of gengy_nodes / gengy_distance_to_term at every node with fields, the number of abstract expansions between a
    field's declared type and the production found there taken from the class hierarchy (abstract classes on the inheritance
    chain), not from the grammar's tables."""
    from geneticengine.grammar.grammar import extract_grammar
    from geneticengine.random.sources import NativeRandomSource
    from geneticengine.representations.tree.initializations import MaxDepthDecider
    from geneticengine.representations.tree.treebased import TreeBasedRepresentation

    def chain(t, c):
        return len([k for k in type(c).__mro__[1:] if isinstance(t, type) and issubclass(k, t) and H.is_abs(k)])

    def label_of(c, attr):
        if isinstance(c, (int, float, str, bool)) or c is None:
            return 1
        return getattr(c, attr, None)

    n = 0
    for name, classes, start, _desc in fam:
        try:
            g = extract_grammar(list(classes), start, expansion_depthing=True)
            lo = g.get_min_tree_depth()
            if lo >= 1000000:
                continue
        except Exception:
            continue
        for sd in range(seed, seed + (3 if quick else 10)):
            try:
                r = NativeRandomSource(sd)
                p = TreeBasedRepresentation(g, MaxDepthDecider(r, g, lo + 2)).create_genotype(r)
            except Exception:
                continue
            for node, _below in all_nodes(p):
                fs = H.fields_of(type(node))
                if not fs or not hasattr(node, "gengy_nodes"):
                    continue
                tot, dist, ok = 1, 1, True
                for fname, ft in fs:
                    c = getattr(node, fname, None)
                    seq = isinstance(c, (list, tuple))
                    base = H.form(ft)
                    while base[0] == "ann":
                        base = H.form(base[1])
                    if isinstance(c, tuple) or base[0] in ("union", "tuple", "other"):
                        ok = False
                        break
                    cn, cd = label_of(c, "gengy_nodes"), label_of(c, "gengy_distance_to_term")
                    if cn is None or cd is None:
                        ok = False
                        break
                    adj = 1 if seq else (chain(base[1], c) if base[0] == "class" and H.is_abs(base[1]) else 0)
                    tot += adj + cn
                    dist = max(dist, cd + adj + (0 if seq else 1))
                if not ok:
                    continue
                n += 1
                if (node.gengy_nodes, node.gengy_distance_to_term) != (tot, dist):
                    F.add("create_node:expansion-mode-fold-equation",
                          f"{name} (expansion_depthing=True), seed {sd}: node {show(node, 60)}: gengy_nodes={node.gengy_nodes}, gengy_distance_to_term={node.gengy_distance_to_term}; "
                          f"one-step fold over its fields (abstract expansions counted along the class hierarchy) gives {tot}, {dist}", size=50 + count_nodes(node) * 10)
    return n


def run(tier: str, seed: int) -> dict:
    thorough = tier == "thorough"
    budget = Budget(430 if thorough else 33)
    F = Findings("C11")
    fam = local_family() + H.full_family()
    ex_runs = 2500 if thorough else 200
    seeds = 40 if thorough else 6
    extra_depths = 3 if thorough else 2

    def depths(view, g, rep):
        lo = g.get_min_tree_depth()
        if rep in ("tree-pt", "stack"):
            return [lo]
        return range(lo, lo + extra_depths)

    evaluations = 0
    nodes_checked = 0
    distinct = set()
    samples = []
    cells = []
    for c in explore(fam, REPS, depths, seed, exhaustive_runs=ex_runs, seeds=seeds, n_ops=3, gene_grid=3, budget=budget, cell_info=cells):
        evaluations += 1
        if c.exc is not None or c.program is None:
            continue
        p = c.program
        try:
            st = structure(p)
            hash(st)
        except Exception:
            st = repr(p)
        first = (c.member, st, c.phase) not in distinct
        distinct.add((c.member, st, c.phase))
        if not first and c.phase == "create":
            continue  # labels depend only on the structure for freshly created programs
        if len(samples) < 8 and len(distinct) % 173 == 1:
            samples.append(f"{c.where()} -> {show(p, 80)}")
        fam_key = "stack" if c.rep == "stack" else "create_node"
        nodes_checked += check_containers(F, p, c.where(), fam_key, c.size)
        for n, below_list in all_nodes(p):
            nodes_checked += 1
            missing = [a for a in ATTRS if not hasattr(n, a)]
            if missing:
                F.add(
                    f"{fam_key}:no-metadata",
                    f"{c.where()}: node {show(n, 50)} of program {show(p, 70)} has no {', '.join(missing)}",
                    size=c.size + count_nodes(p),
                )
                continue
            try:
                obs = observed(n)
            except Exception as ex:  # noqa
                F.add(f"{fam_key}:unreadable-metadata", f"{c.where()}: node {show(n, 50)}: {H.exc_text(ex)}", size=c.size)
                continue
            why = explain(n, obs)
            if not why:
                continue
            exp = norm(meta_oracle(n))
            diffs = []
            for label, o, e in zip(("gengy_nodes", "gengy_distance_to_term", "gengy_weighted_nodes"), obs[:3], exp[:3]):
                if o != e:
                    diffs.append(f"{label}={o} (traversal: {e})")
            if obs[3] != exp[3]:
                diffs.append(
                    "gengy_types_this_way="
                    + str({k.__name__: len(v) for k, v in obs[3].items()})
                    + " (traversal: "
                    + str({k.__name__: len(v) for k, v in exp[3].items()})
                    + ")"
                )
            for w in why:
                F.add(
                    f"{fam_key}:{w}",
                    f"{c.where()}: node {show(n, 60)}{' (below a list)' if below_list else ''}: " + "; ".join(diffs),
                    size=c.size + count_nodes(n) * 10,
                )
    nodes_checked += parents_after_crossover(F, fam, seed, not thorough)
    nodes_checked += expansion_mode_probe(F, fam + LAYERED, seed, not thorough)
    n_ex = sum(1 for x in cells if x[4])
    rule = (
        f"{len(fam)} family grammars x 8 representations/deciders x max_depth in [reported minimum, +{extra_depths - 1}]: every node of every program created over all draw outcomes "
        f"(<= {ex_runs} runs per cell, {n_ex}/{len(cells)} cells exhausted), of {seeds} seeds x (2 creations + 3 mutate/crossover steps), and of GE boundary genotypes: "
        f"gengy_nodes, gengy_distance_to_term, gengy_weighted_nodes, gengy_types_this_way against an independent traversal ({nodes_checked} nodes compared); tree crossover of a program with itself / an equal duplicate / another program: parents and children re-checked afterwards"
        + ("; wall-clock budget reached, remaining cells skipped" if budget.tripped else "")
    )
    return result(evaluations, len(distinct), rule, samples, F.violations(), exhaustive=False, nodes_checked=nodes_checked, cells=len(cells), cells_exhausted=n_ex, budget_tripped=budget.tripped)
