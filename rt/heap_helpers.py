"""Helpers shared by the bounded drivers C07-C10 (never counted as proof).

* sstruct(): structural fingerprint that never embeds object identities (generators etc. become opaque)
* SpySource: a NativeRandomSource that records WHICH library call site draws from it while `watch` is on
* extra grammars (module-level dataclasses, unique names): plain / refined twins, a grammar with a production
  that a Dependent refinement makes infeasible in some contexts, a grammar whose only production can fail
* representation / decider builders, grammar snapshots, individual snapshots with the C09 comparison rule
"""
import os
import signal
import sys
import threading
import time
from contextlib import contextmanager
from abc import ABC
from geneticengine.grammar.decorators import abstract
from dataclasses import dataclass, is_dataclass, fields as dc_fields
from typing import Annotated, Union

from rt.common import REPO, BASE, is_node, snapshot, make_family  # noqa: F401  (REPO import sets sys.path)

from geneticengine.random.sources import NativeRandomSource
from geneticengine.grammar.grammar import extract_grammar
from geneticengine.grammar.metahandlers.ints import IntRange, IntList
from geneticengine.grammar.metahandlers.vars import VarRange
from geneticengine.grammar.metahandlers.lists import ListSizeBetween
from geneticengine.grammar.metahandlers.strings import StringSizeBetween
from geneticengine.grammar.metahandlers.dependent import Dependent
from geneticengine.representations.tree.initializations import (
    MaxDepthDecider,
    FullDecider,
    PositionIndependentGrowDecider,
    ProgressivelyTerminalDecider,
)
from geneticengine.representations.tree.treebased import TreeBasedRepresentation
from geneticengine.representations.grammatical_evolution.ge import GrammaticalEvolutionRepresentation
from geneticengine.representations.grammatical_evolution.structured_ge import StructuredGrammaticalEvolutionRepresentation
from geneticengine.representations.grammatical_evolution.dynamic_structured_ge import (
    DynamicStructuredGrammaticalEvolutionRepresentation,
)
from geneticengine.representations.stackgggp import StackBasedGGGPRepresentation

LIB = os.path.join(REPO, "geneticengine") + os.sep


# ------------------------------------------------------------------------------------------------
class Clock:
    """Wall-clock budget of a driver run (the driver stops exploring, never aborts, when it is used up)."""

    def __init__(self, seconds):
        self.t0 = time.time()
        self.limit = seconds

    def left(self):
        return self.limit - (time.time() - self.t0)

    def over(self):
        return self.left() <= 0

    def used(self):
        return time.time() - self.t0


class Timeout(Exception):
    """Raised by watchdog(); a timed-out case is skipped and counted, never judged."""


@contextmanager
def watchdog(seconds):
    """Bounds one library call (the stack mapper can loop forever for some symbol orders).  Only effective in the main
    thread; elsewhere it is a no-op."""
    usable = hasattr(signal, "setitimer") and threading.current_thread() is threading.main_thread()
    if not usable:
        yield
        return

    def handler(signum, frame):
        raise Timeout()

    old = signal.signal(signal.SIGALRM, handler)
    signal.setitimer(signal.ITIMER_REAL, max(0.05, seconds), 0.5)  # repeats, in case a handler swallows the first
    try:
        yield
    finally:
        signal.setitimer(signal.ITIMER_REAL, 0)
        signal.signal(signal.SIGALRM, old)


# ------------------------------------------------------------------------------------------------
def sstruct(v, _d=0):
    """Structural fingerprint: types + base values; anything else (generator objects the library leaves in tuple
    fields, ...) is opaque, so that two fingerprints are equal iff the programs are structurally identical."""
    if _d > 200:
        return ("<deep>",)
    if is_node(v):
        return (type(v).__qualname__,) + tuple(sstruct(getattr(v, f.name), _d + 1) for f in dc_fields(v))
    if isinstance(v, list):
        return ("list",) + tuple(sstruct(c, _d + 1) for c in v)
    if isinstance(v, tuple):
        return ("tuple",) + tuple(sstruct(c, _d + 1) for c in v)
    if isinstance(v, bool):
        return ("bool", v)
    if isinstance(v, float):
        return ("float", repr(v))
    if isinstance(v, (int, str)) or v is None:
        return (type(v).__name__, v)
    return ("opaque", type(v).__name__)


def n_nodes(v):
    if is_node(v):
        return 1 + sum(n_nodes(getattr(v, f.name)) for f in dc_fields(v))
    if isinstance(v, (list, tuple)):
        return sum(n_nodes(c) for c in v)
    return 0


def short(x, n=160):
    s = x if isinstance(x, str) else repr(x)
    return s if len(s) <= n else s[: n - 3] + "..."


def show(st):
    """Compact rendering of an sstruct fingerprint."""
    if not isinstance(st, tuple) or not st:
        return repr(st)
    head = st[0]
    if head in ("int", "str", "bool", "NoneType"):
        return repr(st[1])
    if head == "float":
        return st[1]
    if head == "opaque":
        return f"<{st[1]}>"
    if head in ("list", "tuple"):
        o, c = ("[", "]") if head == "list" else ("(", ")")
        return o + ", ".join(show(c) for c in st[1:]) + c
    return head.split(".")[-1] + "(" + ", ".join(show(c) for c in st[1:]) + ")"


# ------------------------------------------------------------------------------------------------
class SpySource(NativeRandomSource):
    """The shared seeded source of a search.  While `watch` is true every draw is attributed to the innermost
    library frame that asked for it (file, function, class)."""

    def __init__(self, seed=0):
        super().__init__(seed)
        self.watch = False
        self.sites = []

    def _note(self):
        if not self.watch:
            return
        f = sys._getframe(2)
        site = None
        while f is not None:
            fn = f.f_code.co_filename
            if fn.startswith(LIB) and not fn.endswith(os.path.join("random", "sources.py")):
                cls = type(f.f_locals["self"]).__name__ if "self" in f.f_locals else ""
                site = (fn[len(LIB):], f.f_code.co_name, cls, f.f_lineno)
                break
            f = f.f_back
        self.sites.append(site or ("<driver>", "", "", 0))

    def randint(self, min, max):
        self._note()
        return self.random.randint(min, max)

    def random_float(self, min, max):
        self._note()
        return self.random.random() * (max - min) + min

    def normalvariate(self, mean, sigma):
        self._note()
        return self.random.normalvariate(mean, sigma)

    def state(self):
        return self.random.getstate()


def site_category(site):
    fn, func, cls, _ = site
    if "metahandlers" in fn:
        return "metahandler"
    if fn.endswith("dynamic_structured_ge.py") and func == "get":
        return "genotype-growth"
    if cls.endswith("Decider") or fn.endswith("initializations.py"):
        return "decider"
    return "other"


# ------------------------------------------------------------------------------------------------
# extra grammars (module level so that get_type_hints resolves the string annotations)
class HP(ABC):
    pass


@dataclass
class HPLit(HP):
    v: int


@dataclass
class HPAdd(HP):
    l: HP
    r: HP


class HR(ABC):
    pass


@dataclass
class HRLit(HR):
    v: Annotated[int, IntRange(0, 9)]


@dataclass
class HRAdd(HR):
    l: HR
    r: HR


class HB(ABC):
    pass


@dataclass
class HBLeaf(HB):
    b: bool
    f: float


@dataclass
class HBNode(HB):
    x: HB
    n: Annotated[int, IntList([2, 3, 5])]


@dataclass
class HDPair:
    a: Annotated[int, IntRange(0, 3)]
    b: Annotated[int, Dependent("a", lambda a: IntRange(a, 4))]


# a production (HIBad) that a Dependent refinement makes infeasible when a == 0
class HI(ABC):
    pass


@dataclass
class HIGood(HI):
    v: Annotated[int, IntRange(0, 3)]


@dataclass
class HIBad(HI):
    a: Annotated[int, IntRange(0, 1)]
    name: Annotated[str, Dependent("a", lambda a: VarRange(["x"] if a else []))]


@dataclass
class HIWrap(HI):
    l: HI
    r: HI


# the only production of HO can be infeasible
class HO(ABC):
    pass


@dataclass
class HOOnly(HO):
    a: Annotated[int, IntRange(0, 1)]
    name: Annotated[str, Dependent("a", lambda a: VarRange(["x"] if a else []))]


# lists / strings with custom variation operators
class HL(ABC):
    pass


@dataclass
class HLLeaf(HL):
    s: Annotated[str, StringSizeBetween(1, 4)]


@dataclass
class HLMany(HL):
    xs: Annotated[list[HL], ListSizeBetween(1, 3)]


# concrete start symbol that also occurs below the root (grafting in tree crossover picks nested occurrences)
class HCItem(ABC):
    pass


@dataclass
class HCBlock:
    items: Annotated[list[HCItem], ListSizeBetween(0, 2)]


@dataclass
class HCLit(HCItem):
    v: Annotated[int, IntRange(0, 3)]


@dataclass
class HCNest(HCItem):
    b: HCBlock


# an abstract extension point without productions: some symbols cannot reach a terminal (max node depth is infinite)
class HX(ABC):
    pass


@abstract
class HXHole(HX):
    pass


@dataclass
class HXLit(HX):
    v: Annotated[int, IntRange(0, 3)]


@dataclass
class HXAdd(HX):
    l: HX
    r: HX


@dataclass
class HXHook(HX):
    h: HXHole


def unproductive_grammar():
    return ("H-hole", [HX, HXHole, HXLit, HXAdd, HXHook], HX, True, "Lit | Add(l,r) | Hook(h: Hole) where the abstract Hole has no production")


def extra_grammars():
    """(name, classes, start, refined?, description)"""
    return [
        ("H-plain", [HP, HPLit, HPAdd], HP, False, "Lit(v:int) | Add(l,r): no refined field"),
        ("H-refined", [HR, HRLit, HRAdd], HR, True, "Lit(v:IntRange(0,9)) | Add(l,r)"),
        ("H-base", [HB, HBLeaf, HBNode], HB, True, "Leaf(b:bool,f:float) | Node(x, n:IntList)"),
        ("H-dependent", [HDPair], HDPair, True, "Pair(a:IntRange(0,3), b:Dependent(a -> IntRange(a,4)))"),
        ("H-infeasible", [HI, HIGood, HIBad, HIWrap], HI, True, "Good | Bad(a, name:Dependent(a -> VarRange(['x'] if a else []))) | Wrap(l,r)"),
        ("H-lists", [HL, HLLeaf, HLMany], HL, True, "Leaf(s:StringSizeBetween(1,4)) | Many(xs:ListSizeBetween(1,3))"),
        ("H-concrete-rec", [HCBlock, HCItem, HCLit, HCNest], HCBlock, True, "concrete start Block(items) that recurs through Nest(b: Block)"),
    ]


FAMILY_REFINED = {"F1-arith": True, "F2-list": False, "F3-union": False, "F4-tuple-base": True, "F5-mutual": True, "F6-union-depths": False}


def all_grammars(family=None):
    """family members + extra grammars as (name, classes, start, refined, description)."""
    fam = family if family is not None else make_family()
    out = [(n, cl, st, FAMILY_REFINED.get(n, False), d) for (n, cl, st, d) in fam]
    return out + extra_grammars()


# ------------------------------------------------------------------------------------------------
DECIDERS = {
    "MaxDepth": MaxDepthDecider,
    "Full": FullDecider,
    "PIGrow": PositionIndependentGrowDecider,
    "ProgTerminal": ProgressivelyTerminalDecider,
}
REPS = ["Tree", "GE", "SGE", "dSGE", "Stack"]


def make_decider(kind, source, grammar, max_depth):
    if kind == "ProgTerminal":
        return ProgressivelyTerminalDecider(source, grammar)
    return DECIDERS[kind](source, grammar, max_depth)


def make_rep(kind, grammar, source, decider_kind="MaxDepth", max_depth=None, gene_length=24):
    """Builds one of the five representations around the shared `source`."""
    md = max_depth if max_depth is not None else grammar.get_min_tree_depth() + 2
    if kind == "Tree":
        return TreeBasedRepresentation(grammar, make_decider(decider_kind, source, grammar, md))
    if kind == "GE":
        return GrammaticalEvolutionRepresentation(grammar, make_decider(decider_kind, source, grammar, md), gene_length)
    if kind == "SGE":
        return StructuredGrammaticalEvolutionRepresentation(grammar, make_decider(decider_kind, source, grammar, md), gene_length)
    if kind == "dSGE":
        return DynamicStructuredGrammaticalEvolutionRepresentation(grammar, md)
    if kind == "Stack":
        return StackBasedGGGPRepresentation(grammar, max(gene_length, 64))
    raise ValueError(kind)


# ------------------------------------------------------------------------------------------------
def tname(t):
    return getattr(t, "__qualname__", None) and t.__qualname__.split(".")[-1] or repr(t)


def grammar_snapshot(g):
    """Everything C10 calls 'the grammar', by class name (order kept where the library keeps an order)."""
    # read the class-level metadata BEFORE anything that might write it (get_weights is called below)
    class_meta = {tname(k): repr(sorted((k.__dict__.get("__gengy__") or {}).items(), key=lambda kv: str(kv[0]))) for k in sorted(g.all_nodes, key=tname) if isinstance(k, type)}
    return {
        "class_metadata(__gengy__)": class_meta,
        "repr": repr(g),
        "alternatives": {tname(k): [tname(x) for x in v] for k, v in g.alternatives.items()},
        "distanceToTerminal": dict(sorted((tname(k), v) for k, v in g.distanceToTerminal.items())),
        "recursive_prods": sorted(tname(x) for x in g.recursive_prods),
        "weights": dict(sorted((tname(k), v) for k, v in g.get_weights().items())),
        "all_nodes": sorted(tname(x) for x in g.all_nodes),
        "terminals": sorted(tname(x) for x in g.terminals),
        "non_terminals": sorted(tname(x) for x in g.non_terminals),
        "starting_symbol": tname(g.starting_symbol),
    }


def grammar_diff(a, b):
    return [f"{k}: {short(a[k], 120)} -> {short(b[k], 120)}" for k in a if a[k] != b.get(k)]


# ------------------------------------------------------------------------------------------------
def genotype_snapshot(gt):
    return snapshot(gt)


def _dsge_growth_only(old, new):
    """dSGE genotypes may only grow: every old gene list is a prefix of the new one, no key disappears."""
    try:
        od, nd = old.get("dna"), new.get("dna")
    except Exception:
        return False
    for k, lst in od.items():
        if k not in nd or nd[k][: len(lst)] != lst:
            return False
    return True


def dsge_plain(gt):
    return {"dna": {repr(k): list(v) for k, v in gt.dna.items()}}


def is_dsge_genotype(gt):
    return type(gt).__module__.endswith("dynamic_structured_ge") and hasattr(gt, "dna")


def value_snapshot(gt):
    """Snapshot of a genotype for before/after comparison; dSGE genotypes are compared with the growth rule."""
    if is_dsge_genotype(gt):
        return ("dsge", dsge_plain(gt))
    return ("plain", snapshot(gt))


def value_unchanged(before, after):
    if before[0] == "dsge" and after[0] == "dsge":
        return _dsge_growth_only(before[1], after[1])
    return before == after


def fitness_plain(ind):
    out = {}
    for prob, fit in list(ind.fitness_store.items()):
        out[id(prob)] = (repr(fit.maximizing_aggregate), tuple(repr(c) for c in fit.fitness_components))
    return out


def individual_snapshot(ind):
    ph = ind.__dict__.get("phenotype", None)
    return {
        "genotype": value_snapshot(ind.genotype),
        "genotype_id": id(ind.genotype),
        "representation_id": id(ind.representation),
        "phenotype": None if ph is None else snapshot(ph),
        "fitness": fitness_plain(ind),
        "metadata": {k: repr(v) for k, v in ind.metadata.items()},
    }


def individual_changes(before, after):
    """List of forbidden differences (C09 reading: genotype / program / node metadata unchanged, an existing cached
    fitness neither changed nor dropped; filling an absent phenotype or fitness cache entry is permitted;
    Individual.metadata is reported separately by the caller)."""
    out = []
    if before["genotype_id"] != after["genotype_id"]:
        out.append("genotype object replaced")
    if not value_unchanged(before["genotype"], after["genotype"]):
        out.append("genotype changed")
    if before["phenotype"] is not None and before["phenotype"] != after["phenotype"]:
        out.append("cached phenotype changed")
    for k, v in before["fitness"].items():
        if k not in after["fitness"]:
            out.append("cached fitness dropped")
        elif after["fitness"][k] != v:
            out.append(f"cached fitness changed {v} -> {after['fitness'][k]}")
    return out
