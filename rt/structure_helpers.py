"""Independent oracles shared by the bounded drivers c01..c05, c11 (never counted as proof).

Everything here is written from the property statements, not from the library code:

* type forms read through `typing.get_origin/get_args` and `dataclasses.fields`;
* GrammarView: productions (direct subtypes among the supplied classes), minimum depths (level-by-level
  derivability), recursion (cycle search in the derives-relation, through list / union / annotated / tuple
  fields), reachability from the start symbol;
* well_typed / refined: executable versions of the C01 / C02 predicates;
* Lang: enumerator of the bounded language of a finite-choice grammar (C04);
* metadata oracle: node count, distance to the deepest terminal, weighted size, type index (C11);
* representation factories, operation sequences, exception classification, an extra grammar family.

The library is only *called* here to build representations / deciders (the systems under test) and to read
the parameters the user put into metahandler objects (min, max, elements, ...).
"""
from __future__ import annotations

import dataclasses
import inspect
import itertools
import random as _pyrandom
import sys
import time
import types
import typing
from abc import ABC
from dataclasses import dataclass
from typing import Annotated, Any, Protocol, Union, get_args, get_origin

from rt.common import REPO, structure, depth, is_node, enumerate_outcomes  # noqa: F401

import numpy as np

from geneticengine.random.sources import RandomSource, NativeRandomSource
from geneticengine.exceptions import GeneticEngineError
from geneticengine.grammar.decorators import abstract
from geneticengine.grammar.grammar import extract_grammar
from geneticengine.grammar.metahandlers.base import SynthesisException
from geneticengine.grammar.metahandlers.ints import IntRange, IntList, IntervalRange
from geneticengine.grammar.metahandlers.floats import FloatRange, FloatList
from geneticengine.grammar.metahandlers.vars import VarRange
from geneticengine.grammar.metahandlers.lists import ListSizeBetween, ListSizeBetweenWithoutListOperations
from geneticengine.grammar.metahandlers.strings import StringSizeBetween, WeightedStringHandler
from geneticengine.grammar.metahandlers.dependent import Dependent
from geneticengine.representations.tree.treebased import TreeBasedRepresentation
from geneticengine.representations.tree.initializations import (
    MaxDepthDecider,
    FullDecider,
    PositionIndependentGrowDecider,
    ProgressivelyTerminalDecider,
)
from geneticengine.representations.grammatical_evolution.ge import GrammaticalEvolutionRepresentation
from geneticengine.representations.grammatical_evolution import ge as _ge
from geneticengine.representations.grammatical_evolution.structured_ge import StructuredGrammaticalEvolutionRepresentation
from geneticengine.representations.grammatical_evolution.dynamic_structured_ge import (
    DynamicStructuredGrammaticalEvolutionRepresentation,
)
from geneticengine.representations.stackgggp import StackBasedGGGPRepresentation
from geneticengine.representations import stackgggp as _stack

ALLOWED_ERRORS = (GeneticEngineError, SynthesisException)
INF = 10**6
BASES = (int, float, str, bool)
LIST_SIZE_HANDLERS = (ListSizeBetween, ListSizeBetweenWithoutListOperations)


# ------------------------------------------------------------------------------------------------
# type forms
def form(ty):
    """('base', t) | ('ann', inner, metadata) | ('list', elem) | ('tuple', elems) | ('union', alts) | ('class', c)"""
    if ty in BASES:
        return ("base", ty)
    o = get_origin(ty)
    if o is Annotated:
        a = get_args(ty)
        return ("ann", a[0], tuple(a[1:]))
    if o is list:
        a = get_args(ty)
        return ("list", a[0] if a else Any)
    if o is tuple:
        return ("tuple", tuple(get_args(ty)))
    if o is Union or o is getattr(types, "UnionType", None):
        return ("union", tuple(get_args(ty)))
    if isinstance(ty, type):
        return ("class", ty)
    return ("other", ty)


def tname(ty) -> str:
    f = form(ty)
    if f[0] in ("base", "class"):
        return f[1].__name__
    if f[0] == "ann":
        return f"Annotated[{tname(f[1])}, {type(f[2][0]).__name__}]"
    if f[0] == "list":
        return f"list[{tname(f[1])}]"
    if f[0] == "tuple":
        return "tuple[" + ",".join(tname(t) for t in f[1]) + "]"
    if f[0] == "union":
        return "Union[" + ",".join(tname(t) for t in f[1]) + "]"
    return repr(ty)


_FIELDS_CACHE: dict = {}


def fields_of(cls):
    """[(name, declared type)] of the constructor arguments of a production."""
    if cls in _FIELDS_CACHE:
        return _FIELDS_CACHE[cls]
    if dataclasses.is_dataclass(cls):
        hints = typing.get_type_hints(cls, globalns=vars(sys.modules[cls.__module__]), include_extras=True)
        out = [(f.name, hints[f.name]) for f in dataclasses.fields(cls) if f.init]
    else:
        init = cls.__dict__.get("__init__") or getattr(cls, "__init__", None)
        out = []
        if init is not None and init is not object.__init__:
            try:
                hints = typing.get_type_hints(init, globalns=vars(sys.modules[cls.__module__]), include_extras=True)
                params = [p for p in inspect.signature(init).parameters][1:]
                out = [(p, hints[p]) for p in params if p in hints]
            except Exception:
                out = []
    _FIELDS_CACHE[cls] = out
    return out


def is_abs(cls) -> bool:
    if not isinstance(cls, type):
        return False
    return ABC in cls.__bases__ or Protocol in cls.__bases__ or bool(cls.__dict__.get("__gengy__", {}).get("abstract", False))


def class_mentions(ty, skip=()):
    """class symbols mentioned by a declared field type, through list / tuple / union / annotated.
    `skip`: type forms not to look through (used only to name the cause of a mismatch)."""
    f = form(ty)
    if f[0] in skip:
        return
    if f[0] == "class":
        if f[1] not in BASES:
            yield f[1]
    elif f[0] in ("ann", "list"):
        yield from class_mentions(f[1], skip)
    elif f[0] in ("tuple", "union"):
        for t in f[1]:
            yield from class_mentions(t, skip)


def list_may_be_empty(ty) -> bool:
    f = form(ty)
    if f[0] == "list":
        return True
    if f[0] == "ann" and form(f[1])[0] == "list":
        for h in f[2]:
            if isinstance(h, LIST_SIZE_HANDLERS):
                return h.min <= 0
        return True
    return False


def has_dependent(ty) -> bool:
    f = form(ty)
    if f[0] == "ann":
        return any(isinstance(h, Dependent) for h in f[2]) or has_dependent(f[1])
    if f[0] == "list":
        return has_dependent(f[1])
    if f[0] in ("tuple", "union"):
        return any(has_dependent(t) for t in f[1])
    return False


# ------------------------------------------------------------------------------------------------
class GrammarView:
    """Independent analysis of a class hierarchy (classes, start)."""

    def __init__(self, classes, start, skip_forms=()):
        self.start = start
        self.skip_forms = tuple(skip_forms)
        self.supplied = []
        for c in [start] + list(classes):
            if c not in self.supplied:
                self.supplied.append(c)
        # intermediate classes between supplied classes and their roots, and classes mentioned by fields of
        # supplied productions, belong to the hierarchy (the user cannot leave them out)
        todo = list(self.supplied)
        while todo:
            c = todo.pop()
            if not isinstance(c, type):
                continue
            more = []
            for a in c.__mro__[1:]:
                if a in (object, ABC, Protocol, typing.Generic) or a in BASES or a.__module__ in ("builtins", "abc", "typing"):
                    continue
                more.append(a)
            if not is_abs(c):
                try:
                    for _, ty in fields_of(c):
                        more.extend(class_mentions(ty))
                except Exception:
                    pass
            for a in more:
                if a not in self.supplied:
                    self.supplied.append(a)
                    todo.append(a)
        self._reach = None
        self._md = None
        self._rec = None

    # productions: direct subtypes among the supplied classes
    def prods(self, a):
        return [c for c in self.supplied if isinstance(c, type) and a in c.__bases__]

    def successors(self, s):
        if is_abs(s):
            return self.prods(s)
        out = []
        for _, ty in fields_of(s):
            for c in class_mentions(ty, self.skip_forms):
                if c not in out:
                    out.append(c)
        return out

    def reachable(self):
        if self._reach is None:
            seen = [self.start]
            todo = [self.start]
            while todo:
                s = todo.pop()
                for t in self.successors(s):
                    if t not in seen:
                        seen.append(t)
                        todo.append(t)
            self._reach = seen
        return self._reach

    def symbols(self):
        out = list(self.supplied)
        for s in self.reachable():
            if s not in out:
                out.append(s)
        # symbols mentioned by supplied-but-unreachable classes
        todo = list(out)
        while todo:
            s = todo.pop()
            for t in self.successors(s):
                if t not in out:
                    out.append(t)
                    todo.append(t)
        return out

    # minimum depth: level-by-level derivability (depth = longest chain of nested grammar nodes)
    def md_map(self):
        if self._md is None:
            syms = self.symbols()
            der: dict = {}
            d = 0
            while d <= len(syms) + 2:
                added = False
                snapshot_der = dict(der)
                for s in syms:
                    if s in der or is_abs(s):
                        continue
                    if d >= 1 and all(self._md_type(ty, snapshot_der) <= d - 1 for _, ty in fields_of(s)):
                        der[s] = d
                        added = True
                changed = True
                while changed:
                    changed = False
                    for s in syms:
                        if s in der or not is_abs(s):
                            continue
                        if any(p in der for p in self.prods(s)):
                            der[s] = d
                            changed = added = True
                if d >= 1 and not added:
                    break
                d += 1
            self._md = der
        return self._md

    def _md_type(self, ty, der):
        f = form(ty)
        if f[0] == "base":
            return 0
        if f[0] == "class":
            if f[1] in BASES:
                return 0
            return der.get(f[1], INF)
        if f[0] == "list":
            return 0
        if f[0] == "ann":
            inner = form(f[1])
            if inner[0] == "list":
                return 0 if list_may_be_empty(ty) else self._md_type(inner[1], der)
            return self._md_type(f[1], der)
        if f[0] == "tuple":
            return max([self._md_type(t, der) for t in f[1]], default=0)
        if f[0] == "union":
            return min([self._md_type(t, der) for t in f[1]], default=INF)
        return INF

    def md(self, ty) -> int:
        return self._md_type(ty, self.md_map())

    def min_depth(self) -> int:
        return self.md(self.start)

    # expansion-depth mode (depth grows with every expansion): only for grammars whose fields are
    # base / annotated-base / class typed (the documented reading covers nothing else)
    def simple_fields_only(self):
        for s in self.symbols():
            if is_abs(s):
                continue
            for _, ty in fields_of(s):
                f = form(ty)
                if f[0] == "ann":
                    f = form(f[1])
                if f[0] not in ("base", "class"):
                    return False
        return True

    def md_expansion_map(self):
        syms = self.symbols()
        val = {s: INF for s in syms}

        def tv(ty):
            f = form(ty)
            if f[0] == "ann":
                f = form(f[1])
            if f[0] == "base":
                return 1
            return val.get(f[1], INF)

        changed = True
        while changed:
            changed = False
            for s in syms:
                if is_abs(s):
                    n = min([1 + val[p] for p in self.prods(s)], default=INF)
                else:
                    n = 1 + max([tv(ty) for _, ty in fields_of(s)], default=0)
                n = min(n, INF)
                if n < val[s]:
                    val[s] = n
                    changed = True
        return val

    # recursion: s can derive a program containing an instance of s
    def recursive(self, productive_only=True):
        if not productive_only:
            keep, self._rec = self._rec, None
            try:
                return self._recursive({s: 0 for s in self.symbols()})
            finally:
                self._rec = keep
        return self._recursive(self.md_map())

    def _recursive(self, md):
        if self._rec is None:
            syms = [s for s in self.symbols() if s in md]
            succ = {s: [t for t in self.successors(s) if t in md] for s in syms}
            rec = set()
            for s in syms:
                seen = set()
                todo = list(succ[s])
                while todo:
                    t = todo.pop()
                    if t in seen:
                        continue
                    seen.add(t)
                    todo.extend(succ.get(t, []))
                if s in seen:
                    rec.add(s)
            self._rec = rec
        return self._rec

    def concrete_registered(self, c) -> bool:
        return c in self.supplied and not is_abs(c)


# ------------------------------------------------------------------------------------------------
# naming the origin of a wrong reported minimum depth (the verdict itself never depends on this)
def distance_cause(view, g, s, exact):
    """Names the origin of a wrong reported distance at symbol s; None if s merely inherits the error."""
    if s in BASES:
        return f"base-{s.__name__}"
    if is_abs(s):
        return None if any(not exact.get(p, True) for p in view.prods(s)) else "abstract-type"
    causes = []
    for n, ty in fields_of(s):
        if any(not exact.get(c, True) for c in class_mentions(ty)):
            return None
        c = form_cause(view, g, ty)
        if c:
            causes.append(c)
    return "+".join(sorted(set(causes))) if causes else "concrete-type"


def form_cause(view, g, ty):
    """innermost type form at which the library's distance differs from the independent one"""
    try:
        lib = g.get_distance_to_terminal(ty)
    except Exception:
        lib = None
    if lib == view.md(ty):
        return None
    f = form(ty)
    k = f[0]
    if k in ("base", "class"):
        return f"base-{f[1].__name__}" if f[1] in BASES else None
    subs = [f[1]] if k in ("ann", "list") else list(f[1])
    for t in subs:
        c = form_cause(view, g, t)
        if c:
            return c
    if k == "ann":
        k = form(f[1])[0]
    if k == "list":
        k = "possibly-empty-list"
    return f"{k}-field"



def overestimate_causes(view, g):
    """causes (see distance_cause) of all reachable symbols whose reported distance exceeds the independent
    minimum depth, origins only"""
    md = view.md_map()
    exact = {}
    for s in view.reachable():
        exact[s] = g.distanceToTerminal.get(s) == md.get(s, INF)
    for b in BASES:
        if b in g.distanceToTerminal:
            exact[b] = g.distanceToTerminal[b] == 0
    out = set()
    for s, ok in exact.items():
        if not ok:
            c = distance_cause(view, g, s, exact)
            if c:
                out.add(c)
    return sorted(out)


# ------------------------------------------------------------------------------------------------
# C01: well-typedness
def well_typed(v, ty, view: GrammarView, path="$", errs=None, limit=6):
    """Appends (kind, path, detail) to errs for every place where v is not a value of declared type ty."""
    if errs is None:
        errs = []
    if len(errs) >= limit:
        return errs
    f = form(ty)
    k = f[0]
    if k == "base" or (k == "class" and f[1] in BASES):
        if type(v) is not f[1]:
            errs.append((f"{f[1].__name__}-field-holds-{type(v).__name__}", path, repr(v)[:60]))
    elif k == "ann":
        well_typed(v, f[1], view, path, errs, limit)
    elif k == "list":
        if not isinstance(v, list):
            errs.append((f"list-field-holds-{type(v).__name__}", path, repr(v)[:60]))
        else:
            for i, e in enumerate(v):
                well_typed(e, f[1], view, f"{path}[{i}]", errs, limit)
    elif k == "tuple":
        if not isinstance(v, tuple):
            errs.append((f"tuple-field-holds-{type(v).__name__}", path, repr(v)[:60]))
        elif len(v) != len(f[1]):
            errs.append((f"tuple-field-wrong-arity-{len(v)}-for-{len(f[1])}", path, repr(v)[:60]))
        else:
            for i, (e, t) in enumerate(zip(v, f[1])):
                well_typed(e, t, view, f"{path}({i})", errs, limit)
    elif k == "union":
        best = None
        for t in f[1]:
            sub = well_typed(v, t, view, path, [], limit)
            if not sub:
                best = []
                break
            if best is None or len(sub) < len(best):
                best = sub
        if best:
            # report the innermost problem if the value is an instance of one alternative's class
            errs.append((f"union-field-holds-no-alternative:{type(v).__name__}", path, repr(v)[:60]))
    elif k == "class":
        c = f[1]
        if not isinstance(v, c):
            errs.append((f"{'abstract' if is_abs(c) else 'class'}-field-holds-{type(v).__name__}", path, repr(v)[:60]))
        elif is_abs(type(v)) or type(v) not in view.supplied:
            errs.append(("node-of-unregistered-or-abstract-class", path, type(v).__name__))
        else:
            for n, t in fields_of(type(v)):
                if not hasattr(v, n):
                    errs.append(("node-missing-field", f"{path}.{n}", type(v).__name__))
                else:
                    well_typed(getattr(v, n), t, view, f"{path}.{n}", errs, limit)
    else:
        errs.append(("unknown-type-form", path, repr(ty)))
    return errs


# ------------------------------------------------------------------------------------------------
# C02: documented predicates of the refinements
def handler_pred(h, v, siblings=None):
    """(ok, handler name, detail) -- documented predicate of handler h on value v.  None if unknown handler."""
    n = type(h).__name__
    try:
        if isinstance(h, IntRange):
            return (type(v) is int and h.min <= v <= h.max, n, f"{v!r} not in [{h.min},{h.max}]")
        if isinstance(h, IntList):
            return (type(v) is int and v in h.elements, n, f"{v!r} not in {h.elements}")
        if isinstance(h, FloatRange):
            return (isinstance(v, float) and h.min <= v <= h.max, n, f"{v!r} not in [{h.min},{h.max}]")
        if isinstance(h, FloatList):
            return (isinstance(v, float) and v in h.elements, n, f"{v!r} not in {h.elements}")
        if isinstance(h, VarRange):
            return (v in h.options, n, f"{v!r} not in {h.options}")
        if isinstance(h, LIST_SIZE_HANDLERS):
            return (isinstance(v, list) and h.min <= len(v) <= h.max, n, f"len {len(v) if hasattr(v, '__len__') else '?'} not in [{h.min},{h.max}]")
        if isinstance(h, StringSizeBetween):
            ok = isinstance(v, str) and h.min <= len(v) <= h.max and all(ch in h.options for ch in v)
            return (ok, n, f"{v!r} not a string of length [{h.min},{h.max}] over {''.join(h.options)[:12]}")
        if isinstance(h, WeightedStringHandler):
            rows = [list(r) for r in h.probability_matrix]
            ok = isinstance(v, str) and len(v) == len(rows) and all(ch in h.alphabet for ch in v)
            if ok:
                for ch, row in zip(v, rows):
                    w = row[list(h.alphabet).index(ch)]
                    if w <= 0 and any(x > 0 for x in row):
                        ok = False
            return (ok, n, f"{v!r} not of length {len(rows)} over {list(h.alphabet)} with positive position weights")
        if isinstance(h, IntervalRange):
            ok = (
                isinstance(v, tuple)
                and len(v) == 2
                and all(type(x) is int for x in v)
                and h.minimum_length <= v[1] - v[0] <= h.maximum_length
                and 0 <= v[0]
                and v[1] <= h.maximum_top_limit
            )
            return (ok, n, f"{v!r} not an interval of length [{h.minimum_length},{h.maximum_length}] within [0,{h.maximum_top_limit}]")
        if isinstance(h, Dependent):
            sib = siblings or {}
            names = h.name.split(",")
            if not all(x in sib for x in names):
                return None
            inner = h.callable(*[sib[x] for x in names])
            r = handler_pred(inner, v, siblings)
            if r is None:
                return None
            return (r[0], f"Dependent({h.name})->{r[1]}", r[2] + f" with {dict((x, sib[x]) for x in names)}")
    except Exception as ex:  # malformed value: predicate is false
        return (False, n, f"{v!r}: {type(ex).__name__}")
    return None


def refined(v, ty, siblings=None, path="$", errs=None, limit=6):
    """Appends (handler, path, detail) for every refined position of value v (declared type ty) that does not
    satisfy the documented predicate.  Positions whose value is ill-typed are skipped (C01's business)."""
    if errs is None:
        errs = []
    if len(errs) >= limit:
        return errs
    f = form(ty)
    k = f[0]
    if k == "ann":
        for h in f[2]:
            r = handler_pred(h, v, siblings)
            if r is not None and not r[0]:
                errs.append((r[1], path, r[2]))
        refined(v, f[1], siblings, path, errs, limit)
    elif k == "list":
        if isinstance(v, list):
            for i, e in enumerate(v):
                refined(e, f[1], None, f"{path}[{i}]", errs, limit)
    elif k == "tuple":
        if isinstance(v, tuple) and len(v) == len(f[1]):
            for i, (e, t) in enumerate(zip(v, f[1])):
                refined(e, t, None, f"{path}({i})", errs, limit)
    elif k == "union":
        best = None
        for t in f[1]:
            tf = form(t)
            # only alternatives the value is plausibly an instance of
            base = tf[1] if tf[0] in ("ann",) else t
            bf = form(base)
            if bf[0] == "base" and type(v) is not bf[1]:
                continue
            if bf[0] == "class" and not isinstance(v, bf[1]):
                continue
            sub = refined(v, t, siblings, path, [], limit)
            if best is None or len(sub) < len(best):
                best = sub
        if best:
            errs.extend(best)
    elif k == "class" and f[1] not in BASES:
        if isinstance(v, f[1]) and not isinstance(v, type):
            sib = {}
            for n, t in fields_of(type(v)):
                if hasattr(v, n):
                    x = getattr(v, n)
                    refined(x, t, dict(sib), f"{path}.{n}", errs, limit)
                    sib[n] = x
    return errs


# ------------------------------------------------------------------------------------------------
# C04: independent bounded-language enumerator (structures in rt.common.structure() format)
class NotFinite(Exception):
    pass


class TooBig(Exception):
    pass


def _bstruct(v):
    if isinstance(v, float):
        return ("float", repr(v))
    return (type(v).__name__, v)


def _bvalue(s):
    if s[0] == "float":
        return float(s[1])
    return s[1]


class Lang:
    def __init__(self, view: GrammarView, cap=20000):
        self.view = view
        self.cap = cap
        self.memo: dict = {}

    def _handler_values(self, h, base, d, siblings):
        """all values (as structures) of Annotated[base, h] at node budget d"""
        if isinstance(h, IntRange):
            return [("int", x) for x in range(h.min, h.max + 1)]
        if isinstance(h, (IntList,)):
            return [("int", x) for x in dict.fromkeys(h.elements)]
        if isinstance(h, FloatList):
            return [_bstruct(float(x)) for x in dict.fromkeys(h.elements)]
        if isinstance(h, FloatRange):
            if h.min == h.max:
                return [_bstruct(float(h.min))]
            raise NotFinite("FloatRange")
        if isinstance(h, VarRange):
            return [_bstruct(x) for x in dict.fromkeys(h.options)]
        if isinstance(h, LIST_SIZE_HANDLERS):
            bf = form(base)
            if bf[0] != "list":
                raise NotFinite("list handler on non-list")
            elems = self.of(bf[1], d)
            out = []
            for n in range(h.min, h.max + 1):
                if n > 0 and not elems:
                    continue
                if len(elems) ** n + len(out) > self.cap:
                    raise TooBig()
                for combo in itertools.product(elems, repeat=n):
                    out.append(("list",) + combo)
            return out
        if isinstance(h, StringSizeBetween):
            opts = list(dict.fromkeys(h.options))
            out = []
            for n in range(h.min, h.max + 1):
                if len(opts) ** n + len(out) > self.cap:
                    raise TooBig()
                for combo in itertools.product(opts, repeat=n):
                    out.append(("str", "".join(combo)))
            return out
        if isinstance(h, WeightedStringHandler):
            per = []
            for row in h.probability_matrix:
                row = list(row)
                if any(x > 0 for x in row):
                    per.append([a for a, w in zip(h.alphabet, row) if w > 0])
                else:
                    per.append(list(h.alphabet))
            return [("str", "".join(c)) for c in itertools.product(*per)]
        if isinstance(h, IntervalRange):
            out = []
            for ln in range(h.minimum_length, h.maximum_length + 1):
                for s in range(0, h.maximum_top_limit - ln + 1):
                    out.append(("tuple", ("int", s), ("int", s + ln)))
            return out
        if isinstance(h, Dependent):
            names = h.name.split(",")
            inner = h.callable(*[siblings[x] for x in names])
            return self._handler_values(inner, base, d, siblings)
        raise NotFinite(type(h).__name__)

    def of(self, ty, d, siblings=None):
        dep = has_dependent(ty)
        key = (ty, d) if not dep else None
        if key is not None:
            try:
                if key in self.memo:
                    return self.memo[key]
            except TypeError:
                key = None
        f = form(ty)
        k = f[0]
        if k == "base" or (k == "class" and f[1] in BASES):
            if f[1] is bool:
                out = [("bool", True), ("bool", False)]
            else:
                raise NotFinite(f[1].__name__)
        elif k == "ann":
            out = self._handler_values(f[2][0], f[1], d, siblings or {})
        elif k == "list":
            raise NotFinite("un-annotated list")
        elif k == "tuple":
            parts = [self.of(t, d) for t in f[1]]
            n = 1
            for p in parts:
                n *= len(p)
            if n > self.cap:
                raise TooBig()
            out = [("tuple",) + c for c in itertools.product(*parts)]
        elif k == "union":
            out = []
            for t in f[1]:
                for s in self.of(t, d, siblings):
                    if s not in out:
                        out.append(s)
        elif k == "class":
            c = f[1]
            if is_abs(c):
                out = []
                seen = set()
                for p in self.view.prods(c):
                    for s in self.of(p, d):
                        if s not in seen:
                            seen.add(s)
                            out.append(s)
                            if len(out) > self.cap:
                                raise TooBig()
            elif d < 1:
                out = []
            else:
                partial = [((), {})]
                for n, t in fields_of(c):
                    nxt = []
                    fdep = has_dependent(t)
                    shared = None if fdep else self.of(t, d - 1)
                    for combo, sib in partial:
                        vals = shared if shared is not None else self.of(t, d - 1, sib)
                        if len(nxt) + len(vals) > self.cap:
                            raise TooBig()
                        for s in vals:
                            nsib = sib
                            if s[0] in ("int", "float", "str", "bool") and len(s) == 2:
                                nsib = dict(sib)
                                nsib[n] = _bvalue(s)
                            nxt.append((combo + (s,), nsib))
                    partial = nxt
                out = [(c.__qualname__,) + combo for combo, _ in partial]
        else:
            raise NotFinite(repr(ty))
        if len(out) > self.cap:
            raise TooBig()
        if key is not None:
            self.memo[key] = out
        return out


def s_is_base(s):
    return len(s) == 2 and s[0] in ("int", "float", "str", "bool", "NoneType")


def s_is_container(s):
    return s[0] in ("list", "tuple") and not s_is_base(s)


def s_node_children(s):
    """node-structures directly below a node / container structure (containers transparent)"""
    out = []
    for c in s[1:]:
        if not isinstance(c, tuple) or s_is_base(c):
            continue
        if s_is_container(c):
            out.extend(s_node_children(c))
        else:
            out.append(c)
    return out


def s_depth(s):
    if not isinstance(s, tuple) or s_is_base(s):
        return 0
    if s_is_container(s):
        return max([s_depth(c) for c in s[1:]], default=0)
    return 1 + max([s_depth(c) for c in s[1:]], default=0)


def s_all_branches_end_at(s, d):
    """every root-to-leaf chain of nodes has exactly d nodes"""
    kids = s_node_children(s)
    if not kids:
        return d == 1
    return d > 1 and all(s_all_branches_end_at(k, d - 1) for k in kids)


def s_show(s, limit=120):
    def go(x):
        if not isinstance(x, tuple):
            return repr(x)
        if s_is_base(x):
            return repr(x[1])
        if x[0] == "list":
            return "[" + ",".join(go(c) for c in x[1:]) + "]"
        if x[0] == "tuple":
            return "(" + ",".join(go(c) for c in x[1:]) + ")"
        return str(x[0]).split(".")[-1] + "(" + ",".join(go(c) for c in x[1:]) + ")"

    r = go(s)
    return r if len(r) <= limit else r[: limit - 3] + "..."


def show(v, limit=120):
    try:
        return s_show(structure(v), limit)
    except Exception:
        return repr(v)[:limit]


# ------------------------------------------------------------------------------------------------
# C11: metadata oracle
def _dc_children(n):
    return [getattr(n, name) for name, _ in fields_of(type(n)) if hasattr(n, name)]


def meta_oracle(n, leaf_zero=False, lists_ignored=False, tuples_ignored=False, empty_list_dist=1, lists_as_nodes=False):
    """(nodes, dist, weighted, index) of grammar node n by independent traversal.
    nodes: grammar nodes in the subtree, n included, lists/tuples transparent;
    dist: longest downward path in edges to a terminal (base value or field-less node), lists/tuples transparent
          (a field holding an empty list counts `empty_list_dist` edges: both readings are accepted by callers);
    weighted: sum of dist over all grammar nodes of the subtree;
    index: {type: [ids of sub-nodes of exactly that type, n included]}.
    leaf_zero / lists_ignored / tuples_ignored / lists_as_nodes (a list counted like a node of its own)
    reproduce known deviations, used only to *name* a mismatch."""
    kids = _dc_children(n)
    index: dict = {type(n): [id(n)]}
    if not kids:
        return (0 if leaf_zero else 1), 0, 0, index
    acc = {"nodes": 1, "dist": 0, "weighted": 0}

    def absorb(c):
        if is_node(c):
            cn, cd, cw, ci = meta_oracle(c, leaf_zero, lists_ignored, tuples_ignored, empty_list_dist, lists_as_nodes)
            acc["nodes"] += cn
            acc["dist"] = max(acc["dist"], 1 + cd)
            acc["weighted"] += cw
            for k, v in ci.items():
                index.setdefault(k, []).extend(v)
        elif isinstance(c, (list, tuple)):
            ignored = lists_ignored if isinstance(c, list) else tuples_ignored
            if ignored:
                acc["dist"] = max(acc["dist"], 1)
                return
            if lists_as_nodes and isinstance(c, list):
                outer = dict(acc)
                acc.update(nodes=1, dist=1, weighted=0)
                for e in c:
                    absorb(e)
                acc["weighted"] += acc["dist"]
                inner = dict(acc)
                acc.update(nodes=outer["nodes"] + inner["nodes"], dist=max(outer["dist"], inner["dist"]), weighted=outer["weighted"] + inner["weighted"])
                return
            if not c:
                acc["dist"] = max(acc["dist"], empty_list_dist)
            for e in c:
                absorb(e)
        else:
            acc["dist"] = max(acc["dist"], 1)

    for c in kids:
        absorb(c)
    acc["weighted"] += acc["dist"]
    return acc["nodes"], acc["dist"], acc["weighted"], index


def all_nodes(v, out=None, under_list=False):
    """[(node, is_below_a_list)] for all grammar nodes of program v"""
    if out is None:
        out = []
    if is_node(v):
        out.append((v, under_list))
        for c in _dc_children(v):
            all_nodes(c, out, under_list)
    elif isinstance(v, (list, tuple)):
        for e in v:
            all_nodes(e, out, True)
    return out


# ------------------------------------------------------------------------------------------------
# random sources
class SafeSource(RandomSource):
    """Wraps an ExhaustiveSource: normal variates are enumerated from three fixed values instead of going
    through Box-Muller with u1 == 0.0 (log(0) would be an artefact of the enumeration, not of the library)."""

    NORMALS = (-1.5, 0.0, 2.25)

    def __init__(self, inner):
        self.inner = inner

    def randint(self, min, max):
        return self.inner.randint(min, max)

    def random_float(self, min, max):
        return self.inner.random_float(min, max)

    def normalvariate(self, mean, sigma):
        return mean + sigma * self.NORMALS[self.inner.randint(0, len(self.NORMALS) - 1)]


# ------------------------------------------------------------------------------------------------
# representations
DEPTH_LIMITED = ("tree-grow", "tree-full", "tree-pi", "ge", "sge", "dsge")
TREE_REPS = ("tree-grow", "tree-full", "tree-pi", "tree-pt")
ALL_REPS = ("tree-grow", "tree-full", "tree-pi", "tree-pt", "ge", "sge", "dsge", "stack")


def make_rep(name, g, d, src, gene_length=None):
    """Builds the representation; decider construction (validate) happens here and may raise."""
    if name == "tree-grow":
        return TreeBasedRepresentation(g, MaxDepthDecider(src, g, d))
    if name == "tree-full":
        return TreeBasedRepresentation(g, FullDecider(src, g, d))
    if name == "tree-pi":
        return TreeBasedRepresentation(g, PositionIndependentGrowDecider(src, g, d))
    if name == "tree-pt":
        return TreeBasedRepresentation(g, ProgressivelyTerminalDecider(src, g))
    if name == "ge":
        return GrammaticalEvolutionRepresentation(g, MaxDepthDecider(src, g, d), **({"gene_length": gene_length} if gene_length else {}))
    if name == "ge-full":
        return GrammaticalEvolutionRepresentation(g, FullDecider(src, g, d), **({"gene_length": gene_length} if gene_length else {}))
    if name == "ge-pi":
        return GrammaticalEvolutionRepresentation(g, PositionIndependentGrowDecider(src, g, d), **({"gene_length": gene_length} if gene_length else {}))
    if name == "sge":
        return StructuredGrammaticalEvolutionRepresentation(g, MaxDepthDecider(src, g, d), **({"gene_length": gene_length} if gene_length else {}))
    if name == "dsge":
        return DynamicStructuredGrammaticalEvolutionRepresentation(g, d)
    if name == "stack":
        return StackBasedGGGPRepresentation(g, **({"gene_length": gene_length} if gene_length else {}))
    raise ValueError(name)


def create_program(name, g, d, src, gene_length=None):
    rep = make_rep(name, g, d, src, gene_length)
    gt = rep.create_genotype(src)
    return rep.genotype_to_phenotype(gt)


def op_sequence(rep, src, pyrnd, n_ops):
    """create two genotypes, then n_ops variation steps.  Yields (label, phenotype | None, exception | None)
    for every genotype created (label lists the operations that led to it)."""
    pool = []
    for i in range(2):
        try:
            gt = rep.create_genotype(src)
            ph = rep.genotype_to_phenotype(gt)
            pool.append((gt, "create"))
            yield "create", ph, None
        except Exception as ex:  # noqa
            yield "create", None, ex
    for k in range(n_ops):
        if not pool:
            return
        op = pyrnd.choice(("mutate", "crossover"))
        try:
            if op == "mutate" or len(pool) < 2:
                op = "mutate"
                gt, lab = pyrnd.choice(pool)
                new = [(rep.mutate(src, gt), lab + ">mutate")]
            else:
                (g1, l1), (g2, l2) = pyrnd.sample(pool, 2)
                c1, c2 = rep.crossover(src, g1, g2)
                new = [(c1, l1 + ">crossover"), (c2, l2 + ">crossover")]
        except Exception as ex:  # noqa
            yield op, None, ex
            continue
        for gt, lab in new:
            try:
                ph = rep.genotype_to_phenotype(gt)
            except Exception as ex:  # noqa
                yield lab, None, ex
                continue
            pool.append((gt, lab))
            yield lab, ph, None


# ------------------------------------------------------------------------------------------------
# exception classification (stable: exception type + function name, no line numbers / addresses)
def _sym_form(sym):
    f = form(sym)
    if f[0] == "class" and f[1] not in BASES:
        return "abstract" if is_abs(f[1]) else "concrete"
    if f[0] == "ann":
        return "annotated-" + form(f[1])[0]
    return f[0]


def exc_site(ex) -> str:
    frames = []
    tb = ex.__traceback__
    while tb is not None:
        frames.append(tb.tb_frame)
        tb = tb.tb_next
    repo = [f for f in frames if f.f_code.co_filename.startswith(REPO)]
    name = type(ex).__name__
    if not repo:
        return f"{name}@outside-library"
    inner = repo[-1]
    func = getattr(inner.f_code, "co_qualname", inner.f_code.co_name)
    tail = [getattr(f.f_code, "co_name", "") for f in repo[-2:]]
    if "choose_production_alternatives" in tail and name in ("AssertionError", "ZeroDivisionError", "IndexError"):
        cn = [f for f in repo if f.f_code.co_name == "create_node"]
        forms = [_sym_form(f.f_locals.get("starting_symbol")) for f in cn[-2:]]
        return "no-feasible-production[" + "<".join(reversed(forms)) + "]"
    return f"{name}@{func}"


def exc_text(ex) -> str:
    return f"{type(ex).__name__}({str(ex)[:70]!r})".replace("\n", " ")


# ------------------------------------------------------------------------------------------------
# extra grammar family (module-level dataclasses: get_type_hints resolves names in this module)
class EG1(ABC):
    pass


@dataclass
class LitG1(EG1):
    v: Annotated[int, IntRange(5, 9)]


@dataclass
class NegG1(EG1):
    e: EG1


class EG2(ABC):
    pass


@dataclass
class LeafG2(EG2):
    pass


@dataclass
class ManyG2(EG2):
    xs: Annotated[list[EG2], ListSizeBetween(0, 2)]


class EG3(ABC):
    pass


@dataclass
class LeafG3(EG3):
    b: bool


@dataclass
class PairG3(EG3):
    t: tuple[EG3, EG3]


@dataclass
class ItemG4:
    k: Annotated[int, IntRange(1, 2)]


@dataclass
class OtherG4:
    s: Annotated[str, VarRange(["x"])]


@dataclass
class RootG4:
    a: Annotated[int, IntRange(3, 3)]
    b: Annotated[int, IntList([7])]
    f: Annotated[float, FloatRange(0.5, 0.5)]
    q: Annotated[float, FloatList([2.5, 3.5])]
    items: Annotated[list[ItemG4], ListSizeBetween(0, 2)]
    fixed: Annotated[list[ItemG4], ListSizeBetweenWithoutListOperations(2, 2)]
    u: Union[ItemG4, OtherG4]


@dataclass
class RootG5:
    s0: Annotated[str, StringSizeBetween(0, 0, "a")]
    s1: Annotated[str, StringSizeBetween(0, 2, "a")]
    s2: Annotated[str, StringSizeBetween(1, 2, "ab")]
    w: Annotated[str, WeightedStringHandler(np.array([[0.0, 1.0], [0.5, 0.5]]), ["a", "b"])]


@dataclass
class RootG6:
    iv: Annotated[tuple[int, int], IntervalRange(1, 2, 3)]


@dataclass
class RootG7:
    a: Annotated[int, IntRange(0, 2)]
    b: Annotated[int, Dependent("a", lambda a: IntRange(a, 3))]


class EG8(ABC):
    pass


@dataclass
class LeafG8(EG8):
    x: float
    n: Annotated[float, FloatRange(-1.0, 1.0)]


@dataclass
class WrapG8(EG8):
    u: Union[Annotated[int, IntRange(0, 1)], Annotated[int, IntRange(8, 9)]]
    e: EG8


class EG9(ABC):
    pass


@abstract
class MidG9(EG9):
    pass


@dataclass
class LeafG9(MidG9):
    pass


@dataclass
class NodeG9(MidG9):
    l: EG9
    r: MidG9


@dataclass
class IslandG9:
    x: int


@dataclass
class RootG10:
    s: str
    xs: Annotated[list[int], ListSizeBetween(1, 2)]
    bs: list[bool]


class EG11(ABC):
    pass


@dataclass
class LeafG11(EG11):
    f: Annotated[float, FloatRange(0, 9)]  # bounds written as ints: the field must still hold a float


@dataclass
class NegG11(EG11):
    e: EG11


@dataclass
class WindowG13:
    lo: Annotated[int, IntRange(50, 60)]  # same field NAME as the sibling the parents' refinements depend on


@dataclass
class RootG13:
    lo: Annotated[int, IntRange(0, 3)]
    win: WindowG13
    wins: Annotated[list[WindowG13], ListSizeBetween(1, 2)]
    hi: Annotated[int, Dependent("lo", lambda lo: IntRange(lo, lo + 2))]


class AG16(ABC):
    pass


@dataclass
class LeafG16(AG16):
    pass


@dataclass
class Leaf2G16:
    pass


@dataclass
class DG16(AG16):
    x: Leaf2G16  # a NON-recursive production of minimum depth 2 next to a recursive one


@dataclass
class CG16(AG16):
    l: AG16
    r: AG16


# a ring of productions: each can hold the next one or a leaf (a derivation cycle of length 12)
RingLeafG17 = dataclasses.make_dataclass("RingLeafG17", [])
RING_G17 = [dataclasses.make_dataclass(f"Ring{_i}G17", [("nxt", object)]) for _i in range(12)]
for _i, _c in enumerate(RING_G17):
    _t = Union[RING_G17[(_i + 1) % len(RING_G17)], RingLeafG17]
    _c.__annotations__["nxt"] = _t
    _c.__init__.__annotations__["nxt"] = _t
    _c.__dataclass_fields__["nxt"].type = _t
for _c in RING_G17 + [RingLeafG17]:
    _c.__module__ = __name__


class ExprG18(ABC):
    pass


@dataclass
class VarG18(ExprG18):
    pass


@dataclass
class NegG18(ExprG18):
    e: ExprG18


@dataclass
class EmitG18:
    value: Union[int, ExprG18]  # the ONLY road from the start symbol to Expr goes through a field that may also be a base value


@dataclass
class RootG15:
    start: Annotated[int, IntRange(100, 110)]
    width: Annotated[int, IntRange(1, 2)]
    # the dependency names are listed in the REVERSE of the declaration order; the callable's parameters follow the listed order
    pos: Annotated[int, Dependent("width,start", lambda width, start: IntRange(start, start + width))]


class NumG14(ABC):
    pass


@dataclass
class LitG14(NumG14):
    v: Annotated[int, IntRange(0, 3)]


@dataclass
class NegG14(NumG14):
    e: NumG14


@dataclass
class RootG14:
    rows: list[list[NumG14]]  # nested plain lists: the element type of the outer list is itself a list type
    cells: list[Annotated[list[NumG14], ListSizeBetween(1, 2)]]


class EG12(ABC):
    pass


@dataclass
class LeafG12(EG12):
    pass


@dataclass
class PairG12(EG12):
    t: tuple[int, EG12]  # the recursive mention is the SECOND tuple component


# members whose annotations are real objects (not strings re-evaluated on every get_type_hints call): the
# same Annotated[...] object is seen by every part of the library, as in modules without
# `from __future__ import annotations`
class EH1(ABC):
    pass


LitH1 = dataclasses.make_dataclass("LitH1", [("v", Annotated[int, IntRange(5, 9)])], bases=(EH1,))
NegH1 = dataclasses.make_dataclass("NegH1", [("e", EH1)], bases=(EH1,))
RootH2 = dataclasses.make_dataclass(
    "RootH2",
    [
        ("k", Annotated[int, IntList([4, 6])]),
        ("s", Annotated[str, StringSizeBetween(1, 2, "ab")]),
        ("n", Annotated[str, VarRange(["x", "y"])]),
        ("f", Annotated[float, FloatRange(2.0, 3.0)]),
    ],
)
RootH3 = dataclasses.make_dataclass(
    "RootH3",
    [("iv", Annotated[tuple[int, int], IntervalRange(1, 2, 3)]), ("xs", Annotated[list[EH1], ListSizeBetween(1, 2)])],
)
for _c in (LitH1, NegH1, RootH2, RootH3):
    _c.__module__ = __name__


def extra_family():
    """(name, classes, start, description) like rt.common.make_family()"""
    return [
        ("G1-range-5-9", [EG1, LitG1, NegG1], EG1, "leaf with IntRange(5,9) (0 is not allowed) and unary recursion"),
        ("G2-sized-list", [EG2, LeafG2, ManyG2], EG2, "ListSizeBetween(0,2) list of abstract elements (may be empty)"),
        ("G3-tuple-rec", [EG3, LeafG3, PairG3], EG3, "recursion through a tuple[E,E] field; bool leaf"),
        ("G4-refined-mix", [ItemG4, OtherG4, RootG4], RootG4, "boundary int/float refinements, sized lists of refined items, union"),
        ("G5-strings", [RootG5], RootG5, "StringSizeBetween with empty / one-letter alphabets, WeightedStringHandler"),
        ("G6-interval", [RootG6], RootG6, "IntervalRange(1,2,3) on tuple[int,int]"),
        ("G7-dependent", [RootG7], RootG7, "Dependent('a', a -> IntRange(a,3))"),
        ("G8-float-union", [EG8, LeafG8, WrapG8], EG8, "plain float, FloatRange, union of two refined ints"),
        ("G10-plain-base", [RootG10], RootG10, "plain str field, sized list of plain ints, un-annotated list of bools"),
        ("H1-evaluated-range-5-9", [EH1, LitH1, NegH1], EH1, "as G1, annotations held as objects (evaluated once)"),
        ("H2-evaluated-base-refinements", [RootH2], RootH2, "IntList / StringSizeBetween / VarRange / FloatRange, annotations held as objects"),
        ("H3-evaluated-interval-list", [EH1, LitH1, NegH1, RootH3], RootH3, "IntervalRange tuple and sized list, annotations held as objects"),
        ("G11-float-int-bounds", [EG11, LeafG11, NegG11], EG11, "FloatRange(0, 9) with int-written bounds on a float field"),
        ("G12-tuple-rec-second", [EG12, LeafG12, PairG12], EG12, "recursion through the second component of a tuple[int, E] field"),
        ("G16-full-nonrecursive-deep", [AG16, LeafG16, Leaf2G16, DG16, CG16], AG16, "A -> Leaf | D(x: Leaf2) | C(A, A): every abstract type recursive, a non-recursive production of minimum depth 2"),
        ("G17-ring-of-12", RING_G17 + [RingLeafG17], RING_G17[0], "12 productions in a ring, each with a field Union[next, Leaf]: a derivation cycle of length 12"),
        ("G18-symbol-behind-base-union", [ExprG18, VarG18, NegG18, EmitG18], EmitG18, "Emit(value: Union[int, Expr]); Expr -> Var | Neg(e: Expr): Expr is reachable only through a union with a base type"),
        ("G15-dependent-two-siblings", [RootG15], RootG15, "Dependent('width,start', (width, start) -> IntRange(start, start+width)): names listed against the declaration order"),
        ("G14-nested-lists", [NumG14, LitG14, NegG14, RootG14], RootG14, "list[list[E]] and list[Annotated[list[E], ListSizeBetween]] fields"),
        ("G13-dependent-scope", [WindowG13, RootG13], RootG13, "Dependent('lo') with concrete children (direct and in a sized list) that have a field of the same name in between"),
        ("G9-layers-unreachable", [EG9, MidG9, LeafG9, NodeG9, IslandG9], EG9, "two abstract layers, all abstract types recursive, one unreachable class"),
    ]


def full_family():
    from rt.common import make_family

    return list(make_family()) + extra_family()


class Budget:
    """Wall-clock safety net (the bounds themselves are count-based and deterministic)."""

    def __init__(self, seconds):
        self.t0 = time.time()
        self.seconds = seconds
        self.tripped = False

    def left(self):
        return self.seconds - (time.time() - self.t0)

    def over(self):
        if time.time() - self.t0 > self.seconds:
            self.tripped = True
            return True
        return False


import re as _re

_ADDR = _re.compile(r"0x[0-9a-fA-F]{6,}")


class Findings:
    """One violation per key, smallest witness (by `size`) kept."""

    def __init__(self, prop):
        self.prop = prop
        self.best: dict = {}
        self.count: dict = {}

    def add(self, key, what, size=0, unit=None):
        key = f"rt:{self.prop}:{key}"
        what = _ADDR.sub("0x..", what)
        self.count[key] = self.count.get(key, 0) + 1
        if key not in self.best or size < self.best[key][0]:
            self.best[key] = (size, what, unit)

    def violations(self):
        from rt.common import violation

        out = []
        for key in sorted(self.best):
            size, what, unit = self.best[key]
            out.append(violation(key, f"{what} [seen {self.count[key]}x]", unit=unit))
        return out


# ------------------------------------------------------------------------------------------------
# shared exploration: every driver consumes the same kind of cases
@dataclass
class Case:
    member: str
    view: Any
    grammar: Any
    rep: str
    d: int
    how: str  # concrete input: draw script or seed + operation path
    phase: str  # 'construct' | 'create' | 'op'
    program: Any = None
    exc: Any = None
    size: int = 0
    exhaustive_cell: bool = False

    def where(self):
        return f"{self.member}, {self.rep}, max_depth={self.d}, {self.how}"


EXHAUSTIBLE = ("tree-grow", "tree-full", "tree-pi", "tree-pt", "dsge")


def explore(members, reps, depths, seed, exhaustive_runs=0, seeds=0, n_ops=3, gene_grid=0, budget=None, max_draws=120, cell_info=None):
    """Yields Case objects.  depths(view, grammar, rep) -> iterable of max_depth values.
    Per (member, rep, depth) cell: (1) all draw outcomes of create_genotype+genotype_to_phenotype via
    enumerate_outcomes (at most `exhaustive_runs`), (2) `seeds` seeded runs of create x2 followed by `n_ops`
    mutate / crossover steps, (3) for ge: all genotypes of length 3 over range(gene_grid).
    (No constant / short periodic genotypes for the stack mapper: create_tree_using_stacks does not terminate
    on e.g. dna=[0]*8, where the same base type is pushed for ever without a failure being counted.)"""
    for name, classes, start, desc in members:
        view = GrammarView(classes, start)
        for rep in reps:
            try:
                g0 = extract_grammar(list(classes), start)
                ds = list(depths(view, g0, rep))
            except Exception as ex:  # noqa
                yield Case(name, view, None, rep, -1, "extract_grammar", "construct", exc=ex)
                continue
            for d in ds:
                if budget is not None and budget.over():
                    return
                g = extract_grammar(list(classes), start)
                # (1) exhaustive draws
                if exhaustive_runs and rep in EXHAUSTIBLE:
                    phase = {"p": "construct"}

                    def fn(src, phase=phase):
                        s = SafeSource(src)
                        phase["p"] = "construct"
                        r = make_rep(rep, g, d, s)
                        phase["p"] = "create"
                        gt = r.create_genotype(s)
                        return r.genotype_to_phenotype(gt)

                    n = 0
                    broke = False
                    for values, res, exc in enumerate_outcomes(fn, max_runs=exhaustive_runs, max_draws=max_draws):
                        n += 1
                        if isinstance(exc, str):
                            continue
                        if isinstance(exc, (KeyboardInterrupt, SystemExit, MemoryError)):
                            raise exc
                        yield Case(name, view, g, rep, d, f"draws={values}", phase["p"], program=res, exc=exc, size=len(values))
                        if exc is not None and phase["p"] == "construct":
                            broke = True
                            break
                    if cell_info is not None:
                        cell_info.append((name, rep, d, n, (not broke) and bool(getattr(enumerate_outcomes, "last_exhaustive", False))))
                # (2) seeded operation sequences
                for i in range(seeds):
                    sd = seed * 1000 + i
                    src = NativeRandomSource(sd)
                    try:
                        r = make_rep(rep, g, d, src)
                    except Exception as ex:  # noqa
                        yield Case(name, view, g, rep, d, f"seed={sd}", "construct", exc=ex)
                        break
                    pyrnd = _pyrandom.Random(sd)
                    for lab, ph, ex in op_sequence(r, src, pyrnd, n_ops):
                        yield Case(name, view, g, rep, d, f"seed={sd}, path={lab}", "create" if lab == "create" else "op", program=ph, exc=ex, size=1000 + 10 * lab.count(">"))
                # (3) boundary genotypes
                if gene_grid and rep == "ge":
                    src = NativeRandomSource(seed)
                    try:
                        r = make_rep(rep, g, d, src, gene_length=3)
                    except Exception:
                        r = None
                    if r is not None:
                        for combo in itertools.product(range(gene_grid), repeat=3):
                            try:
                                ph, ex = r.genotype_to_phenotype(_ge.Genotype(list(combo))), None
                            except Exception as e:  # noqa
                                ph, ex = None, e
                            yield Case(name, view, g, rep, d, f"dna={list(combo)}, decider seed={seed}", "create", program=ph, exc=ex, size=500)
