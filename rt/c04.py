"""C04 bounded stand-in: depth-bounded creation reaches exactly the grammar's bounded language.

Oracle: rt.structure_helpers.Lang -- an enumerator of all well-typed, refinement-satisfying programs of depth
<= d, written from the grammar declarations (shares no code with the library).  The real create_genotype is run
over ALL draw outcomes (rt.common.enumerate_outcomes); cells whose enumeration is cut, or that draw from a range
wider than ExhaustiveSource enumerates completely, only get the soundness half.
"""
from __future__ import annotations

from rt.common import result, structure, enumerate_outcomes, ExhaustiveSource
from rt import structure_helpers as H
from rt.structure_helpers import Findings, Budget, GrammarView, Lang, NotFinite, TooBig, s_depth, s_show, s_all_branches_end_at, is_abs


class TrackingSource(H.SafeSource):
    """SafeSource that notes draws from ranges ExhaustiveSource only samples."""

    def __init__(self, inner, flag):
        super().__init__(inner)
        self.flag = flag

    def randint(self, min, max):
        if max - min + 1 > ExhaustiveSource.WIDE:
            self.flag["wide"] = True
        return self.inner.randint(min, max)

    def random_float(self, min, max):
        if max > min:
            self.flag["wide"] = True
        return self.inner.random_float(min, max)

    def normalvariate(self, mean, sigma):
        self.flag["wide"] = True
        return super().normalvariate(mean, sigma)


def produced_set(rep, classes, start, d, max_runs, budget=None):
    """({structure: draws}, errors [(draws, exc)], exhaustive?, rejected exception | None, runs)"""
    g = H.extract_grammar(list(classes), start)
    flag = {"wide": False}
    phase = {"p": "construct"}

    def fn(src):
        s = TrackingSource(src, flag)
        phase["p"] = "construct"
        r = H.make_rep(rep, g, d, s)
        phase["p"] = "create"
        return r.genotype_to_phenotype(r.create_genotype(s))

    out = {}
    errors = []
    runs = 0
    cut = False
    for values, res, exc in enumerate_outcomes(fn, max_runs=max_runs, max_draws=150):
        runs += 1
        if budget is not None and runs % 500 == 0 and budget.over():
            cut = True
            break
        if isinstance(exc, str):
            cut = True
            continue
        if exc is not None:
            if isinstance(exc, (KeyboardInterrupt, SystemExit, MemoryError)):
                raise exc
            if phase["p"] == "construct":
                return out, errors, False, exc, runs, g
            errors.append((values, exc))
            continue
        try:
            st = structure(res)
            hash(st)
        except Exception:
            st = ("unhashable", repr(res)[:80])
        if st not in out:
            out[st] = (values, res)
    exhaustive = (not cut) and bool(getattr(enumerate_outcomes, "last_exhaustive", False)) and not flag["wide"]
    return out, errors, exhaustive, None, runs, g


def why_outside(p, st, view, d):
    errs = H.well_typed(p, view.start, view)
    if errs:
        return "ill-typed", f"{errs[0][0]} at {errs[0][1]}"
    errs = H.refined(p, view.start)
    if errs:
        return "refinement-violated", f"{errs[0][0]} at {errs[0][1]}: {errs[0][2]}"
    if s_depth(st) > d:
        return "too-deep", f"depth {s_depth(st)}"
    return "outside-language", "well-typed, refined and shallow enough, yet not in the independently enumerated language"


def node_types(st, out=None):
    if out is None:
        out = set()
    if isinstance(st, tuple) and not H.s_is_base(st):
        if not H.s_is_container(st):
            out.add(st[0])
        for c in st[1:]:
            node_types(c, out)
    return out


def attribute(m, view, g):
    """names why program m may be unreachable: a node type of m whose reported minimum depth is too high"""
    md_map = view.md_map()
    over = {s.__qualname__: s for s in view.reachable() if g.distanceToTerminal.get(s) != md_map.get(s)}
    hit = [over[t] for t in node_types(m) if t in over]
    if not hit:
        return "other"
    exact = {s: s.__qualname__ not in over for s in view.reachable()}
    causes = sorted({c for c in (H.distance_cause(view, g, s, exact) for s in hit) if c}) or sorted(H.overestimate_causes(view, g)) or ["unattributed"]
    return "reported-minimum-too-high:" + "+".join(causes)


def run(tier: str, seed: int) -> dict:
    thorough = tier == "thorough"
    budget = Budget(380 if thorough else 30)
    F = Findings("C04")
    fam = H.full_family()
    lang_cap = 20000
    max_lang = 20000 if thorough else 1500
    max_runs = 30000 if thorough else 6000
    evaluations = 0
    distinct = set()
    samples = []
    cells = []
    notes = []
    finite = 0
    members = []
    for name, classes, start, desc in fam:
        view = GrammarView(classes, start)
        L = Lang(view, lang_cap)
        md = view.min_depth()
        try:
            L.of(start, md)
        except NotFinite as ex:
            notes.append(f"{name}: not a finite-choice grammar ({ex}); skipped")
            continue
        except TooBig:
            continue
        finite += 1
        abstract_syms = [s for s in view.reachable() if is_abs(s)]
        all_abs_recursive = bool(abstract_syms) and all(s in view.recursive() for s in abstract_syms)
        members.append({"name": name, "classes": classes, "start": start, "view": view, "L": L, "md": md, "rec": all_abs_recursive, "open": True})
    # depth offsets outermost: every grammar is covered at its small depths before any deep cell is started
    for k in range(0, 9 if thorough else 5):
        for m in members:
            if not m["open"] or budget.over():
                continue
            name, classes, start, view, L, md, all_abs_recursive = m["name"], m["classes"], m["start"], m["view"], m["L"], m["md"], m["rec"]
            d = max(1, md - 1) + k
            try:
                lang = L.of(start, d)
            except TooBig:
                m["open"] = False
                continue
            if len(lang) > max_lang:
                m["open"] = False
                continue
            langset = set(lang)
            # ---------------- grow: exactly the bounded language
            for rep in ("tree-grow", "tree-pi", "tree-full"):
                if budget.over():
                    break
                if rep == "tree-full" and not all_abs_recursive:
                    continue
                # full creation as the library's own FullInitializer performs it: FullDecider(max_depth + 1)
                dd = d + 1 if rep == "tree-full" else d
                out, errors, exhaustive, rejected, runs, g = produced_set(rep, classes, start, dd, max_runs, budget)
                evaluations += runs
                cells.append((name, rep, d, runs, exhaustive))
                for st in out:
                    distinct.add((name, st))
                if len(samples) < 8 and out and len(cells) % 5 == 1:
                    samples.append(f"{name}, {rep}, max_depth={d}: {len(out)} distinct programs from {runs} draw sequences, |language|={len(lang)}, e.g. {s_show(next(iter(out)), 50)}")
                where = f"{name}, {rep}, max_depth={d}" + (" (FullDecider(max_depth+1), as FullInitializer does)" if rep == "tree-full" else "")
                if rejected is not None:
                    if lang and rep == "tree-grow":
                        causes = H.overestimate_causes(view, g) or ["unattributed"]
                        F.add(
                            f"grow:unreachable:reported-minimum-too-high:{'+'.join(causes)}",
                            f"{where}: creation rejected with {H.exc_text(rejected)[:80]} but the bounded language has {len(lang)} programs, e.g. {s_show(lang[0], 60)}",
                            size=d * 100,
                        )
                    continue
                for values, exc in ([] if rep == "tree-pi" else errors[:3]):  # pi-grow: only "never leaves the language" is claimed
                    F.add(f"{rep}:error:{H.exc_site(exc)}", f"{where}, draws={values}: raised {H.exc_text(exc)}", size=len(values))
                if rep in ("tree-grow", "tree-pi"):
                    for st, (values, p) in out.items():
                        if st not in langset:
                            kind, detail = why_outside(p, st, view, d)
                            F.add(f"{'grow' if rep == 'tree-grow' else 'pi-grow'}:extra:{kind}", f"{where}, draws={values}: produced {s_show(st, 80)} which is outside the bounded language ({detail})", size=d * 100 + len(values))
                if rep == "tree-grow" and exhaustive and not errors:
                    missing = [s for s in lang if s not in out]
                    if missing:
                        wit = min(missing, key=lambda s: (s_depth(s), len(repr(s))))
                        key = "grow:unreachable:" + attribute(wit, view, g)
                        F.add(key, f"{where}: {len(missing)} of {len(lang)} programs of the bounded language are never produced over all {runs} draw sequences, e.g. {s_show(wit, 80)}", size=d * 100 + len(repr(wit)))
                if rep == "tree-full":
                    expected = {s for s in lang if s_all_branches_end_at(s, d)}
                    if not expected:
                        continue
                    for st, (values, p) in out.items():
                        if st not in expected:
                            if st in langset:
                                F.add("full:branch-ends-before-max-depth", f"{where}, draws={values}: produced {s_show(st, 80)} (depth {s_depth(st)}), not all branches end at depth {d}", size=d * 100 + len(values))
                            else:
                                kind, detail = why_outside(p, st, view, d)
                                F.add(f"full:extra:{kind}", f"{where}, draws={values}: produced {s_show(st, 80)} outside the bounded language ({detail})", size=d * 100 + len(values))
                    if exhaustive and not errors:
                        missing = [s for s in expected if s not in out]
                        if missing:
                            wit = min(missing, key=lambda s: len(repr(s)))
                            F.add("full:unreachable:" + attribute(wit, view, g), f"{where}: {len(missing)} of {len(expected)} full programs are never produced over all {runs} draw sequences, e.g. {s_show(wit, 80)}", size=d * 100 + len(repr(wit)))
                    # direct reading (FullDecider(max_depth=d)): recorded as a note only, see final report
                    out2, err2, ex2, rej2, runs2, _ = produced_set(rep, classes, start, d, min(max_runs, 2000), budget)
                    evaluations += runs2
                    if rej2 is None and out2 and not any(s_all_branches_end_at(s, d) for s in out2):
                        n = f"FullDecider(max_depth=d) used directly yields programs whose branches end at d-1 (e.g. {name}, d={d}: {s_show(next(iter(out2)), 50)}); FullInitializer compensates by passing max_depth+1"
                        if not any(x.startswith("FullDecider(max_depth=d)") for x in notes):
                            notes.append(n)
    n_ex = sum(1 for x in cells if x[4])
    rule = (
        f"{finite} finite-choice family grammars x max_depth from (independent minimum - 1) while |language| <= {max_lang}: the set of programs produced by the real create_genotype over all draw "
        f"outcomes (<= {max_runs} sequences per cell; {n_ex}/{len(cells)} cells exhausted) against an independent enumeration of the bounded language: grow == language (completeness only in exhausted cells), "
        f"pi-grow subset of language, full (FullDecider(max_depth+1) as FullInitializer builds it; grammars whose abstract types are all recursive) == programs all of whose branches end at max_depth"
        + ("; wall-clock budget reached, remaining cells skipped" if budget.tripped else "")
    )
    return result(evaluations, len(distinct), rule, samples, F.violations(), exhaustive=bool(cells) and n_ex == len(cells) and not budget.tripped, cells=len(cells), cells_exhausted=n_ex, notes=notes, budget_tripped=budget.tripped)
