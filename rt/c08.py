"""C08 (bounded stand-in): same seed, same search - within a process and across processes.

A worker script (written to a temp directory, removed afterwards) defines its grammar classes AFTER allocating a
configurable amount of garbage, then runs (algorithm x representation x grammar x seed) configurations and records
the sequence of programs handed to the fitness function plus the returned best program / fitness.

* one process (#0) runs every configuration three times: A (fresh grammar), B (the SAME grammar object again, fresh
  source and representation), C (fresh grammar).  A/C and A/B must agree.  (It is a subprocess too, so that a library
  hang - the stack mapper can loop without bound - cannot take the driver down; each configuration runs under a 6 s alarm
  and a run stopped by it is only compared on the common prefix of evaluated programs.)
* 4-6 further processes run the same configurations once, with different PYTHONHASHSEED, different amounts of garbage
  allocated before the classes exist, and library import before / after the garbage; all recorded sequences must agree.
Differences are attributed automatically where the evidence is in the data: programs that only differ in an object
address inside a generated `str`, stack mappings whose symbol-set order differs between the processes, reruns on a
grammar object that the first run modified.
"""
from __future__ import annotations

import json
import os
import re
import shutil
import subprocess
import sys
import tempfile

from rt.common import REPO, result, violation
from rt.heap_helpers import Clock, short

WORKER = r'''
import os, sys, json, zlib
_N = int(os.environ.get("C08_GARBAGE", "0"))
_IMPORT_FIRST = os.environ.get("C08_IMPORT_FIRST", "0") == "1"
sys.path.insert(0, os.environ.get("PYVC_REPO", "/repo"))
if _IMPORT_FIRST:
    import geneticengine.algorithms.gp.gp  # noqa
_garbage = []
for _i in range(_N):
    _k = _i % 7
    _garbage.append([object(), {"k": _i}, (_i, _k), str(_i) * _k, bytearray(_k * 13 + 1), [None] * _k])
    if _i % 97 == 0:
        _garbage.append(type("G%d" % _i, (), {"x": _i}))

from abc import ABC
from dataclasses import dataclass, is_dataclass, fields as dc_fields
from typing import Annotated, Union

from geneticengine.grammar.grammar import extract_grammar
from geneticengine.grammar.decorators import abstract
from geneticengine.grammar.metahandlers.ints import IntRange, IntList
from geneticengine.grammar.metahandlers.vars import VarRange
from geneticengine.grammar.metahandlers.lists import ListSizeBetween
from geneticengine.grammar.metahandlers.dependent import Dependent
from geneticengine.random.sources import NativeRandomSource
from geneticengine.problems import SingleObjectiveProblem
from geneticengine.evaluation.budget import EvaluationBudget
from geneticengine.algorithms.gp.gp import GeneticProgramming
from geneticengine.algorithms.random_search import RandomSearch
from geneticengine.algorithms.hill_climbing import HC
from geneticengine.algorithms.one_plus_one import OnePlusOne
from geneticengine.representations.tree.initializations import (
    MaxDepthDecider, FullDecider, PositionIndependentGrowDecider, ProgressivelyTerminalDecider)
from geneticengine.representations.tree.treebased import TreeBasedRepresentation
from geneticengine.representations.grammatical_evolution.ge import GrammaticalEvolutionRepresentation
from geneticengine.representations.grammatical_evolution.structured_ge import StructuredGrammaticalEvolutionRepresentation
from geneticengine.representations.grammatical_evolution.dynamic_structured_ge import DynamicStructuredGrammaticalEvolutionRepresentation
from geneticengine.representations.stackgggp import StackBasedGGGPRepresentation


# ---- grammar classes: defined after the garbage above ------------------------------------------------
class E1(ABC):
    pass

@dataclass
class Lit1(E1):
    v: Annotated[int, IntRange(0, 9)]

@dataclass
class Add1(E1):
    l: E1
    r: E1

class E2(ABC):
    pass

@dataclass
class Leaf2(E2):
    pass

@dataclass
class Many2(E2):
    xs: list[E2]

class R3(ABC):
    pass

@abstract
class S3(R3):
    pass

@dataclass
class A3(S3):
    pass

@dataclass
class B3(S3):
    x: R3

@dataclass
class C3(R3):
    u: Union[A3, B3]

class E4(ABC):
    pass

@dataclass
class Lit4(E4):
    v: int

@dataclass
class Neg4(E4):
    x: E4

@dataclass
class Add4(E4):
    l: E4
    r: E4

class X5(ABC):
    pass

class Y5(ABC):
    pass

@dataclass
class XL5(X5):
    k: Annotated[int, IntList([1, 5])]

@dataclass
class XY5(X5):
    y: Y5

@dataclass
class YX5(Y5):
    xs: Annotated[list[X5], ListSizeBetween(1, 2)]

class E6(ABC):
    pass

@dataclass
class Leaf6(E6):
    b: bool
    f: float

@dataclass
class Node6(E6):
    x: E6
    n: Annotated[str, VarRange(["x", "y", "z"])]

class E7(ABC):
    pass

@dataclass
class Leaf7(E7):
    s: str

@dataclass
class Node7(E7):
    x: E7

class E8(ABC):
    pass

@dataclass
class Good8(E8):
    v: Annotated[int, IntRange(0, 3)]

@dataclass
class Bad8(E8):
    a: Annotated[int, IntRange(0, 1)]
    name: Annotated[str, Dependent("a", lambda a: VarRange(["x"] if a else []))]

@dataclass
class Wrap8(E8):
    l: E8
    r: E8

GRAMMARS = {
    "W1-arith-refined": ([E1, Lit1, Add1], E1, "Lit(v:IntRange(0,9)) | Add(l,r)"),
    "W2-list": ([E2, Leaf2, Many2], E2, "Leaf | Many(xs:list[E])"),
    "W3-union": ([R3, S3, A3, B3, C3], R3, "nested abstract S(A|B(x)) | C(u:Union[A,B])"),
    "W4-arith-plain": ([E4, Lit4, Neg4, Add4], E4, "Lit(v:int) | Neg(x) | Add(l,r)"),
    "W5-mutual": ([X5, Y5, XL5, XY5, YX5], X5, "XL(k:IntList) | XY(y) ; YX(xs:ListSizeBetween(1,2))"),
    "W6-base": ([E6, Leaf6, Node6], E6, "Leaf(b:bool,f:float) | Node(x, n:VarRange)"),
    "W7-str": ([E7, Leaf7, Node7], E7, "Leaf(s:str) | Node(x)"),
    "W8-infeasible": ([E8, Good8, Bad8, Wrap8], E8, "Good | Bad(a, name:Dependent(a -> VarRange(['x'] if a else []))) | Wrap(l,r)"),
}
DECIDERS = {"MaxDepth": MaxDepthDecider, "Full": FullDecider, "PIGrow": PositionIndependentGrowDecider}


def is_node(v):
    return is_dataclass(v) and not isinstance(v, type)


def render(v, d=0):
    if d > 150:
        return "<deep>"
    if is_node(v):
        return type(v).__name__ + "(" + ", ".join(render(getattr(v, f.name), d + 1) for f in dc_fields(v)) + ")"
    if isinstance(v, list):
        return "[" + ", ".join(render(c, d + 1) for c in v) + "]"
    if isinstance(v, tuple):
        return "(" + ", ".join(render(c, d + 1) for c in v) + ")"
    if isinstance(v, (bool, int, float, str)) or v is None:
        return repr(v)
    return "<" + type(v).__name__ + ">"


def count(v):
    if is_node(v):
        return 1 + sum(count(getattr(v, f.name)) for f in dc_fields(v))
    if isinstance(v, (list, tuple)):
        return sum(count(c) for c in v)
    return 0


def label(x):
    if hasattr(x, "__metadata__"):
        return "Annotated[%s,%r]" % (getattr(x.__origin__, "__name__", x.__origin__), x.__metadata__[0])
    return getattr(x, "__name__", None) or repr(x).replace("__main__.", "")


def gsnap(g):
    return {getattr(k, "__name__", repr(k)): [x.__name__ for x in v] for k, v in g.alternatives.items()}


def build_rep(kind, g, r, decider, gene_length):
    md = g.get_min_tree_depth() + 3
    mk = lambda: (ProgressivelyTerminalDecider(r, g) if decider == "ProgTerminal" else DECIDERS[decider](r, g, md))
    if kind == "Tree":
        return TreeBasedRepresentation(g, mk())
    if kind == "GE":
        return GrammaticalEvolutionRepresentation(g, mk(), gene_length)
    if kind == "SGE":
        return StructuredGrammaticalEvolutionRepresentation(g, mk(), gene_length)
    if kind == "dSGE":
        return DynamicStructuredGrammaticalEvolutionRepresentation(g, md)
    if kind == "Stack":
        return StackBasedGGGPRepresentation(g, max(64, gene_length * 4))
    raise ValueError(kind)


def run_config(cfg, grammar=None):
    classes, start, _ = GRAMMARS[cfg["grammar"]]
    g = grammar if grammar is not None else extract_grammar(classes, start)
    before = gsnap(g)
    out = {"seq": [], "best": None, "fitness": None, "error": None, "nodes": 0}
    try:
        out["symbol_order"] = [label(x) for x in g.get_all_mentioned_symbols()] if cfg["rep"] == "Stack" else None
        r = NativeRandomSource(cfg["seed"])
        rep = build_rep(cfg["rep"], g, r, cfg.get("decider", "MaxDepth"), cfg.get("gene_length", 16))

        def fitness(p):
            s = render(p)
            out["seq"].append(s)
            out["nodes"] = max(out["nodes"], count(p))
            return count(p) % 7 + (zlib.crc32(s.encode()) % 997) / 997.0

        problem = SingleObjectiveProblem(fitness)
        budget = EvaluationBudget(cfg.get("budget", 40))
        alg = cfg["alg"]
        if alg == "GP":
            a = GeneticProgramming(problem, budget, rep, random=r, population_size=cfg.get("pop", 10))
        elif alg == "RS":
            a = RandomSearch(problem, budget, rep, random=r)
        elif alg == "HC":
            a = HC(problem, budget, rep, random=r, number_of_mutations=3)
        elif alg == "1+1":
            a = OnePlusOne(problem, budget, rep, random=r)
        else:
            raise ValueError(alg)
        best = a.search()
        out["best"] = render(best.get_phenotype())
        f = best.get_fitness(problem)
        out["fitness"] = [repr(f.maximizing_aggregate), [repr(c) for c in f.fitness_components]]
    except BaseException as ex:  # noqa
        out["error"] = type(ex).__name__
        out["error_text"] = str(ex)[:120]
    out["grammar_changed"] = None if gsnap(g) == before else [before, gsnap(g)]
    return out, g


class _Timeout(BaseException):
    pass


def _alarm(signum, frame):
    raise _Timeout()


def guarded(cfg, grammar=None, limit=6.0):
    """run_config under a per-configuration alarm (the stack mapper can loop forever for some symbol orders)."""
    import signal
    signal.signal(signal.SIGALRM, _alarm)
    signal.setitimer(signal.ITIMER_REAL, limit, 0.5)
    try:
        return run_config(cfg, grammar)
    except _Timeout:  # raised outside run_config's own handler
        return {"seq": [], "best": None, "fitness": None, "error": "_Timeout", "nodes": 0, "grammar_changed": None}, grammar
    finally:
        signal.setitimer(signal.ITIMER_REAL, 0)


def main():
    configs = json.load(open(sys.argv[1]))
    mode = sys.argv[3] if len(sys.argv) > 3 else "single"
    with open(sys.argv[2], "w") as fh:
        fh.write(json.dumps({"desc": {k: v[2] for k, v in GRAMMARS.items()}}) + "\n")
        for i, cfg in enumerate(configs):
            a, g = guarded(cfg)
            rec = {"i": i, "a": a}
            if mode == "triple":  # three runs in ONE process: fresh grammar / same grammar object / fresh grammar
                rec["b"], _ = guarded(cfg, grammar=g)
                rec["c"], _ = guarded(cfg)
            fh.write(json.dumps(rec) + "\n")
            fh.flush()


if __name__ == "__main__":
    main()
'''

ADDR = re.compile(r"0x[0-9a-fA-F]+")
GENSTR = re.compile(r"<generator object (\w+)\.random_str\.<locals>\.<genexpr> at 0x[0-9a-fA-F]+>")

ALGS = ["GP", "RS", "HC", "1+1"]
REPS = ["Tree", "GE", "SGE", "dSGE", "Stack"]
GRAMS = ["W1-arith-refined", "W2-list", "W3-union", "W4-arith-plain", "W5-mutual", "W6-base", "W7-str", "W8-infeasible"]
GDESC = {}


def _timed_out(*runs):
    return any(r["error"] == "_Timeout" for r in runs)


def _same(a, b, norm=False):
    """Full observable equality; if either run hit the per-configuration alarm only the common prefix of the evaluated
    programs is compared (a timing effect must never look like nondeterminism)."""
    f = (lambda x: ADDR.sub("0x?", x or "")) if norm else (lambda x: x)
    sa, sb = [f(x) for x in a["seq"]], [f(x) for x in b["seq"]]
    if _timed_out(a, b):
        n = min(len(sa), len(sb))
        return sa[:n] == sb[:n]
    return sa == sb and f(a["best"]) == f(b["best"]) and a["error"] == b["error"] and (norm or a["fitness"] == b["fitness"])


def _first_diff(a, b):
    """Index and the two differing programs (or the differing result) of two runs."""
    sa, sb = a["seq"], b["seq"]
    for i, (x, y) in enumerate(zip(sa, sb)):
        if x != y:
            return f"evaluation #{i}: {short(x, 110)} vs {short(y, 110)}"
    if len(sa) != len(sb):
        return f"{len(sa)} vs {len(sb)} evaluations (common prefix equal; outcomes {a['error'] or 'ok'} / {b['error'] or 'ok'})"
    if a["best"] != b["best"]:
        return f"best program {short(a['best'], 100)} vs {short(b['best'], 100)}"
    if a["fitness"] != b["fitness"]:
        return f"best fitness {a['fitness']} vs {b['fitness']}"
    return f"outcome {a['error']} vs {b['error']}"


def _cfg_text(c):
    return f"{c['alg']} x {c['rep']}({c.get('decider', 'MaxDepth')}) on {c['grammar']} [{GDESC.get(c['grammar'], '')}], seed={c['seed']}, EvaluationBudget({c['budget']}), population 10"


def _read(path):
    """Lines a worker managed to write (it flushes after every configuration)."""
    recs = {}
    try:
        with open(path) as fh:
            for line in fh:
                try:
                    d = json.loads(line)
                except ValueError:
                    break
                if "desc" in d:
                    GDESC.update(d["desc"])
                else:
                    recs[d["i"]] = d
    except OSError:
        pass
    return recs


STATIC_ALLOW = {
    # (file suffix, function): mutable defaults of the synthetic-grammar generator (a utility outside every search)
    ("geneticengine/grammar/synthetic_grammar.py", "create_dataclass_dynamically"),
    ("geneticengine/grammar/synthetic_grammar.py", "create_arbitrary_grammar"),
}


_ORDER_FREE = {"set", "frozenset", "sorted", "len", "any", "all", "min", "max", "sum"}


def _is_set_expr(e):
    """syntactically a set: literal, comprehension, set(...)/frozenset(...), set algebra over one of those"""
    import ast

    if isinstance(e, (ast.Set, ast.SetComp)):
        return True
    if isinstance(e, ast.Call):
        f = e.func
        if isinstance(f, ast.Name) and f.id in ("set", "frozenset"):
            return True
        if isinstance(f, ast.Attribute) and f.attr in ("union", "intersection", "difference", "symmetric_difference") and _is_set_expr(f.value):
            return True
    if isinstance(e, ast.BinOp) and isinstance(e.op, (ast.Sub, ast.BitOr, ast.BitAnd, ast.BitXor)):
        return _is_set_expr(e.left) or _is_set_expr(e.right)
    return False


def _unordered_iterations(tree):
    """[(line, what)]: places where the iteration order of a syntactic set expression reaches an order-sensitive consumer (a
    for statement, a list / dict / generator comprehension not directly consumed by an order-free function, list() / tuple() /
    .extend() / enumerate() / zip() / join()).  The order of a set of objects follows their addresses and hash seed."""
    import ast

    parents = {}
    for n in ast.walk(tree):
        for c in ast.iter_child_nodes(n):
            parents[c] = n
    out = []
    for n in ast.walk(tree):
        if isinstance(n, (ast.For, ast.AsyncFor)) and _is_set_expr(n.iter):
            out.append((n.lineno, "for statement over " + ast.unparse(n.iter)[:70]))
        if isinstance(n, (ast.ListComp, ast.GeneratorExp, ast.DictComp)):
            for g in n.generators:
                if _is_set_expr(g.iter):
                    p_ = parents.get(n)
                    if isinstance(p_, ast.Call) and isinstance(p_.func, ast.Name) and p_.func.id in _ORDER_FREE:
                        continue
                    out.append((n.lineno, "comprehension over " + ast.unparse(g.iter)[:70]))
        if isinstance(n, ast.Call) and n.args and _is_set_expr(n.args[0]):
            f = n.func
            name = f.id if isinstance(f, ast.Name) else (f.attr if isinstance(f, ast.Attribute) else "")
            if name in ("list", "tuple", "extend", "enumerate", "iter", "next", "zip", "join"):
                out.append((n.lineno, f"{name}(...) of " + ast.unparse(n.args[0])[:70]))
    return out


def static_obligations(report):
    """Program-text obligations over the whole library (complete for what they state, no input needed):
    (1) randomness is drawn only through RandomSource objects -- no call of the process-global generators
        (`random.<f>(...)` of the stdlib module, `numpy.random.<f>(...)`), whose state is not set by the search's seed;
    (2) no parameter default is an object constructed at import time (`def __init__(self, evaluator=SequentialEvaluator())`):
        such an object is shared by every search of the process, so a second identical search starts from other state;
    (3) the iteration order of a syntactic set expression (literal, comprehension, set(...), set algebra) never reaches an
        order-sensitive consumer: that order follows object addresses and the hash seed, which the search's seed does not fix
        (sets returned by functions are outside this syntactic obligation; those are covered by the cross-process replay)."""
    import ast

    n_files = 0
    for base in ("geneticengine", "geml"):
        for dp, _dn, fn in os.walk(os.path.join(REPO, base)):
            for f in fn:
                if not f.endswith(".py"):
                    continue
                path = os.path.join(dp, f)
                rel = os.path.relpath(path, REPO)
                try:
                    tree = ast.parse(open(path).read())
                except SyntaxError:
                    continue
                n_files += 1
                for ln_, what_ in _unordered_iterations(tree):
                    report(f"rt:C08:static:unordered-iteration:{rel}:{what_.split(' ')[0]}", (0, 1), f"{rel}:{ln_}: {what_} -- the order of a set follows object addresses / the hash seed, not the search's seed", rel)
                std_random, np_names = set(), set()
                for n in ast.walk(tree):
                    if isinstance(n, ast.Import):
                        for a in n.names:
                            if a.name == "random":
                                std_random.add(a.asname or "random")
                            if a.name in ("numpy", "numpy.random"):
                                np_names.add(a.asname or a.name.split(".")[0])
                    if isinstance(n, ast.ImportFrom) and n.module in ("random", "numpy.random"):
                        for a in n.names:
                            if a.name not in ("Random", "default_rng", "RandomState", "Generator", "SystemRandom"):
                                report(f"rt:C08:static:global-rng:{rel}:{a.name}", (0, 1), f"{rel}:{n.lineno}: `from {n.module} import {a.name}` -- a function of the process-global random generator, not driven by the search's seeded RandomSource", rel)
                for n in ast.walk(tree):
                    if isinstance(n, ast.Call):
                        f_ = n.func
                        chain = []
                        while isinstance(f_, ast.Attribute):
                            chain.append(f_.attr)
                            f_ = f_.value
                        if isinstance(f_, ast.Name):
                            chain.append(f_.id)
                            chain.reverse()
                            glob = (chain[0] in std_random and len(chain) == 2 and chain[1] not in ("Random", "SystemRandom")) or (
                                chain[0] in np_names and len(chain) >= 3 and chain[1] == "random" and chain[-1] not in ("default_rng", "RandomState", "Generator")
                            )
                            if glob:
                                report(f"rt:C08:static:global-rng:{rel}:{'.'.join(chain)}", (0, 1), f"{rel}:{n.lineno}: call of {'.'.join(chain)}(...) -- the process-global random generator, whose state the search's seed does not determine", rel)
                    if isinstance(n, (ast.FunctionDef, ast.AsyncFunctionDef)):
                        if (rel, n.name) in STATIC_ALLOW:
                            continue
                        for d in list(n.args.defaults) + [d for d in n.args.kw_defaults if d is not None]:
                            if isinstance(d, ast.Call):
                                callee = ast.unparse(d.func)
                                if callee.split(".")[-1][:1].isupper():
                                    report(f"rt:C08:static:shared-default-object:{rel}:{n.name}", (0, 1), f"{rel}:{n.lineno}: parameter default `{ast.unparse(d)[:60]}` of {n.name} is constructed once at import and shared by every call (state carried from one search into the next)", rel)
    return n_files


def run(tier: str, seed: int) -> dict:
    quick = tier != "thorough"
    clock = Clock(24 if quick else 300)
    tmp = tempfile.mkdtemp(prefix="rt_c08_")
    found = {}
    samples = []
    notes = []
    evaluations = 0
    programs = set()
    n_sub_ok = 0
    timeouts = 0
    try:
        worker_path = os.path.join(tmp, "c08_worker.py")
        with open(worker_path, "w") as fh:
            fh.write(WORKER)

        # ---- configurations ------------------------------------------------------------------
        configs = []
        seeds = [seed * 31 + 1 + i for i in range(2 if quick else 8)]
        for sd in seeds:
            for gi, gname in enumerate(GRAMS):
                for ai, alg in enumerate(ALGS):
                    for ri, rep in enumerate(REPS):
                        if gname == "W8-infeasible" and rep == "Stack":
                            continue  # Dependent.validate is unimplemented: the stack mapper cannot run on it at all
                        dec = ["MaxDepth", "Full", "PIGrow", "ProgTerminal"][(ai + ri + gi + sd) % 4] if sd != seeds[0] else "MaxDepth"
                        configs.append({"alg": alg, "rep": rep, "grammar": gname, "seed": sd, "budget": 40 if quick else 60, "pop": 10, "gene_length": 16, "decider": dec})

        def report(key, rank, what, unit):
            if key not in found or rank < found[key][0]:
                found[key] = (rank, what, unit)

        # ---- processes: #0 runs every configuration three times in ONE process, the others once each -----------
        envs = [("random", 0, 0, "triple"), ("0", 0, 0, "single"), ("1", 1500, 0, "single"), ("4242", 7001, 1, "single"), ("random", 311, 0, "single")]
        if not quick:
            envs += [("987654", 40009, 1, "single"), ("random", 20, 0, "single")]
        cfg_path = os.path.join(tmp, "configs.json")
        json.dump(configs, open(cfg_path, "w"))
        procs = []
        for i, (hs, garbage, imp_first, mode) in enumerate(envs):
            env = dict(os.environ)
            env.update(PYTHONHASHSEED=hs, C08_GARBAGE=str(garbage), C08_IMPORT_FIRST=str(imp_first), PYVC_REPO=REPO)
            env.pop("PYTHONPATH", None)
            outp = os.path.join(tmp, f"out_{i}.jsonl")
            p = subprocess.Popen([sys.executable, worker_path, cfg_path, outp, mode], env=env, cwd=tmp, stdout=subprocess.DEVNULL, stderr=subprocess.PIPE)
            label = f"process {i} (PYTHONHASHSEED={hs}, {garbage} garbage blocks before the classes, library imported {'before' if imp_first else 'after'} them)"
            procs.append((p, outp, label, mode))
        outs = []
        for p, outp, label, mode in procs:
            try:
                _, err = p.communicate(timeout=max(2, clock.left()))
                if p.returncode != 0:
                    notes.append(f"{label}: exit {p.returncode}: {short(err.decode(errors='replace')[-200:], 200)}; configurations finished before that are used")
            except subprocess.TimeoutExpired:
                p.kill()
                p.communicate()
                notes.append(f"{label}: stopped at the time limit; configurations finished before that are used")
            recs = _read(outp)
            if recs:
                n_sub_ok += 1
            outs.append((label, mode, recs))

        # ---- in one process: A (fresh grammar) / B (same grammar object) / C (fresh grammar) -----------------
        label0, _, triple = outs[0]
        for ci, cfg in enumerate(configs):
            if ci not in triple or "c" not in triple[ci]:
                continue
            a, b, c = triple[ci]["a"], triple[ci]["b"], triple[ci]["c"]
            evaluations += len(a["seq"]) + len(b["seq"]) + len(c["seq"])
            timeouts += sum(1 for r in (a, b, c) if r["error"] == "_Timeout")
            for s_ in a["seq"]:
                programs.add((cfg["rep"], cfg["grammar"], s_))
            text = _cfg_text(cfg)
            unit = f"{cfg['alg']}.search/{cfg['rep']}"
            if not _same(a, c):
                if _same(a, c, norm=True):
                    m = GENSTR.search(" ".join(a["seq"]))
                    cls = m.group(1) if m else "decider"
                    report(f"rt:C08:{cls}.random_str-embeds-object-address", (1, len(a["seq"]), ci), f"{text}: two runs in one process differ only in the address inside a generated str field: {_first_diff(a, c)}", unit)
                else:
                    report(f"rt:C08:{cfg['rep']}-in-process-rerun-differs", (0, len(a["seq"]), ci), f"{text}: two identically configured runs (fresh grammar each) in ONE process differ at {_first_diff(a, c)}", unit)
            elif not _same(a, b):
                if a["grammar_changed"] or b["grammar_changed"]:
                    ch = a["grammar_changed"] or b["grammar_changed"]
                    report(
                        "rt:C08:rerun-on-same-grammar-differs-grammar-was-modified",
                        (0, len(a["seq"]), ci),
                        f"{text}: second run on the SAME Grammar object differs at {_first_diff(a, b)}; the first run changed grammar.alternatives from {ch[0]} to {ch[1]} (a rerun on a fresh grammar reproduces run 1)",
                        unit,
                    )
                else:
                    report(f"rt:C08:{cfg['rep']}-rerun-on-same-grammar-differs", (0, len(a["seq"]), ci), f"{text}: second run on the same Grammar object differs at {_first_diff(a, b)}", unit)
            elif len(samples) < 4 and a["error"] is None and a["nodes"] > 2 and cfg["rep"] not in {s["rep"] for s in samples}:
                samples.append({"config": text, "rep": cfg["rep"], "evaluations": len(a["seq"]), "best": short(a["best"], 80), "verdict": "3 runs in one process identical"})

        # ---- across processes -----------------------------------------------------------------------------------
        for ci, cfg in enumerate(configs):
            runs = [(label, recs[ci]["a"]) for label, mode, recs in outs if ci in recs]
            if len(runs) < 2:
                continue
            evaluations += sum(len(r["seq"]) for _, r in runs[1:])
            timeouts += sum(1 for _, r in runs[1:] if r["error"] == "_Timeout")
            base_label, base = runs[0]
            text = _cfg_text(cfg)
            unit = f"{cfg['alg']}.search/{cfg['rep']}"
            bad = [(label, r) for label, r in runs[1:] if not _same(base, r)]
            if not bad:
                if len(samples) < 8 and base["error"] is None and base["nodes"] > 2 and len(runs) > 2 and (cfg["rep"], "x") not in {(s["rep"], s.get("x")) for s in samples}:
                    samples.append({"config": text, "rep": cfg["rep"], "x": "x", "evaluations": len(base["seq"]), "best": short(base["best"], 80), "verdict": f"identical in {len(runs)} processes"})
                continue
            label, r = bad[0]
            both_ran = bool(base["seq"] and r["seq"] and base["error"] is None and r["error"] is None)
            if _same(base, r, norm=True):
                m = GENSTR.search(" ".join(base["seq"]) + " ".join(r["seq"]))
                cls = m.group(1) if m else "decider"
                report(
                    f"rt:C08:{cls}.random_str-embeds-object-address",
                    (0, len(base["seq"]), ci),
                    f"{text}: the evaluated programs differ between processes only in an object address inside a generated str field: {_first_diff(base, r)} ({base_label} vs {label})",
                    unit,
                )
            elif cfg["rep"] == "Stack" and base.get("symbol_order") != r.get("symbol_order"):
                report(
                    "rt:C08:Stack-mapping-follows-symbol-set-order",
                    (0 if both_ran else 1, len(base["seq"]), ci),
                    f"{text}: {len(bad)} of {len(runs) - 1} other processes evaluate different programs than {base_label}: {_first_diff(base, r)} ({label}); the stack mapper indexes "
                    f"list(grammar.get_all_mentioned_symbols()), a set ordered {base.get('symbol_order')} in the former and {r.get('symbol_order')} in the latter",
                    unit,
                )
            else:
                report(
                    f"rt:C08:{cfg['rep']}-differs-across-processes",
                    (0 if both_ran else 1, len(base["seq"]), ci),
                    f"{text}: {len(bad)} of {len(runs) - 1} other processes differ from {base_label}: {_first_diff(base, r)} ({label})",
                    unit,
                )
    finally:
        shutil.rmtree(tmp, ignore_errors=True)

    def _rep(key, rank, what, unit):
        if key not in found or rank < found[key][0]:
            found[key] = (rank, what, unit)

    n_static = static_obligations(_rep)
    notes.append(f"static obligations (no process-global random generator, no import-time constructed default objects) checked over {n_static} library files")
    if timeouts:
        notes.append(f"{timeouts} runs stopped by the 6 s per-configuration alarm (the stack mapper can loop without bound); for those only the common prefix of evaluated programs was compared")
    violations = [violation(k, v[1], unit=v[2]) for k, v in sorted(found.items())]
    rule = (
        f"sampled: {len(configs)} configurations = {{GP, RandomSearch, HC, 1+1}} x {{Tree, GE, SGE, dSGE, Stack}} x 8 worker grammars x {len(seeds)} seeds, "
        f"EvaluationBudget({configs[0]['budget']}), population 10, gene length 16 (stack 64), deciders MaxDepth/Full/PIGrow/ProgressivelyTerminal; each configuration runs 3x in ONE process "
        f"(fresh grammar / same grammar object / fresh grammar) and once in each of {len(envs) - 1} further processes (PYTHONHASHSEED in {{0,1,4242,987654,random}}, 0..40009 garbage blocks "
        "allocated before the grammar classes are defined, library import before/after); compared: the full sequence of programs given to the fitness function, best program, best fitness, error type"
    )
    return result(
        evaluations,
        len(programs),
        rule,
        samples,
        violations,
        exhaustive=False,
        configurations=len(configs),
        processes_with_results=n_sub_ok,
        notes=notes,
        seconds=round(clock.used(), 1),
    )
