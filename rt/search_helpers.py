"""Shared helpers of the bounded drivers for the search layer (C12-C17, C20).  Never counted as proof.

* IntRep: a stub representation (genotype = phenotype = a fresh serial number) so that trackers, budgets and
  steps can be explored exhaustively without grammars.
* Recorder / CountingBudget / Watchdog: observation points and non-termination detection.
* step specs + Probe: build (nested) GeneticStep trees from small tuples, observe for every node the requested
  size, the population it was given and the number of individuals it yielded, and attribute a wrong count to
  the innermost step that broke its interface contract (`blame`).
"""
from __future__ import annotations

import time

from rt.common import REPO  # noqa: F401  (puts /repo on sys.path)

from geneticengine.representations.api import Representation, RepresentationWithMutation, RepresentationWithCrossover
from geneticengine.solutions.individual import Individual
from geneticengine.problems import SingleObjectiveProblem, MultiObjectiveProblem
from geneticengine.evaluation.recorder import SearchRecorder
from geneticengine.evaluation.budget import SearchBudget
from geneticengine.evaluation.sequential import SequentialEvaluator
from geneticengine.evaluation.tracker import SingleObjectiveProgressTracker, MultiObjectiveProgressTracker
from geneticengine.algorithms.gp.population import Population
from geneticengine.algorithms.gp.structure import GeneticStep
from geneticengine.algorithms.gp.operators.combinators import IdentityStep, SequenceStep, ParallelStep, ExclusiveParallelStep
from geneticengine.algorithms.gp.operators.crossover import GenericCrossoverStep
from geneticengine.algorithms.gp.operators.elitism import ElitismStep
from geneticengine.algorithms.gp.operators.evaluation import EvaluateStep
from geneticengine.algorithms.gp.operators.mutation import GenericMutationStep
from geneticengine.algorithms.gp.operators.novelty import NoveltyStep
from geneticengine.algorithms.gp.operators.selection import TournamentSelection, LexicaseSelection


class Watchdog(Exception):
    """Raised by the stubs when a cap is exceeded: non-termination is detected instead of hanging."""


class Deadline:
    """Wall-clock guard for the exploration loops of a driver (not of the library)."""

    def __init__(self, seconds):
        self.end = time.monotonic() + seconds

    def over(self):
        return time.monotonic() > self.end


class IntRep(Representation, RepresentationWithMutation, RepresentationWithCrossover):
    """genotype = phenotype = a fresh serial number; every create / mutate / crossover is counted."""

    def __init__(self, cap=None, start=0):
        self.next = start
        self.ops = 0
        self.cap = cap

    def fresh(self):
        self.ops += 1
        if self.cap is not None and self.ops > self.cap:
            raise Watchdog(f"representation used more than {self.cap} times")
        v = self.next
        self.next += 1
        return v

    def create_genotype(self, random, **kwargs):
        return self.fresh()

    def genotype_to_phenotype(self, genotype):
        return genotype

    def mutate(self, random, genotype, **kwargs):
        return self.fresh()

    def crossover(self, random, parent1, parent2, **kwargs):
        return (self.fresh(), self.fresh())


class TableFitness:
    """Fitness function reading a table by phenotype (a serial); counts and logs its invocations."""

    def __init__(self, table, cap=None, vector=None):
        self.table = list(table)
        self.calls = []
        self.cap = cap
        self.vector = vector

    def value(self, p):
        return self.table[p % len(self.table)]

    def __call__(self, p):
        self.calls.append(p)
        if self.cap is not None and len(self.calls) > self.cap:
            raise Watchdog(f"fitness function invoked more than {self.cap} times")
        v = self.value(p)
        return self.vector(v) if self.vector is not None else v


class SequenceFitness:
    """Fitness given by the invocation index (landscape(k) for the k-th invocation, k from 1)."""

    def __init__(self, landscape, cap):
        self.landscape = landscape
        self.calls = []
        self.cap = cap

    def __call__(self, p):
        self.calls.append(p)
        if len(self.calls) > self.cap:
            raise Watchdog(f"fitness function invoked more than {self.cap} times")
        return self.landscape(len(self.calls))


class CountingBudget(SearchBudget):
    """Delegates to the budget under test; counts the checks and raises Watchdog after `cap` checks."""

    def __init__(self, inner, cap):
        self.inner = inner
        self.cap = cap
        self.checks = []  # (evaluations at the check, answer)

    def is_done(self, tracker):
        if len(self.checks) >= self.cap:
            raise Watchdog(f"budget checked more than {self.cap} times")
        r = self.inner.is_done(tracker)
        self.checks.append((tracker.get_number_evaluations(), bool(r)))
        return r


class Recorder(SearchRecorder):
    """Records every register call together with the tracker's reported best at that moment."""

    def __init__(self, cap=200000):
        self.log = []  # (individual, is_best, generation, tuple(reported best))
        self.cap = cap

    def register(self, tracker, individual, problem, is_best):
        if len(self.log) >= self.cap:
            raise Watchdog(f"more than {self.cap} registrations")
        if hasattr(tracker, "get_best_individuals"):
            best = tuple(tracker.get_best_individuals())
        else:
            b = tracker.get_best_individual()
            best = (b,) if b is not None else ()
        self.log.append((individual, is_best, individual.metadata.get("generation"), best))


def agg(ind, problem):
    return ind.get_fitness(problem).maximizing_aggregate


def comps(ind, problem):
    return list(ind.get_fitness(problem).fitness_components)


def make_inds(rep, n):
    return [Individual(rep.create_genotype(None), rep) for _ in range(n)]


def single_tracker(problem, recorders=None):
    return SingleObjectiveProgressTracker(problem, SequentialEvaluator(), recorders=recorders)


def multi_tracker(problem, recorders=None):
    return MultiObjectiveProgressTracker(problem, SequentialEvaluator(), recorders=recorders)


def as_form(inds, form, tracker):
    if form == "list":
        return list(inds)
    if form == "population":
        return Population(iter(inds), tracker)
    if form == "generator":
        return (i for i in inds)
    raise ValueError(form)


FORMS = ("list", "population", "generator")


# ------------------------------------------------------------------------------------------------
# step specs: ("elitism",) ("novelty",) ("tournament", size, with_replacement) ("lexicase", epsilon)
# ("mutation", p) ("crossover", p) ("identity",) ("evaluate",) ("seq", [specs]) ("par", [specs], weights)
# ("xpar", [specs], weights)
def spec_name(spec):
    k = spec[0]
    if k == "seq":
        return "S(" + ";".join(spec_name(s) for s in spec[1]) + ")"
    if k in ("par", "xpar"):
        return ("P" if k == "par" else "X") + "(" + "|".join(spec_name(s) for s in spec[1]) + ";w=" + str(list(spec[2])) + ")"
    return k + ("" if len(spec) == 1 else str(tuple(spec[1:])))


CLASS_OF = {
    "elitism": "ElitismStep",
    "novelty": "NoveltyStep",
    "tournament": "TournamentSelection",
    "lexicase": "LexicaseSelection",
    "mutation": "GenericMutationStep",
    "crossover": "GenericCrossoverStep",
    "identity": "IdentityStep",
    "evaluate": "EvaluateStep",
    "seq": "SequenceStep",
    "par": "ParallelStep",
    "xpar": "ExclusiveParallelStep",
}


class CountingIter:
    """A one-shot iterator that counts what is taken from it (still one-shot, as the original)."""

    def __init__(self, it):
        self.it = iter(it)
        self.n = 0
        self.exhausted = False

    def __iter__(self):
        return self

    def __next__(self):
        try:
            v = next(self.it)
        except StopIteration:
            self.exhausted = True
            raise
        self.n += 1
        return v


class Node:
    def __init__(self, spec):
        self.spec = spec
        self.cls = CLASS_OF[spec[0]]
        self.children = []
        self.calls = []  # dicts: k, form, avail, yielded, exc

    def last(self):
        return self.calls[-1] if self.calls else None


class Probe(GeneticStep):
    """Transparent observer around a real step: same population object is handed on (one-shot iterators are
    wrapped in a counting one-shot iterator), the requested size and the yielded count are recorded."""

    def __init__(self, inner, node):
        self.inner = inner
        self.node = node

    def iterate(self, problem, evaluator, representation, random, population, target_size, generation):
        rec = dict(k=target_size, yielded=0, exc=None, it=None, before=0, exhausted_at_start=False, generation=generation)
        if isinstance(population, list):
            rec["form"], rec["avail"] = "list", len(population)
        elif isinstance(population, Population):
            rec["form"], rec["avail"] = "population", len(population.individuals)
        else:
            if not isinstance(population, CountingIter):
                population = CountingIter(population)
            rec["form"], rec["avail"] = "iterator", None
            rec["it"] = population
            rec["before"] = population.n
            rec["exhausted_at_start"] = population.exhausted
        self.node.calls.append(rec)
        try:
            for ind in self.inner.apply(problem, evaluator, representation, random, population, target_size, generation):
                rec["yielded"] += 1
                yield ind
        except Watchdog:
            raise
        except Exception as ex:  # noqa
            if rec["exc"] is None:
                rec["exc"] = ex
            raise

    def __str__(self):
        return str(self.inner)


def build(spec, probe=False, parent=None):
    """Returns (step, node).  With probe=True every step of the tree is wrapped in a Probe."""
    k = spec[0]
    node = Node(spec)
    if parent is not None:
        parent.children.append(node)

    def sub(s):
        return build(s, probe, node)[0]

    if k == "elitism":
        st = ElitismStep()
    elif k == "novelty":
        st = NoveltyStep()
    elif k == "tournament":
        st = TournamentSelection(spec[1], with_replacement=spec[2] if len(spec) > 2 else False)
    elif k == "lexicase":
        st = LexicaseSelection(epsilon=spec[1] if len(spec) > 1 else False)
    elif k == "mutation":
        st = GenericMutationStep(spec[1])
    elif k == "crossover":
        st = GenericCrossoverStep(spec[1])
    elif k == "identity":
        st = IdentityStep()
    elif k == "evaluate":
        st = EvaluateStep()
    elif k == "seq":
        st = SequenceStep(*[sub(s) for s in spec[1]])
    elif k == "par":
        st = ParallelStep([sub(s) for s in spec[1]], list(spec[2]))
    elif k == "xpar":
        st = ExclusiveParallelStep([sub(s) for s in spec[1]], list(spec[2]))
    else:
        raise ValueError(spec)
    if probe:
        st = Probe(st, node)
    return st, node


def _avail(rec):
    """Number of individuals the call could draw from its population (None: unknown lower bound only)."""
    if rec["form"] != "iterator":
        return rec["avail"]
    it = rec["it"]
    if rec["exhausted_at_start"]:
        return 0
    if it.exhausted:
        return it.n - rec["before"]
    return None  # not exhausted: at least it.n - before, unknown total


def pre_ok(rec):
    if rec["k"] < 0:
        return False
    a = _avail(rec)
    if a is None:
        return True
    return a >= rec["k"]


def failed(rec):
    return rec["exc"] is not None or rec["yielded"] != rec["k"]


def blame(node):
    """For a node whose last call failed and whose own precondition held: the innermost node that broke the
    interface contract, as (node, kind, failing call record); kind in own / sub_call_pre / exception."""
    rec = node.last()
    for ch in node.children:
        for crec in ch.calls:
            if failed(crec):
                if pre_ok(crec):
                    # the child had what it needed and still failed
                    saved = ch.calls
                    ch.calls = [crec]
                    try:
                        return blame(ch)
                    finally:
                        ch.calls = saved
                return node, "sub_call_pre", crec
    if rec["exc"] is not None:
        return node, "exception", rec
    return node, "own", rec


def describe_call(rec):
    a = _avail(rec)
    pop = f"{rec['form']} of {a if a is not None else '>=' + str(rec['it'].n - rec['before'])}"
    if rec["form"] == "iterator" and rec["exhausted_at_start"]:
        pop = "already consumed iterator"
    out = f"asked for {rec['k']}, given {pop}, yielded {rec['yielded']}"
    if rec["exc"] is not None:
        out += f", raised {type(rec['exc']).__name__}: {str(rec['exc'])[:80]}"
    return out


def run_step(spec, k, L, form, problem_kind="single", seed=0, table=None, probe=True):
    """Applies the step built from `spec`, asking for k individuals of a fresh evaluated-or-not population of
    L stub individuals in the given form.  Returns dict(count, exc, root node, pop)."""
    from geneticengine.random.sources import NativeRandomSource

    rep = IntRep(cap=100000)
    table = table or [((i * 7) % 5) for i in range(97)]
    if problem_kind == "multi":
        ff = TableFitness(table, vector=lambda v: [v, 4 - v])
        problem = MultiObjectiveProblem([False, False], ff)
        tracker = multi_tracker(problem)
    else:
        ff = TableFitness(table)
        problem = SingleObjectiveProblem(ff)
        tracker = single_tracker(problem)
    inds = make_inds(rep, L)
    pop = as_form(inds, form, tracker)
    step, node = build(spec, probe=probe)
    out, exc = [], None
    try:
        for ind in step.apply(problem, tracker.evaluator, rep, NativeRandomSource(seed), pop, k, 1):
            out.append(ind)
            if len(out) > 10 * (k + L) + 50:
                raise Watchdog("step yields without end")
    except Watchdog as ex:
        exc = ex
    except Exception as ex:  # noqa
        exc = ex
    return dict(count=len(out), exc=exc, node=node, out=out, inds=inds, problem=problem, ff=ff)


def needs_multi(spec):
    if spec[0] == "lexicase":
        return True
    if spec[0] in ("seq", "par", "xpar"):
        return any(needs_multi(s) for s in spec[1])
    return False
