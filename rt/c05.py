"""C05 bounded stand-in: certificate checking of the real extract_grammar / usable_grammar results.

Oracle (rt.structure_helpers.GrammarView, written from the property statement):
  productions = direct subtypes among the supplied classes; minimum depth = depth of the shallowest derivable
  program (level-by-level derivability, lists that may be empty contribute 0, unions min, tuples max);
  recursive = symbol lies on a cycle of the derives-relation (through list / union / annotated / tuple fields);
  reachable = closure of the derives-relation from the start symbol.
"""
from __future__ import annotations

import ast
from abc import ABC
import os
import sys
import types

from rt.common import REPO, result
from rt import structure_helpers as H
from rt.structure_helpers import GrammarView, Findings, form, fields_of, is_abs, tname, INF, BASES, distance_cause

from geneticengine.grammar.grammar import extract_grammar


# ------------------------------------------------------------------------------------------------
def supported(view: GrammarView):
    """None if every declared field type is understood by the oracle, else the reason."""
    for s in view.symbols():
        if not isinstance(s, type):
            return f"symbol {s!r} is not a class"
        if len([b for b in s.__bases__ if b is not object]) > 1:
            return f"{s.__name__}: multiple inheritance"
        if getattr(s, "__parameters__", ()):
            return f"{s.__name__}: generic class"
        if is_abs(s):
            continue
        if view.prods(s):
            return f"{s.__name__}: concrete class with subclasses"

        def ok(ty):
            f = form(ty)
            if f[0] == "base":
                return True
            if f[0] == "class":
                return isinstance(f[1], type) and not getattr(f[1], "__parameters__", ())
            if f[0] == "list":
                return ok(f[1])
            if f[0] in ("tuple", "union"):
                return all(t is not Ellipsis and ok(t) for t in f[1])
            if f[0] == "ann":
                inner = form(f[1])
                known = (H.IntRange, H.IntList, H.FloatRange, H.FloatList, H.VarRange, H.StringSizeBetween, H.WeightedStringHandler, H.IntervalRange) + H.LIST_SIZE_HANDLERS
                if len(f[2]) != 1 or not isinstance(f[2][0], known):
                    return False
                if inner[0] == "list" and not isinstance(f[2][0], H.LIST_SIZE_HANDLERS):
                    return False
                return ok(f[1])
            return False

        for n, ty in fields_of(s):
            if not ok(ty):
                return f"{s.__name__}.{n}: {ty!r}"
    return None


def g_ok_clauses(g):
    """Violations of the clauses of g_ok (specs/vocab.py), evaluated with the library's own
    get_distance_to_terminal for wrapper types (that function is proved against the gdist equations)."""
    from geneticengine.grammar.utils import get_arguments, is_generic, is_annotated, is_generic_list, is_union, is_generic_tuple

    out = []
    tbl = g.distanceToTerminal
    wrapper = lambda t: is_generic(t) or is_annotated(t) or is_generic_list(t) or is_union(t)

    def defined(t, depth=0):
        # gdist_defined: every leaf reachable through the wrappers has a table entry, wrappers have >= 1 parameter
        if depth > 20:
            return False
        if wrapper(t):
            ps = list(getattr(t, "__args__", ()))
            if is_annotated(t):
                ps = ps[:1]
            if not (is_annotated(t) or is_generic_list(t) or is_union(t) or is_generic_tuple(t)):
                return False  # a generic form create_node cannot build (dict[...], set[...], ...)
            return len(ps) >= 1 and all(defined(p_, depth + 1) for p_ in ps if p_ is not type(None))
        return t in tbl and (t in (int, float, bool) or t in g.all_nodes)

    for b in (int, float, bool):
        if tbl.get(b) != 0:
            out.append(("base-type-zero", f"distanceToTerminal[{b.__name__}] = {tbl.get(b)!r}, expected 0"))
    for t, d in tbl.items():
        if not (isinstance(d, int) and d >= 0):
            out.append(("non-negative", f"distanceToTerminal[{tname(t)}] = {d!r}"))
    for t in g.all_nodes:
        if wrapper(t) or not isinstance(t, type):
            out.append(("registered-nodes-are-classes", f"all_nodes contains {t!r}"))
    for t in tbl:
        if not wrapper(t) and t not in (int, float, bool, str) and t not in g.all_nodes:
            out.append(("table-symbols-registered", f"distanceToTerminal has an entry for {tname(t)} which is not in all_nodes"))
    for a_, alts in g.alternatives.items():
        if not alts:
            out.append(("abstract-has-production-list", f"alternatives[{tname(a_)}] is empty"))
        for p_ in alts:
            if p_ not in tbl or p_ not in g.all_nodes or wrapper(p_):
                out.append(("production-registered", f"production {tname(p_)} of {tname(a_)} is not a registered class with a table entry"))
            elif tbl[a_] > tbl[p_]:
                out.append(("abstract-at-most-each-production", f"distance[{tname(a_)}] = {tbl[a_]} > distance[{tname(p_)}] = {tbl[p_]}"))
        if a_ in tbl and tbl[a_] < 1000000 and alts and not any(p_ in tbl and tbl[p_] == tbl[a_] for p_ in alts):
            out.append(("abstract-minimum-attained", f"distance[{tname(a_)}] = {tbl[a_]} is attained by no production {[(tname(p_), tbl.get(p_)) for p_ in alts]}"))
    for c in g.all_nodes:
        if c in g.alternatives or c in (int, float, bool) or wrapper(c) or not isinstance(c, type):
            continue
        if c is str or is_abs(c):
            continue
        if c not in tbl:
            out.append(("concrete-has-entry", f"{tname(c)} has no table entry"))
            continue
        if tbl[c] < 1:
            out.append(("concrete-at-least-one", f"distance[{tname(c)}] = {tbl[c]}"))
        for n_, ft in get_arguments(c):
            if not defined(ft):
                out.append(("field-type-defined", f"{tname(c)}.{n_}: {tname(ft)} is not defined in the table"))
                continue
            try:
                fd = g.get_distance_to_terminal(ft)
            except Exception as ex:  # noqa
                out.append(("field-type-defined", f"{tname(c)}.{n_}: get_distance_to_terminal raised {type(ex).__name__}"))
                continue
            if tbl[c] < 1000000 and tbl[c] < 1 + fd:
                out.append(("concrete-above-each-field", f"distance[{tname(c)}] = {tbl[c]} < 1 + distance({n_}: {tname(ft)}) = {1 + fd}"))
    return out


# ---- grammars local to this driver: recursion that passes ONLY through a union / tuple nested in a list or a refinement ----
from dataclasses import dataclass as _dc
from typing import Annotated as _Ann, Union as _U


class StmtR1(ABC):
    pass


class ExprR1(ABC):
    pass


@_dc
class SkipR1(StmtR1):
    n: int


@_dc
class LitR1(ExprR1):
    v: int


@_dc
class BlockR1(StmtR1):
    body: list[_U[StmtR1, ExprR1]]


class ER2(ABC):
    pass


@_dc
class LeafR2(ER2):
    v: int


@_dc
class PairsR2(ER2):
    ps: list[tuple[ER2, int]]


class ER3(ABC):
    pass


@_dc
class LeafR3(ER3):
    v: int


@_dc
class SizedR3(ER3):
    xs: _Ann[list[_U[ER3, LeafR3]], H.LIST_SIZE_HANDLERS[0](1, 2)]


@_dc
class OnceR3(ER3):
    x: tuple[int, list[LeafR3]]


def local_family():
    return [
        ("R1-list-of-union", [StmtR1, ExprR1, SkipR1, LitR1, BlockR1], StmtR1, "Block(body: list[Union[Stmt, Expr]]): recursion only through a union inside a list"),
        ("R2-list-of-tuple", [ER2, LeafR2, PairsR2], ER2, "Pairs(ps: list[tuple[E, int]]): recursion only through a tuple inside a list"),
        ("R3-sized-list-of-union", [ER3, LeafR3, SizedR3, OnceR3], ER3, "Sized(xs: Annotated[list[Union[E, Leaf]], ListSizeBetween(1,2)]); a non-recursive tuple-with-list production"),
    ]


def gdist_ref(g, ty):
    """The defining equations of the contract of Grammar.get_distance_to_terminal (specs/typeforms.py: gdist), written
    independently over typing's own introspection: annotated -> parameter; list -> ed + parameter; union -> ed + min;
    tuple -> ed + max; otherwise the table entry (ed = 1 iff the grammar counts expansions)."""
    f = form(ty)
    ed = int(bool(g.expansion_depthing))
    if f[0] == "ann":
        return gdist_ref(g, f[1])
    if f[0] == "list":
        return ed + gdist_ref(g, f[1])
    if f[0] == "union":
        return ed + min(gdist_ref(g, t) for t in f[1])
    if f[0] == "tuple":
        return ed + max(gdist_ref(g, t) for t in f[1])
    return g.distanceToTerminal[ty]


def check_distance_equations(tag, g, view, F: Findings, stats, size):
    """Bounded stand-in for the contract of get_distance_to_terminal (it decides the contract when a changed body is
    outside the verifier's reach): every declared field type of the grammar and wrapper forms built over it, in the
    grammar's own depth mode."""
    from typing import Annotated, Union

    seen = []
    for s in view.symbols():
        if is_abs(s):
            continue
        for _n, t in fields_of(s):
            if t not in seen:
                seen.append(t)
    cat = []
    for t in seen[:8]:
        cat += [t, list[t], list[list[t]], Annotated[list[t], H.LIST_SIZE_HANDLERS[0](1, 2)], list[Annotated[list[t], H.LIST_SIZE_HANDLERS[0](0, 1)]],
                tuple[t, list[t]], Annotated[list[list[t]], H.LIST_SIZE_HANDLERS[0](1, 1)]]
        if seen[0] is not t:
            cat += [Union[t, seen[0]], list[Union[t, seen[0]]], list[tuple[t, seen[0]]], Union[list[t], seen[0]]]
    for ty in cat:
        stats["evaluations"] += 1
        try:
            want = gdist_ref(g, ty)
        except Exception:  # noqa  (a leaf without a table entry: outside the contract's precondition)
            continue
        try:
            got = g.get_distance_to_terminal(ty)
        except Exception as ex:  # noqa
            F.add("get_distance_to_terminal:raises-on-defined-type", f"{tag}: get_distance_to_terminal({tname(ty)}) raised {H.exc_text(ex)}", size)
            continue
        if got != want:
            F.add("get_distance_to_terminal:differs-from-defining-equations",
                  f"{tag}: get_distance_to_terminal({tname(ty)}) = {got}, defining equations (annotated -> parameter, list -> ed + parameter, union -> ed + min, tuple -> ed + max) give {want}", size)


def check_grammar(name, classes, start, mode, F: Findings, stats):
    view = GrammarView(classes, start)
    stats["evaluations"] += 1
    why = supported(view)
    try:
        g = extract_grammar(list(classes), start, expansion_depthing=mode)
    except Exception as ex:  # noqa
        if why is None and not isinstance(ex, H.ALLOWED_ERRORS) and stats.get("family"):
            F.add(f"extract:{H.exc_site(ex)}", f"extract_grammar on {name} (start {start.__name__}) raised {H.exc_text(ex)}", size=len(classes))
        stats["skipped"].append(f"{name}: extract failed {type(ex).__name__}")
        return
    if why is not None:
        stats["skipped"].append(f"{name}: {why}")
        return
    stats["checked"] += 1
    stats["distinct"].add((tuple(sorted(c.__qualname__ for c in view.symbols())), start.__qualname__, mode))
    size = len(view.symbols())
    tag = f"{name}{'/expansion' if mode else ''}"
    cls_nodes = [s for s in g.all_nodes if isinstance(s, type) and s not in BASES]

    # 1. productions
    for a, alts in g.alternatives.items():
        exp = view.prods(a)
        if sorted(map(id, alts)) != sorted(map(id, exp)):
            F.add(
                "alternatives:not-the-direct-subtypes",
                f"{tag}: alternatives[{a.__name__}] = {[x.__name__ for x in alts]}, direct supplied subtypes = {[x.__name__ for x in exp]}",
                size,
            )
    for a in view.reachable():
        if is_abs(a) and view.prods(a) and a not in g.alternatives:
            F.add("alternatives:abstract-type-without-entry", f"{tag}: reachable abstract {a.__name__} has subtypes {[x.__name__ for x in view.prods(a)]} but no alternatives entry", size)

    # 2. minimum depths
    if not mode:
        md = view.md_map()
        expect = {s: md.get(s, INF) for s in cls_nodes}
        for b in BASES:
            if b in g.distanceToTerminal:
                expect[b] = 0
    elif view.simple_fields_only():
        mdx = view.md_expansion_map()
        expect = {s: mdx.get(s, INF) for s in cls_nodes}
    else:
        expect = {}
        stats["skipped"].append(f"{tag}: expansion-depth reading undefined for list/tuple/union fields")
    exact = {s: g.distanceToTerminal.get(s) == e for s, e in expect.items()}
    for s, e in expect.items():
        if exact[s]:
            continue
        lib = g.distanceToTerminal.get(s)
        cause = distance_cause(view, g, s, exact) if not mode else ("expansion-mode" if all(exact.get(c, True) for c in view.successors(s)) else None)
        if cause is None:
            continue
        flds = ", ".join(f"{n}: {tname(t)}" for n, t in fields_of(s)) if s not in BASES and not is_abs(s) else ""
        F.add(
            f"distance:{cause}",
            f"{tag}: distanceToTerminal[{s.__name__}{'(' + flds + ')' if flds else ''}] = {lib}, shallowest derivable program has depth {e}",
            size,
        )
    if any(not x for x in exact.values()) and not any(k.startswith("rt:C05:distance:") for k in F.best):
        F.add("distance:unattributed", f"{tag}: reported {[(s.__name__, g.distanceToTerminal.get(s)) for s, x in exact.items() if not x]} differ from independent minimum depths", size)

    # 2a. get_distance_to_terminal against its defining equations on wrapper forms (both depth modes)
    check_distance_equations(tag, g, view, F, stats, size)

    # 2b. the local equations (g_ok of specs/vocab.py) that the create_node / decider proofs ASSUME of the grammar:
    # this is the guarantee side of that assume-guarantee link, checked clause by clause on the real tables
    if not mode:
        for clause, msg in g_ok_clauses(g):
            F.add(f"g_ok:{clause}", f"{tag}: {msg}", size)

    # 3. recursion
    lib_rec = {s for s in g.recursive_prods if s in cls_nodes}
    exp_rec = {s for s in view.recursive() if s in cls_nodes}
    if lib_rec != exp_rec:
        missing = sorted(exp_rec - lib_rec, key=lambda c: c.__name__)
        extra = sorted(lib_rec - set(view.recursive(productive_only=False)), key=lambda c: c.__name__)
        if missing:
            no_tuple = GrammarView(classes, start, skip_forms=("tuple",)).recursive()
            cause = "through-tuple-field" if all(m not in no_tuple for m in missing) else "other"
            F.add(f"recursive:missing:{cause}", f"{tag}: {[m.__name__ for m in missing]} can derive programs containing themselves but are not in recursive_prods {sorted(x.__name__ for x in lib_rec)}", size)
        if extra:
            F.add("recursive:extra", f"{tag}: recursive_prods lists {[m.__name__ for m in extra]} which cannot derive a program containing themselves", size)

    # 4. reachable sub-grammar
    stats["evaluations"] += 1
    try:
        ug = g.usable_grammar()
    except Exception as ex:  # noqa
        if not isinstance(ex, H.ALLOWED_ERRORS):
            bad = [f"{s.__name__}.{n}: {tname(t)}" for s in view.reachable() if not is_abs(s) for n, t in fields_of(s) if form(t)[0] in ("ann", "union", "tuple", "list")]
            F.add(f"usable-grammar:{H.exc_site(ex)}", f"{tag}: usable_grammar() raised {H.exc_text(ex)} (fields: {bad[:3]})", size)
        return
    reach = set(view.reachable())
    anc = set()
    for s in reach:
        anc.update(s.__mro__)
    got = {s for s in ug.all_nodes if isinstance(s, type) and s not in BASES}
    if reach - got:
        F.add("usable-grammar:reachable-symbol-missing", f"{tag}: usable_grammar() lacks reachable {[s.__name__ for s in reach - got]}", size)
    if got - reach - anc:
        F.add("usable-grammar:unreachable-symbol-kept", f"{tag}: usable_grammar() keeps unreachable {[s.__name__ for s in got - reach - anc]}", size)
    if ug.starting_symbol is not start:
        F.add("usable-grammar:start-changed", f"{tag}: start {ug.starting_symbol} != {start}", size)
    for a in reach:
        if is_abs(a) and a in g.alternatives:
            if sorted(map(id, ug.alternatives.get(a, []))) != sorted(map(id, [p for p in g.alternatives[a]])):
                F.add("usable-grammar:different-productions", f"{tag}: usable alternatives[{a.__name__}] = {[x.__name__ for x in ug.alternatives.get(a, [])]} vs {[x.__name__ for x in g.alternatives[a]]}", size)
    for s in reach:
        if not mode and ug.distanceToTerminal.get(s) != g.distanceToTerminal.get(s):
            F.add("usable-grammar:different-distance", f"{tag}: usable distance[{s.__name__}] = {ug.distanceToTerminal.get(s)} vs {g.distanceToTerminal.get(s)}", size)


# ------------------------------------------------------------------------------------------------
# grammars shipped with the repository: class definitions are executed in a scratch module (imports and
# class statements only, nothing else of the file runs); (classes, start) pairs come from the literal
# extract_grammar([...], Start) calls of the file, or from the ABC roots of the module.
def _harvest_file(path, modname):
    src = open(path, encoding="utf-8").read()
    tree = ast.parse(src)
    keep = []
    for node in tree.body:
        if isinstance(node, (ast.Import, ast.ImportFrom, ast.ClassDef)):
            keep.append(node)
        elif isinstance(node, ast.Assign) and all(isinstance(t, ast.Name) for t in node.targets):
            # plain constants / literal containers / metahandler objects used inside annotations
            if not any(isinstance(n, (ast.Call,)) and not _cheap_call(n) for n in ast.walk(node.value)):
                keep.append(node)
    mod = types.ModuleType(modname)
    mod.__file__ = path
    sys.modules[modname] = mod
    for node in keep:
        try:
            code = compile(ast.Module(body=[node], type_ignores=[]), path, "exec")
            exec(code, mod.__dict__)
        except BaseException:
            continue
    pairs = []
    for node in ast.walk(tree):
        if isinstance(node, ast.Call) and getattr(node.func, "id", getattr(node.func, "attr", None)) == "extract_grammar" and len(node.args) >= 2:
            a0, a1 = node.args[0], node.args[1]
            if isinstance(a0, ast.List) and all(isinstance(e, ast.Name) for e in a0.elts) and isinstance(a1, ast.Name):
                try:
                    classes = [mod.__dict__[e.id] for e in a0.elts]
                    start = mod.__dict__[a1.id]
                except KeyError:
                    continue
                if all(isinstance(c, type) for c in classes + [start]):
                    pairs.append((classes, start))
    if not pairs:
        own = [c for c in mod.__dict__.values() if isinstance(c, type) and c.__module__ == modname]
        for root in own:
            if is_abs(root) and root.__bases__ and root.__bases__[0].__name__ == "ABC":
                subs = [c for c in own if c is not root and issubclass(c, root)]
                if subs:
                    pairs.append((own, root))
    return pairs


def _cheap_call(n: ast.Call):
    name = getattr(n.func, "id", getattr(n.func, "attr", ""))
    return name in ("IntRange", "IntList", "FloatRange", "FloatList", "VarRange", "ListSizeBetween", "ListSizeBetweenWithoutListOperations", "StringSizeBetween", "IntervalRange", "list", "range", "TypeVar")


def harvest(limit_files):
    roots = [os.path.join(REPO, "tests"), os.path.join(REPO, "examples")]
    files = []
    for r in roots:
        for dp, dn, fn in os.walk(r):
            dn.sort()
            for f in sorted(fn):
                if f.endswith(".py") and f != "__init__.py":
                    p = os.path.join(dp, f)
                    try:
                        if os.path.getsize(p) < 60000:
                            files.append(p)
                    except OSError:
                        pass
    out = []
    # library grammar modules: imported for real, one grammar per ABC root
    import importlib
    import pkgutil

    try:
        import geml.grammars as _gg

        names = sorted(m.name for m in pkgutil.walk_packages(_gg.__path__, "geml.grammars.") if not m.ispkg)
    except Exception:
        names = []
    for mn in names:
        try:
            mod = importlib.import_module(mn)
        except BaseException:
            continue
        own = [c for c in vars(mod).values() if isinstance(c, type) and c.__module__ == mn]
        k = 0
        for root in own:
            if is_abs(root) and ABC in root.__bases__ and any(c is not root and issubclass(c, root) for c in own):
                out.append((f"{mn}#{k}", own, root))
                k += 1
    nlib = len(names)
    for i, p in enumerate(files[:limit_files]):
        modname = "rt_c05_harvest_" + os.path.relpath(p, REPO).replace(os.sep, "_").replace(".py", "").replace("-", "_")
        try:
            pairs = _harvest_file(p, modname)
        except BaseException:
            pairs = []
        for k, (classes, start) in enumerate(pairs):
            out.append((f"{os.path.relpath(p, REPO)}#{k}", classes, start))
    return out, len(files) + nlib


def run(tier: str, seed: int) -> dict:
    F = Findings("C05")
    stats = {"evaluations": 0, "checked": 0, "skipped": [], "distinct": set(), "family": True}
    fam = H.full_family() + local_family()
    for name, classes, start, desc in fam:
        for mode in (False, True):
            try:
                check_grammar(name, classes, start, mode, F, stats)
            except Exception as ex:  # noqa  (driver must go on)
                stats["skipped"].append(f"{name}: driver error {H.exc_text(ex)}")
    # sub-hierarchies of the family: every other class as start symbol (unreachable classes appear)
    for name, classes, start, desc in fam:
        for alt in classes:
            if alt is start:
                continue
            try:
                check_grammar(f"{name}@{alt.__name__}", classes, alt, False, F, stats)
            except Exception as ex:  # noqa
                stats["skipped"].append(f"{name}@{alt.__name__}: driver error {H.exc_text(ex)}")
    # the local equations the synthesis proofs assume (g_ok), also on the grammars of the heap drivers: unproductive
    # symbols (table entry 1000000), infeasible refinements, concrete recursion
    try:
        from rt import heap_helpers as HH
        from geneticengine.grammar.grammar import extract_grammar as _eg

        for name, classes, start, _r, _d in [HH.unproductive_grammar()] + HH.extra_grammars():
            stats["evaluations"] += 1
            try:
                g_ = _eg(list(classes), start)
            except Exception:  # noqa
                continue
            for clause, msg in g_ok_clauses(g_):
                F.add(f"g_ok:{clause}", f"{name}: {msg}", len(classes))
    except ImportError:
        pass
    stats["family"] = False
    shipped, nfiles = harvest(400 if tier == "thorough" else 120)
    for name, classes, start in shipped:
        for mode in ((False, True) if tier == "thorough" else (False,)):
            try:
                check_grammar(name, classes, start, mode, F, stats)
            except Exception as ex:  # noqa
                stats["skipped"].append(f"{name}: driver error {H.exc_text(ex)}")
    rule = (
        f"certificate check of extract_grammar/usable_grammar against an independent analysis on {len(fam)} family grammars "
        f"(both depth modes; every class as start symbol) and {len(shipped)} grammars harvested from {nfiles} files of geml/grammars, tests, examples "
        f"(class statements executed in a scratch module; grammars with field forms the oracle does not model are skipped: {len(stats['skipped'])})"
    )
    samples = [f"{n}: start={s.__name__}, {len(c)} classes" for n, c, s, _ in fam[:4]] + [f"{n}: start={s.__name__}" for n, c, s in shipped[:4]]
    return result(
        stats["evaluations"],
        len(stats["distinct"]),
        rule,
        samples,
        F.violations(),
        exhaustive=False,
        grammars_checked=stats["checked"],
        skipped=stats["skipped"][:40],
    )
