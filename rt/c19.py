"""C19 bounded stand-in: production weights are normalised per abstract type, keep the declared ratios, are stable
under repeated extraction, and weight-aware choosers respect zero weights.  Never counted as proof.

(No `from __future__ import annotations` here: the grammar classes are defined inside functions and their field
annotations must be real objects.)"""
import itertools
import random as pyrandom
from abc import ABC
from dataclasses import dataclass

from rt.common import result, violation, enumerate_outcomes, children, is_node
from rt.search_helpers import Deadline

from geneticengine.grammar.decorators import weight, abstract
from geneticengine.grammar.grammar import extract_grammar
from geneticengine.random.sources import RandomSource, NativeRandomSource
from geneticengine.representations.tree.initializations import ProgressivelyTerminalDecider
from geneticengine.solutions.tree import LocalSynthesisContext

WEIGHTS = (None, 0, 0.5, 1, 2, 3)  # None: production left unweighted (counts as 1)
TOL = 1e-9


class Findings:
    def __init__(self):
        self.by_key = {}

    def add(self, key, what, size):
        cur = self.by_key.get(key)
        if cur is None or size < cur[0]:
            self.by_key[key] = (size, what)

    def violations(self):
        return [violation(k, w, unit=k.split(":")[-1]) for k, (s, w) in sorted(self.by_key.items())]


# ------------------------------------------------------------------------------------------------ hierarchies
def h_flat():
    class Root(ABC):
        pass

    @dataclass
    class A(Root):
        pass

    @dataclass
    class B(Root):
        x: Root

    @dataclass
    class C(Root):
        v: bool

    return "flat Root -> A | B(x: Root) | C(v: bool)", Root, {"A": A, "B": B, "C": C}, {"Root": ["A", "B", "C"]}


def h_nested():
    class Root(ABC):
        pass

    @abstract
    class S(Root):
        pass

    @dataclass
    class A(S):
        pass

    @dataclass
    class B(S):
        x: Root

    @dataclass
    class C(Root):
        pass

    return "nested Root -> S | C ; S -> A | B(x: Root)", Root, {"S": S, "A": A, "B": B, "C": C}, {"Root": ["S", "C"], "S": ["A", "B"]}


def h_two():
    class Root(ABC):
        pass

    class T(ABC):
        pass

    @dataclass
    class U(T):
        pass

    @dataclass
    class V(T):
        pass

    @dataclass
    class P(Root):
        t: T

    @dataclass
    class Q(Root):
        pass

    return "two types Root -> P(t: T) | Q ; T -> U | V", Root, {"U": U, "V": V, "P": P, "Q": Q}, {"Root": ["P", "Q"], "T": ["U", "V"]}


def h_deep():
    class Root(ABC):
        pass

    @dataclass
    class Leaf:
        pass

    @dataclass
    class A(Root):
        pass

    @dataclass
    class D(Root):
        c: Leaf

    return "deepest production Root -> A | D(c: Leaf)", Root, {"A": A, "D": D, "Leaf": Leaf}, {"Root": ["A", "D"]}


def h_three_level():
    class Root(ABC):
        pass

    @abstract
    class S(Root):
        pass

    @abstract
    class S2(S):
        pass

    @dataclass
    class A(S2):
        pass

    @dataclass
    class B(S2):
        pass

    @dataclass
    class C(S):
        pass

    @dataclass
    class E(Root):
        x: S

    return (
        "three levels Root -> S | E(x: S) ; S -> S2 | C ; S2 -> A | B",
        Root,
        {"S": S, "S2": S2, "A": A, "B": B, "C": C, "E": E},
        {"Root": ["S", "E"], "S": ["S2", "C"], "S2": ["A", "B"]},
    )


HIERARCHIES = (h_flat, h_nested, h_two, h_deep, h_three_level)


def build(h, assignment):
    """Fresh classes, decorated with the weights of `assignment` (name -> weight or None)."""
    label, root, cls, rules = h()
    for name, w in assignment.items():
        if w is not None:
            weight(w)(cls[name])
    return label, root, cls, rules


def declared(assignment, name):
    w = assignment.get(name)
    return 1.0 if w is None else float(w)


# ------------------------------------------------------------------------------------------------ choosers
class FixedSource(RandomSource):
    """Every randint returns `v` clipped into the requested range."""

    def __init__(self, v):
        self.v = v

    def randint(self, min, max):
        return min if self.v < min else (max if self.v > max else self.v)

    def random_float(self, min, max):
        return float(min)


def boundary_draws(weights):
    acc, t = [], 0.0
    for w in weights:
        t += w
        acc.append(int(t * 100000))
    vals = {0, 1, max(acc[-1] - 1, 0), max(acc[-1] - 2, 0), acc[-1] // 2}
    for a in acc:
        vals |= {a - 1, a, a + 1}
    return sorted(v for v in vals if v >= 0)  # FixedSource clips into the range the function asks for


def negative_declarations(find):
    """A declared weight below zero next to positive / unweighted siblings: the extracted grammar must either be refused or
    have weights that are non-negative (and at most one) -- it must never carry a negative production weight."""
    n = 0
    for h in (h_flat, h_two):
        label0, _, cls0, rules0 = h()
        for rule, prods in rules0.items():
            if len(prods) < 2:
                continue
            for neg in (-1, -0.5):
                n += 1
                assignment = {prods[0]: neg, prods[1]: 3}
                label, root, cls, rules = build(h, assignment)
                try:
                    g = extract_grammar(list(cls.values()), root)
                except Exception:  # noqa  (refusing the declaration is fine)
                    continue
                w = g.get_weights()
                bad = {k.__name__: v for k, v in w.items() if isinstance(v, (int, float)) and (v < 0 or v > 1 + 1e-9)}
                if bad:
                    find.add("rt:C19:extract_grammar.negative_weight_accepted", f"{label} with declared weights {{{prods[0]}: {neg}, {prods[1]}: 3}}: extraction succeeded with production weights outside [0, 1]: {bad}", (len(prods), abs(neg)))
    return n


def run(tier: str, seed: int) -> dict:
    quick = tier != "thorough"
    dl = Deadline(20 if quick else 200)
    rng = pyrandom.Random(seed)
    find = Findings()
    evaluations = nontrivial = 0
    samples = []
    skipped_all_zero = 0
    chooser_calls = 0
    complete = True
    notes = []

    evaluations += negative_declarations(find)
    for h in HIERARCHIES:
        label0, _, cls0, rules0 = h()
        prods = [p for r in rules0.values() for p in r]
        combos = list(itertools.product(WEIGHTS, repeat=len(prods)))
        if quick and len(combos) > 300:
            stride = max(1, len(combos) // 200)
            combos = [c for i, c in enumerate(combos) if i % stride == seed % stride] + rng.sample(combos, 150)
        for ci, combo in enumerate(combos):
            if dl.over():
                complete = False
                break
            assignment = dict(zip(prods, combo))
            any_weighted = any(w is not None for w in combo)
            zero_rule = [r for r, ps in rules0.items() if sum(declared(assignment, p) for p in ps) == 0]
            label, root, cls, rules = build(h, assignment)
            desc = f"{label} with weights {{{', '.join(f'{p}: {w}' for p, w in assignment.items() if w is not None)}}}"
            size = (len(prods), sum(w is not None for w in combo), sum(declared(assignment, p) for p in prods))
            evaluations += 1
            nontrivial += any_weighted
            considered = list(cls.values())
            try:
                g = extract_grammar(considered, root)
            except ZeroDivisionError:
                if zero_rule:
                    skipped_all_zero += 1  # every production of a type weighted 0: normalisation is undefined, not flagged
                    continue
                find.add("rt:C19:extract_grammar.exception", f"{desc}: extract_grammar raised ZeroDivisionError although every abstract type has a positive-weight production", size)
                continue
            except Exception as ex:  # noqa
                if zero_rule:
                    skipped_all_zero += 1
                    continue
                find.add("rt:C19:extract_grammar.exception", f"{desc}: extract_grammar raised {type(ex).__name__}: {str(ex)[:80]}", size)
                continue
            if zero_rule:
                skipped_all_zero += 1
                continue
            if not any_weighted:
                continue  # no weights declared: nothing to normalise (get_weights reports 1.0 for every production)

            def check_weights(gr, when):
                ws = gr.get_weights()
                for rname, ps in rules.items():
                    tot_decl = sum(declared(assignment, p) for p in ps)
                    got = [ws[cls[p]] for p in ps]
                    if any(x < 0 for x in got):
                        find.add("rt:C19:update_weights.negative", f"{desc}, {when}: productions of {rname} have weights {dict(zip(ps, got))}", size)
                        return False
                    if abs(sum(got) - 1.0) > TOL:
                        find.add("rt:C19:update_weights.sum_to_one", f"{desc}, {when}: weights of the productions of {rname} are {dict(zip(ps, got))}, sum {sum(got)}", size)
                        return False
                    for p, x in zip(ps, got):
                        if abs(x - declared(assignment, p) / tot_decl) > TOL:
                            find.add(
                                "rt:C19:update_weights.ratios",
                                f"{desc}, {when}: production {p} of {rname} has weight {x}, declared ratio gives {declared(assignment, p) / tot_decl} (all: {dict(zip(ps, got))})",
                                size,
                            )
                            return False
                return True

            if not check_weights(g, "after extract_grammar"):
                continue
            first = {k: v for k, v in g.get_weights().items()}
            stable = True
            for rep in range(1, 4):
                try:
                    g2 = extract_grammar(considered, root)
                except Exception as ex:  # noqa
                    find.add("rt:C19:extract_grammar.repeat_exception", f"{desc}: extraction #{rep + 1} of the same classes raised {type(ex).__name__}: {str(ex)[:80]}", size)
                    stable = False
                    break
                again = g2.get_weights()
                diff = {getattr(k, "__name__", str(k)): (first[k], again.get(k)) for k in first if again.get(k) is None or abs(again[k] - first[k]) > TOL}
                if diff or set(again) != set(first):
                    find.add("rt:C19:extract_grammar.not_idempotent", f"{desc}: after extraction #{rep + 1} the weights changed (first, now): {diff}", size)
                    stable = False
                    break
                if not check_weights(g2, f"after extraction #{rep + 1}"):
                    stable = False
                    break
                g = g2
            if not stable:
                continue

            # weight-aware choosers, on the normalised weights
            ws = g.get_weights()
            for rname, ps in rules.items():
                alts_full = list(g.alternatives[cls[rname] if rname in cls else root])
                subsets = [alts_full] + [list(s) for n in range(1, len(alts_full)) for s in itertools.combinations(alts_full, n)]
                for alts in subsets:
                    wl = [ws[a] for a in alts]
                    if not any(w > 0 for w in wl):
                        continue
                    # RandomSource.choice_weighted at every boundary of the accumulated weights
                    for dv in boundary_draws(wl):
                        chooser_calls += 1
                        try:
                            got = FixedSource(dv).choice_weighted(list(alts), list(wl))
                        except Exception as ex:  # noqa
                            find.add("rt:C19:RandomSource.choice_weighted.exception", f"choice_weighted(weights={wl}) with draw {dv} raised {type(ex).__name__}", (len(wl), sum(wl)))
                            continue
                        if ws[got] == 0:
                            find.add("rt:C19:RandomSource.choice_weighted.zero_weight_chosen", f"choice_weighted with weights {wl} and draw {dv} returned the production with weight 0 ({got.__name__}); {desc}", (len(wl), sum(wl)))
                    # ProgressivelyTerminalDecider over all draw outcomes, at several depths
                    for depth in ((0, 2, 50) if quick else (0, 1, 2, 3, 7, 50)):
                        ctx = LocalSynthesisContext(depth=depth, nodes=0, expansions=0, dependent_values={})

                        def fn(src):
                            return ProgressivelyTerminalDecider(src, g).choose_production_alternatives(cls.get(rname, root), list(alts), ctx)

                        for draws, res, exc in enumerate_outcomes(fn, max_runs=50, max_draws=20):
                            chooser_calls += 1
                            if exc is not None:
                                if exc != "draw-limit":
                                    find.add(
                                        "rt:C19:ProgressivelyTerminalDecider.exception",
                                        f"{desc}: choose_production_alternatives({rname}, {[a.__name__ for a in alts]}) at depth {depth} raised {type(exc).__name__}: {str(exc)[:60]}",
                                        size,
                                    )
                                continue
                            if ws[res] == 0:
                                find.add(
                                    "rt:C19:ProgressivelyTerminalDecider.zero_weight_chosen",
                                    f"{desc}: choose_production_alternatives({rname}, alternatives {[a.__name__ for a in alts]} with normalised weights {wl}) at depth {depth}, draws {draws}, "
                                    f"returned {res.__name__} (weight 0) although a positive-weight alternative is available",
                                    size + (depth,),
                                )
            # the stack representation's weighted choice of the next type to build
            try:
                from geneticengine.representations.stackgggp import create_tree_using_stacks, ListWrapper

                class RecWrapper(ListWrapper):
                    def choice_weighted(self, choices, weights):
                        r = RandomSource.choice_weighted(self, choices, weights)
                        self.seen.append((list(choices), list(weights), r))
                        return r

                for t in range(2 if quick else 6):
                    rw = RecWrapper([rng.randint(0, 10**9) for _ in range(64)])
                    rw.seen = []
                    try:
                        tree = create_tree_using_stacks(g, rw, failures_limit=30)
                    except Exception:  # noqa  (a genome that does not produce a tree is not C19's matter)
                        tree = None
                    for choices, wts, r in rw.seen:
                        chooser_calls += 1
                        if wts[choices.index(r)] == 0 and any(w > 0 for w in wts):
                            find.add("rt:C19:stackgggp.zero_weight_chosen", f"{desc}: the stack mapper's weighted choice returned {getattr(r, '__name__', r)} (weight 0) from weights {wts}", size)
                    if tree is not None:
                        stack = [tree]
                        while stack:
                            nd = stack.pop()
                            if is_node(nd):
                                for rname2, ps2 in rules.items():
                                    for p in ps2:
                                        if type(nd) is cls[p] and ws[cls[p]] == 0:
                                            find.add("rt:C19:stackgggp.zero_weight_production_in_tree", f"{desc}: the stack mapper built a tree containing {p}, whose weight is 0", size)
                            stack.extend(children(nd))
            except ImportError:
                pass
            if len(samples) < 8 and ci % 211 == 5:
                samples.append(f"{desc}: normalised {{{', '.join(f'{p}: {round(ws[cls[p]], 4)}' for p in prods)}}}, stable over 4 extractions")

    # end to end: trees generated with ProgressivelyTerminalDecider never contain a zero-weight production
    # that has a positive-weight sibling
    e2e = 0
    e2e_hits = 0
    try:
        from geneticengine.representations.tree.treebased import TreeBasedRepresentation

        for h, assignment in ((h_deep, {"A": 0}), (h_deep, {"A": 0, "D": 2}), (h_flat, {"B": 0}), (h_flat, {"A": 0, "B": 0.5}), (h_nested, {"C": 0, "B": 0.5}), (h_two, {"Q": 0, "U": 0}), (h_three_level, {"C": 0, "A": 0, "E": 0.5})):
            label, root, cls, rules = build(h, assignment)
            g = extract_grammar(list(cls.values()), root)
            ws = g.get_weights()
            desc = f"{label} with weights {assignment}"
            for s in range(20 if quick else 200):
                e2e += 1
                src = NativeRandomSource(seed * 1000 + s)
                rep = TreeBasedRepresentation(g, ProgressivelyTerminalDecider(src, g))
                try:
                    tree = rep.create_genotype(src)
                except RecursionError:
                    continue
                except Exception as ex:  # noqa
                    notes.append(f"{desc}: tree creation raised {type(ex).__name__}")
                    continue
                stack = [tree]
                while stack:
                    nd = stack.pop()
                    if is_node(nd):
                        for p, c in cls.items():
                            if type(nd) is c and ws[c] == 0:
                                e2e_hits += 1
                                find.add(
                                    "rt:C19:ProgressivelyTerminalDecider.zero_weight_chosen",
                                    f"{desc}: a tree created with ProgressivelyTerminalDecider (NativeRandomSource({seed * 1000 + s})) contains production {p}, whose weight is 0, although its abstract type has a positive-weight production",
                                    (99, len(desc)),
                                )
                    stack.extend(children(nd))
    except ImportError:
        pass
    evaluations += e2e
    rule = (
        "5 class hierarchies (flat with recursion, nested abstract types, two abstract types, a non-recursive deepest production, three abstract levels), every production independently "
        "unweighted or weighted from {0, 0.5, 1, 2, 3} (thorough: all assignments; quick: all for <= 3 productions, about 200 strided + 150 sampled assignments for the larger hierarchies), classes defined afresh per case: after "
        "extract_grammar the productions of each abstract type have weights >= 0, summing to 1 and equal to declared/sum(declared) (unweighted = 1), tolerance 1e-9; 3 further extractions "
        "change nothing; types whose productions are all weighted 0 are skipped.  Choosers on the normalised weights, for every rule and every sub-list of its alternatives with a positive "
        "weight: RandomSource.choice_weighted at every boundary of the accumulated weights, ProgressivelyTerminalDecider.choose_production_alternatives over all draw outcomes at depths "
        "0,2,50 (thorough 0,1,2,3,7,50), the stack mapper's weighted choice on sampled genomes, and trees generated end to end: a zero-weight production is never returned"
    )
    return result(evaluations, nontrivial, rule, samples, find.violations(), exhaustive=(not quick) and complete, chooser_calls=chooser_calls, skipped_all_zero_rules=skipped_all_zero, end_to_end_trees=e2e, end_to_end_zero_weight_nodes=e2e_hits, notes=notes[:5])
