"""Bounded stand-in for the tree-genotype half of C06 (the linear / structured halves are proved):
tree crossover must give each child = one parent with a single subtree replaced by a same-typed subtree taken
from the other parent.  Exploration: family grammars x seeds (quick) / more seeds and depths (thorough)."""
from __future__ import annotations

from rt.common import make_family, structure, children, is_node, result, violation, NativeRandomSource

from geneticengine.grammar.grammar import extract_grammar
from geneticengine.representations.tree.initializations import MaxDepthDecider
from geneticengine.representations.tree.treebased import TreeBasedRepresentation
from geneticengine.exceptions import GeneticEngineError


def subtrees(v, acc=None):
    """All sub-values that are grammar nodes (lists / tuples are transparent)."""
    if acc is None:
        acc = []
    if is_node(v):
        acc.append(v)
    for c in children(v):
        subtrees(c, acc)
    return acc


def is_single_replacement(child, base, donor_structs):
    """child == base with exactly one node position replaced by (a structural copy of) a donor subtree of the
    same type, or child == base (replacement by an identical subtree)."""
    if structure(child) == structure(base):
        return True
    if is_node(child) and type(child) is not type(base) and not is_node(base):
        return False
    # replacement at this position?
    if is_node(child) and structure(child) in donor_structs:
        return True
    if type(child) is not type(base):
        return False
    cc, bc = children(child), children(base)
    if len(cc) != len(bc):
        return False
    diff = [i for i, (a, b) in enumerate(zip(cc, bc)) if structure(a) != structure(b)]
    if len(diff) != 1:
        return False
    return is_single_replacement(cc[diff[0]], bc[diff[0]], donor_structs)


def dsge_sequences(fams, seeds):
    """Dynamic SGE genotypes as they arise in a run -- mapped parents, crossover children (which can hold an EMPTY gene list
    for a symbol one parent never used), then mutation: the mutant must have the same symbols and gene-list lengths as the
    genotype it was made from, differ in at most one gene, and leave its parent untouched."""
    from geneticengine.representations.grammatical_evolution.dynamic_structured_ge import DynamicStructuredGrammaticalEvolutionRepresentation as DSGE

    n = 0
    worst = None
    for name, classes, start, _desc in fams:
        try:
            g = extract_grammar(classes, start)
            lo = g.get_min_tree_depth()
            if lo >= 1000000:
                continue
            rep = DSGE(g, lo + 2)
        except Exception:
            continue
        for sd in seeds:
            r = NativeRandomSource(sd)
            try:
                p1, p2 = rep.create_genotype(r), rep.create_genotype(r)
                rep.genotype_to_phenotype(p1)
                rep.genotype_to_phenotype(p2)
                kids = list(rep.crossover(r, p1, p2))
            except Exception:
                continue
            for kid in kids:
                for _ in range(6):
                    before = {k: list(v) for k, v in kid.dna.items()}
                    try:
                        m = rep.mutate(r, kid)
                    except Exception:
                        break
                    n += 1
                    after_parent = {k: list(v) for k, v in kid.dna.items()}
                    shape_b = {k: len(v) for k, v in before.items()}
                    shape_m = {k: len(v) for k, v in m.dna.items()}
                    changed = sum(1 for k in before for a, b in zip(before[k], m.dna.get(k, [])) if a != b)
                    msg = None
                    if after_parent != before:
                        msg = "the genotype it was given changed"
                    elif shape_m != shape_b:
                        diff = {getattr(k, "__name__", str(k)): (shape_b.get(k), shape_m.get(k)) for k in set(shape_b) | set(shape_m) if shape_b.get(k) != shape_m.get(k)}
                        msg = f"gene-list lengths changed (symbol: before, after) {diff}"
                    elif changed > 1:
                        msg = f"{changed} genes differ"
                    if msg and (worst is None or len(msg) < len(worst[1])):
                        worst = (name, f"dSGE mutate on a crossover child ({name}, seed {sd}): {msg}")
    return n, worst


def run(tier: str, seed: int) -> dict:
    fams = make_family()
    seeds = range(seed, seed + (12 if tier == "quick" else 80))
    depths = (3, 4) if tier == "quick" else (2, 3, 4, 5)
    evaluations = 0
    distinct = set()
    samples = []
    worst = None
    for name, classes, start, _desc in fams:
        g = extract_grammar(classes, start)
        for d in depths:
            if d < g.get_min_tree_depth():
                continue
            for sd in seeds:
                r = NativeRandomSource(sd)
                try:
                    rep = TreeBasedRepresentation(g, MaxDepthDecider(r, g, d))
                    p1, p2 = rep.create_genotype(r), rep.create_genotype(r)
                    c1, c2 = rep.crossover(r, p1, p2)
                except GeneticEngineError:
                    continue
                except Exception:
                    continue  # exceptions are C01's business
                evaluations += 1
                distinct.add((structure(p1), structure(p2)))
                for child, base, donor, tag in ((c1, p1, p2, "first"), (c2, p2, p1, "second")):
                    donor_structs = {structure(s) for s in subtrees(donor)}
                    ok = is_single_replacement(child, base, donor_structs)
                    if len(samples) < 4:
                        samples.append({"grammar": name, "max_depth": d, "seed": sd, "parent": repr(base)[:80], "other": repr(donor)[:80], "child": repr(child)[:80], "ok": ok})
                    if not ok:
                        size = len(repr(base)) + len(repr(donor))
                        if worst is None or size < worst[0]:
                            worst = (size, f"{name}, max_depth={d}, seed={sd}: {tag} child {child!r} is not parent {base!r} with one subtree replaced by a subtree of {donor!r}")
    n_dsge, worst_dsge = dsge_sequences(fams, list(seeds)[: (6 if tier == "quick" else 30)])
    evaluations += n_dsge
    violations = []
    if worst_dsge is not None:
        violations.append(violation("rt:C06:dsge-mutation-not-local-on-crossover-children", worst_dsge[1][:600], unit="DynamicStructuredGrammaticalEvolutionRepresentation.mutate"))
    if worst is not None:
        violations.append(violation("rt:C06:tree-crossover-child-not-parental-material", worst[1][:600], unit="treebased.tree_crossover"))
    return result(
        evaluations,
        len(distinct),
        f"tree crossover on {len(fams)} family grammars x max_depth {list(depths)} x {len(list(seeds))} seeds; oracle: child equals one parent with a single node position replaced by a same-typed subtree of the other parent (structural comparison); dSGE: map two parents, cross over, mutate each child 6x -- same symbols and gene-list lengths, at most one gene changed, input untouched ({n_dsge} mutations)",
        samples,
        violations,
    )
