"""C12 bounded stand-in: the reported best really is the best evaluated; recorders get the right is_best flag;
search() returns the tracker's best.  Never counted as proof."""
from __future__ import annotations

import itertools
import random as pyrandom

from rt.common import result, violation
from rt.search_helpers import IntRep, TableFitness, Recorder, Watchdog, Deadline, CountingBudget, single_tracker, multi_tracker, build

from geneticengine.problems import SingleObjectiveProblem, MultiObjectiveProblem
from geneticengine.random.sources import NativeRandomSource
from geneticengine.evaluation.budget import EvaluationBudget
from geneticengine.solutions.individual import Individual
from geneticengine.algorithms.random_search import RandomSearch
from geneticengine.algorithms.one_plus_one import OnePlusOne
from geneticengine.algorithms.hill_climbing import HC
from geneticengine.algorithms.gp.gp import GeneticProgramming


class Findings:
    def __init__(self):
        self.by_key = {}

    def add(self, key, what, size):
        cur = self.by_key.get(key)
        if cur is None or size < cur[0]:
            self.by_key[key] = (size, what)

    def violations(self):
        # a defect of a tracker shows in every search that uses it: report it once, at the tracker
        tracker_broken = any("ProgressTracker." in k for k in self.by_key)
        echo = (".returned_not_best", ".is_best_flag", ".best_during_search")
        keep = {k: v for k, v in self.by_key.items() if not (tracker_broken and "ProgressTracker." not in k and k.endswith(echo))}
        return [violation(k, w, unit=k.split(":")[-1]) for k, (s, w) in sorted(keep.items())]


def better(a, b, minimize):
    return a < b if minimize else a > b


# multi-objective vector forms: name -> (vector of v, minimize as given to the problem for direction d)
MULTI_FORMS = {
    "[v] minimize=[d]": (lambda v: [v], lambda d: [d]),
    "[v,1] minimize=[d,d]": (lambda v: [v, 1], lambda d: [d, d]),
    "[v,2-v] minimize=[d,not d]": (lambda v: [v, 2 - v], lambda d: [d, not d]),
    "[v,2-v] minimize=[d,d] (all aggregates tie)": (lambda v: [v, 2 - v], lambda d: [d, d]),
    "[v,v] minimize=d (bool)": (lambda v: [v, v], lambda d: d),
    "[v,0,v] minimize=[d,True,d]": (lambda v: [v, 0, v], lambda d: [d, True, d]),
}


def ref_aggregate(vector, minimize):
    mm = minimize if isinstance(minimize, list) else [minimize] * len(vector)
    return sum(-c if m else c for c, m in zip(vector, mm))


def check_flags_single(find, key_prefix, desc, values, flags, minimize, size):
    """is_best exactly when first or strictly better than all earlier registered ones."""
    for i, (v, f) in enumerate(zip(values, flags)):
        expect = i == 0 or all(better(v, u, minimize) for u in values[:i])
        if bool(f) != expect:
            find.add(
                f"{key_prefix}.is_best_flag",
                f"{desc}: registration #{i + 1} (fitness {v} after {values[:i]}) was reported with is_best={f}, expected {expect}",
                size,
            )
            return False
    return True


def single_history(find, hist, minimize, mode):
    rep = IntRep()
    ff = TableFitness(list(hist) + [0])
    problem = SingleObjectiveProblem(ff, minimize)
    rec = Recorder()
    tracker = single_tracker(problem, [rec])
    inds = [Individual(rep.create_genotype(None), rep) for _ in hist]
    desc = f"SingleObjectiveProgressTracker, fitness history {list(hist)}, minimize={minimize}, {mode}"
    size = (len(hist), sum(hist))
    val = {id(i): v for i, v in zip(inds, hist)}
    try:
        if mode == "one evaluate() per individual":
            for n, ind in enumerate(inds):
                tracker.evaluate([ind])
                b = tracker.get_best_individual()
                seen = inds[: n + 1]
                if b is None or not any(b is s for s in seen):
                    find.add("rt:C12:SingleObjectiveProgressTracker.best", f"{desc}: after {n + 1} evaluations get_best_individual() is not one of the evaluated individuals ({b})", size)
                    return False
                worse_than = [val[id(s)] for s in seen if better(val[id(s)], val[id(b)], minimize)]
                if worse_than:
                    find.add("rt:C12:SingleObjectiveProgressTracker.best", f"{desc}: after {n + 1} evaluations the reported best has fitness {val[id(b)]} but {worse_than[0]} was evaluated", size)
                    return False
        else:
            tracker.evaluate(list(inds))
    except Exception as ex:  # noqa
        find.add("rt:C12:SingleObjectiveProgressTracker.exception", f"{desc}: raised {type(ex).__name__}: {str(ex)[:80]}", size)
        return False
    if [x[0] for x in rec.log] != inds and not all(a is b for a, b in zip([x[0] for x in rec.log], inds)):
        find.add("rt:C12:SingleObjectiveProgressTracker.register_calls", f"{desc}: recorder saw {len(rec.log)} registrations for {len(inds)} evaluated individuals", size)
        return False
    # best as seen by the recorder at each registration
    for n, (ind, f, gen, best) in enumerate(rec.log):
        if len(best) != 1 or any(better(val[id(s)], val[id(best[0])], minimize) for s in inds[: n + 1]):
            find.add("rt:C12:SingleObjectiveProgressTracker.best", f"{desc}: at registration #{n + 1} the tracker reported best {[val[id(b)] for b in best]} although {[val[id(s)] for s in inds[: n + 1]]} were evaluated", size)
            return False
    return check_flags_single(find, "rt:C12:SingleObjectiveProgressTracker", desc, list(hist), [x[1] for x in rec.log], minimize, size)


class _Boom(Exception):
    pass


def interrupted_batch(find, hist, minimize, fail_at):
    """One evaluate() call for the whole list whose fitness function raises at invocation #fail_at (0-based)."""
    rep = IntRep()
    calls = []

    def ff(p):
        if len(calls) == fail_at:
            raise _Boom("fitness function failed")
        calls.append(p)
        return list(hist)[p % len(hist)]

    problem = SingleObjectiveProblem(ff, minimize)
    tracker = single_tracker(problem, [])
    inds = [Individual(rep.create_genotype(None), rep) for _ in hist]
    desc = f"SingleObjectiveProgressTracker.evaluate on a batch with fitness {list(hist)}, minimize={minimize}, fitness function raising at invocation #{fail_at + 1}"
    size = (len(hist), fail_at, sum(hist))
    try:
        tracker.evaluate(list(inds))
    except _Boom:
        pass
    except Exception as ex:  # noqa
        find.add("rt:C12:SingleObjectiveProgressTracker.exception", f"{desc}: raised {type(ex).__name__}: {str(ex)[:80]}", size)
        return False
    evaluated = [i for i in inds if i.has_fitness(problem)]
    if not evaluated:
        return True
    vals = {id(i): i.get_fitness(problem).fitness_components[0] for i in evaluated}
    b = tracker.get_best_individual()
    if b is None or id(b) not in vals:
        find.add("rt:C12:SingleObjectiveProgressTracker.best_after_interruption", f"{desc}: {len(evaluated)} individuals were evaluated before the failure but get_best_individual() is {b}", size)
        return False
    beaten = [v for v in vals.values() if better(v, vals[id(b)], minimize)]
    if beaten:
        find.add("rt:C12:SingleObjectiveProgressTracker.best_after_interruption", f"{desc}: reported best has fitness {vals[id(b)]} but {beaten[0]} was evaluated before the failure", size)
        return False
    return True


def multi_history(find, hist, d, form_name, mode):
    vec, mk_min = MULTI_FORMS[form_name]
    minimize = mk_min(d)
    rep = IntRep()
    ff = TableFitness(list(hist) + [0], vector=vec)
    problem = MultiObjectiveProblem(minimize if isinstance(minimize, bool) else list(minimize), ff)
    rec = Recorder()
    tracker = multi_tracker(problem, [rec])
    inds = [Individual(rep.create_genotype(None), rep) for _ in hist]
    aggs = [ref_aggregate(vec(v), minimize) for v in hist]
    ag = {id(i): a for i, a in zip(inds, aggs)}
    desc = f"MultiObjectiveProgressTracker, fitness vectors {[vec(v) for v in hist]}, minimize={minimize}, {mode}"
    size = (len(hist), sum(hist), len(form_name))

    def check_front(n, front, where):
        seen = inds[: n + 1]
        top = max(ag[id(s)] for s in seen)
        if len(front) == 0:
            find.add("rt:C12:MultiObjectiveProgressTracker.front", f"{desc}: {where} get_best_individuals() is empty", size)
            return False
        for m in front:
            if not any(m is s for s in seen):
                find.add("rt:C12:MultiObjectiveProgressTracker.front", f"{desc}: {where} a reported best individual is not among the evaluated ones", size)
                return False
            if ag[id(m)] != top:
                find.add(
                    "rt:C12:MultiObjectiveProgressTracker.front",
                    f"{desc}: {where} a reported best individual has aggregate {ag[id(m)]} (vector {m.get_fitness(problem).fitness_components}) but the best aggregate evaluated so far is {top}",
                    size,
                )
                return False
        return True

    try:
        if mode == "one evaluate() per individual":
            for n, ind in enumerate(inds):
                tracker.evaluate([ind])
                if not check_front(n, list(tracker.get_best_individuals()), f"after {n + 1} evaluations"):
                    return False
        else:
            tracker.evaluate(list(inds))
    except Exception as ex:  # noqa
        find.add("rt:C12:MultiObjectiveProgressTracker.exception", f"{desc}: raised {type(ex).__name__}: {str(ex)[:80]}", size)
        return False
    if len(rec.log) != len(inds) or not all(a is b for a, b in zip([x[0] for x in rec.log], inds)):
        find.add("rt:C12:MultiObjectiveProgressTracker.register_calls", f"{desc}: recorder saw {len(rec.log)} registrations for {len(inds)} evaluated individuals", size)
        return False
    for n, (ind, f, gen, best) in enumerate(rec.log):
        if not check_front(n, list(best), f"at registration #{n + 1}"):
            return False
        top = max(aggs[: n + 1])
        strictly = n == 0 or all(aggs[n] > a for a in aggs[:n])
        if f and aggs[n] != top:
            find.add("rt:C12:MultiObjectiveProgressTracker.is_best_flag", f"{desc}: registration #{n + 1} (aggregate {aggs[n]}) was reported as best although aggregate {top} had been seen", size)
            return False
        if strictly and not f:
            find.add("rt:C12:MultiObjectiveProgressTracker.is_best_flag", f"{desc}: registration #{n + 1} (aggregate {aggs[n]}, earlier {aggs[:n]}) strictly improves on all earlier ones but was reported with is_best=False", size)
            return False
    return True


ALGOS = ("RandomSearch", "OnePlusOne", "HC", "GeneticProgramming", "GeneticProgramming(multi-objective)")


def search_case(find, algo, table, minimize, n, param, seed, notes):
    rep = IntRep(cap=5000)
    size = (n, param, sum(table))
    multi = algo.endswith("(multi-objective)")
    rec = Recorder()
    if multi:
        ff = TableFitness(table, cap=5000, vector=lambda v: [v, 1])
        problem = MultiObjectiveProblem([minimize, minimize], ff)
        tracker = multi_tracker(problem, [rec])
    else:
        ff = TableFitness(table, cap=5000)
        problem = SingleObjectiveProblem(ff, minimize)
        tracker = single_tracker(problem, [rec])
    budget = CountingBudget(EvaluationBudget(n), cap=2000)
    r = NativeRandomSource(seed)
    if algo == "RandomSearch":
        alg = RandomSearch(problem, budget, rep, r, tracker)
    elif algo == "OnePlusOne":
        alg = OnePlusOne(problem, budget, rep, r, tracker)
    elif algo == "HC":
        alg = HC(problem, budget, rep, r, tracker, number_of_mutations=param)
    else:
        alg = GeneticProgramming(problem, budget, rep, r, tracker, population_size=param)
    desc = f"{algo}({'number_of_mutations' if algo == 'HC' else 'population_size' if algo.startswith('Genetic') else 'param'}={param}), EvaluationBudget({n}), minimize={minimize}, fitness table {table[:12]}{'...' if len(table) > 12 else ''} by creation order"
    try:
        res = alg.search()
    except Watchdog as ex:
        notes.append(f"{desc}: watchdog {ex}")
        return False
    except Exception as ex:  # noqa
        find.add(f"rt:C12:{algo.split('(')[0]}.search_exception", f"{desc}: raised {type(ex).__name__}: {str(ex)[:80]}", size)
        return False
    evaluated = [ff.value(p) for p in ff.calls]
    key = f"rt:C12:{algo.split('(')[0]}.search_result"
    if multi:
        front = tracker.get_best_individuals()
        if not front or res is not front[0]:
            find.add(key, f"{desc}: search() did not return tracker.get_best_individuals()[0]", size)
            return False
    else:
        if res is not tracker.get_best_individual():
            find.add(key, f"{desc}: search() returned {res} which is not tracker.get_best_individual()", size)
            return False
    rv = ff.value(res.get_phenotype())
    beaten = [v for v in evaluated if better(v, rv, minimize)]
    if beaten:
        find.add(f"rt:C12:{algo.split('(')[0]}.returned_not_best", f"{desc}: search() returned an individual with fitness {rv} although fitness {beaten[0]} was evaluated (all evaluated: {evaluated[:20]})", size)
        return False
    # every invocation of the fitness function concerns an individual the tracker was told about
    registered = {x[0].get_phenotype() for x in rec.log}
    if not set(ff.calls) <= registered:
        notes.append(f"{desc}: {len(set(ff.calls) - registered)} evaluated individuals were never presented to the tracker")
    vals = [ff.value(x[0].get_phenotype()) for x in rec.log]
    flags = [x[1] for x in rec.log]
    if not multi:
        for i, (ind, f, gen, best) in enumerate(rec.log):
            if len(best) != 1 or best[0] is None:
                find.add(f"rt:C12:{algo.split('(')[0]}.best_during_search", f"{desc}: at registration #{i + 1} (while the recorders are being told) the tracker reported no best individual although {vals[: i + 1]} had been evaluated", size)
                return False
            bv = ff.value(best[0].get_phenotype())
            if any(better(v, bv, minimize) for v in vals[: i + 1]):
                find.add(f"rt:C12:{algo.split('(')[0]}.best_during_search", f"{desc}: at registration #{i + 1} the reported best had fitness {bv} although {vals[: i + 1]} had been evaluated", size)
                return False
        return check_flags_single(find, f"rt:C12:{algo.split('(')[0]}", desc, vals, flags, minimize, size)
    return True


def run(tier: str, seed: int) -> dict:
    quick = tier != "thorough"
    dl = Deadline(24 if quick else 240)
    rng = pyrandom.Random(seed)
    find = Findings()
    evaluations = nontrivial = 0
    samples = []
    notes = []
    complete = True
    modes = ("one evaluate() per individual", "one evaluate() for the whole list")
    for n in range(1, 7):
        for hist in itertools.product((0, 1, 2), repeat=n):
            for d in (False, True):
                for mode in modes:
                    if dl.over():
                        complete = False
                        break
                    ok = single_history(find, hist, d, mode)
                    evaluations += 1
                    nontrivial += len(set(hist)) > 1
                    for fname in MULTI_FORMS:
                        ok2 = multi_history(find, hist, d, fname, mode)
                        evaluations += 1
                        nontrivial += len(set(hist)) > 1
                    if len(samples) < 4 and evaluations % 2003 < 7:
                        samples.append(f"history {list(hist)} minimize={d} {mode}: single {'ok' if ok else 'VIOLATION'}, multi(last form) {'ok' if ok2 else 'VIOLATION'}")
    # near-ties: strict improvements far below any "tolerance" (0.3 vs 0.1 + 0.2, 1 + k * 1e-12) must still be improvements
    tiny = [0.3, 0.1 + 0.2, 1.0, 1.0 + 1e-12, 1.0 + 2e-12, 1.0 - 1e-12]
    for hist in list(itertools.permutations(tiny[:2], 2)) + list(itertools.permutations(tiny[2:], 3)):
        for d in (False, True):
            for mode in modes:
                ok = single_history(find, hist, d, mode)
                evaluations += 1
                nontrivial += 1
    # interruption: the fitness function fails in the middle of a batch; whatever was evaluated before the failure must
    # be reflected by the reported best (the property holds at every point of a search, also the point of a failure)
    for hist in ((2, 1, 0), (0, 2, 1), (1, 2, 2, 0), (0, 1, 2, 1)):
        for d in (False, True):
            for fail_at in range(1, len(hist)):
                ok = interrupted_batch(find, hist, d, fail_at)
                evaluations += 1
                nontrivial += 1
    n_hist = evaluations

    # searches
    tables = [[0], [0, 1, 2], [2, 1, 0], [1, 1, 2, 2, 0, 0, 2], [0, 0, 0, 1, 1, 1, 2]]
    tables += [[rng.randint(0, 2) for _ in range(rng.choice([5, 11, 31]))] for _ in range(4 if quick else 40)]
    budgets = (1, 2, 3, 7, 12) if quick else (1, 2, 3, 4, 5, 7, 10, 12, 23, 40)
    runs = 0
    for algo in ALGOS:
        params = (1,) if algo in ("RandomSearch", "OnePlusOne") else ((1, 3, 5) if algo == "HC" else (2, 3, 5, 8))
        for table in tables:
            for minimize in (False, True):
                for n in budgets:
                    for param in params:
                        if dl.over():
                            complete = False
                            break
                        ok = search_case(find, algo, table, minimize, n, param, seed + runs, notes)
                        runs += 1
                        evaluations += 1
                        nontrivial += len(set(table)) > 1 and n > 1
                        if len(samples) < 8 and runs % 211 == 3:
                            samples.append(f"{algo} param={param} budget={n} minimize={minimize} table={table[:8]}: {'ok' if ok else 'VIOLATION'}")

    # not flagged, only measured: a step that selects after mutating evaluates individuals (through the evaluator, inside
    # TournamentSelection) that are never presented to the tracker; the reported best can then be worse than an evaluated individual.
    unseen_better = 0
    for s in range(20 if quick else 100):
        rep = IntRep(cap=5000)
        table = [rng.randint(0, 9) for _ in range(37)]
        ff = TableFitness(table, cap=5000)
        problem = SingleObjectiveProblem(ff, False)
        rec = Recorder()
        tracker = single_tracker(problem, [rec])
        step, _ = build(("seq", [("mutation", 1.0), ("tournament", 1, True)]))
        gp = GeneticProgramming(problem, CountingBudget(EvaluationBudget(30), cap=200), rep, NativeRandomSource(seed + s), tracker, population_size=4, step=step)
        try:
            res = gp.search()
            if max(ff.value(p) for p in ff.calls) > ff.value(res.get_phenotype()):
                unseen_better += 1
        except Exception:  # noqa
            pass
    if unseen_better:
        notes.append(
            f"GP with step S(mutation(1);tournament(1,replacement)): in {unseen_better} of {20 if quick else 100} runs an individual evaluated inside TournamentSelection "
            "(never presented to the tracker) was strictly better than the returned best -- outside the compositions this driver flags"
        )
    rule = (
        "all fitness histories of length <= 6 over {0,1,2} x both directions x SingleObjectiveProgressTracker and MultiObjectiveProgressTracker (6 vector / minimize forms incl. bool "
        "minimize and an all-ties form) x {one evaluate() per individual, one evaluate() for the list}, with a recording SearchRecorder: reported best is an evaluated individual and no "
        "evaluated one is strictly better (raw values / independently computed aggregate); single-objective is_best flag == (first or strictly better than all earlier); multi-objective: "
        "every front member attains the best aggregate so far, flag => attains it, strict improvement => flag.  RandomSearch, OnePlusOne, HC(1,3,5 mutations), GeneticProgramming(pop 2,3,5,8; "
        "also multi-objective) on table landscapes x both directions x EvaluationBudget n: search() returns the tracker's best, no evaluated individual is strictly better, flags as above"
    )
    return result(evaluations, nontrivial, rule, samples, find.violations(), exhaustive=False, tracker_history_cases=n_hist, search_runs=runs, notes=notes[:6], histories_exhaustive=complete)
