"""C14 bounded stand-in: searches terminate and stop at the first budget check at which the budget is met.
Never counted as proof."""
from __future__ import annotations

import random as pyrandom

from rt.common import result, violation
from rt.search_helpers import IntRep, SequenceFitness, Recorder, Watchdog, Deadline, single_tracker, build

from geneticengine.problems import SingleObjectiveProblem
from geneticengine.random.sources import NativeRandomSource
from geneticengine.evaluation.budget import EvaluationBudget, TargetFitness, AnyOf, SearchBudget
from geneticengine.solutions.individual import Individual
from geneticengine.algorithms.random_search import RandomSearch
from geneticengine.algorithms.one_plus_one import OnePlusOne
from geneticengine.algorithms.hill_climbing import HC
from geneticengine.algorithms.gp.gp import GeneticProgramming

TARGET = 100.0


class Findings:
    def __init__(self):
        self.by_key = {}

    def violations(self):
        # a defect of a budget class shows in every search using it: report it once, at the budget
        broken = {k.split(":")[2].split(".")[0] for k in self.by_key if k.split(":")[2].split(".")[0] in ("EvaluationBudget", "TargetFitness", "AnyOf")}
        out = []
        for k, (s, w, uses) in sorted(self.by_key.items()):
            if k.split(":")[2].split(".")[0] not in broken and set(uses) & broken:
                continue
            out.append(violation(k, w, unit=k.split(":")[-1]))
        return out

    def add2(self, key, what, size, uses=()):
        cur = self.by_key.get(key)
        if cur is None or size < cur[0]:
            self.by_key[key] = (size, what, tuple(uses))


class ObservedBudget(SearchBudget):
    """The budget under test, with every check logged as (true number of fitness invocations, answer)."""

    def __init__(self, inner, ff, cap):
        self.inner = inner
        self.ff = ff
        self.cap = cap
        self.checks = []

    def is_done(self, tracker):
        if len(self.checks) >= self.cap:
            raise Watchdog(f"budget checked more than {self.cap} times")
        r = self.inner.is_done(tracker)
        self.checks.append((len(self.ff.calls), bool(r), tracker.get_number_evaluations()))
        return r


def landscape(kind, minimize, K):
    """value of the k-th fitness invocation (k from 1)."""
    sgn = -1.0 if minimize else 1.0
    if kind == "constant":
        return lambda k: 1.0
    if kind == "improving":
        return lambda k: sgn * k
    if kind == "target":  # exactly TARGET at the K-th invocation, clearly worse (by >= 5) before and after
        return lambda k: TARGET if k == K else TARGET - sgn * (5.0 + (k % 3))
    raise ValueError(kind)


# budget specs: ("eval", n) ("target",) ("any", a, b)
def make_budget(spec):
    if spec[0] == "eval":
        return EvaluationBudget(spec[1])
    if spec[0] == "target":
        return TargetFitness(TARGET)
    if spec[0] == "any":
        return AnyOf(make_budget(spec[1]), make_budget(spec[2]))
    raise ValueError(spec)


def budget_classes(spec):
    if spec[0] == "eval":
        return {"EvaluationBudget"}
    if spec[0] == "target":
        return {"TargetFitness"}
    return {"AnyOf"} | budget_classes(spec[1]) | budget_classes(spec[2])


def budget_name(spec):
    if spec[0] == "eval":
        return f"EvaluationBudget({spec[1]})"
    if spec[0] == "target":
        return f"TargetFitness({TARGET})"
    return f"AnyOf({budget_name(spec[1])}, {budget_name(spec[2])})"


def expected_done(spec, evals, values, minimize):
    """Reference semantics of a budget at a check made after `evals` evaluations with fitness `values`."""
    if spec[0] == "eval":
        return evals >= spec[1]
    if spec[0] == "target":
        if not values:
            return False
        best = min(values) if minimize else max(values)
        return abs(best - TARGET) < 1e-4
    return expected_done(spec[1], evals, values, minimize) or expected_done(spec[2], evals, values, minimize)


GP_COMPS = [
    # (label, spec or None for the library default, every generation certainly evaluates >= 1 new individual)
    ("default step", None, False),
    ("S(tournament(2);mutation(1))", ("seq", [("tournament", 2, False), ("mutation", 1.0)]), True),
    ("P(elitism|novelty|S(tournament(3);X(mutation(.5)|crossover(.9)))) w=[1,1,3]", ("par", [("elitism",), ("novelty",), ("seq", [("tournament", 3, False), ("xpar", [("mutation", 0.5), ("crossover", 0.9)], (1, 1))])], (1, 1, 3)), False),
    ("P(novelty|elitism) w=[1,1]", ("par", [("novelty",), ("elitism",)], (1, 1)), True),
    ("S(tournament(2,replacement);crossover(1))", ("seq", [("tournament", 2, True), ("crossover", 1.0)]), True),
]


def search_case(find, notes, algo, param, comp, bspec, kind, minimize, K, seed):
    cap_evals = 600
    ff = SequenceFitness(landscape(kind, minimize, K), cap_evals)
    rep = IntRep(cap=20000)
    problem = SingleObjectiveProblem(ff, minimize)
    rec = Recorder(cap=5000)
    tracker = single_tracker(problem, [rec])
    budget = ObservedBudget(make_budget(bspec), ff, cap=400)
    r = NativeRandomSource(seed)
    label = algo
    progress = True
    if algo == "RandomSearch":
        alg, batch = RandomSearch(problem, budget, rep, r, tracker), 1
    elif algo == "OnePlusOne":
        alg, batch = OnePlusOne(problem, budget, rep, r, tracker), 1
    elif algo == "HC":
        alg, batch = HC(problem, budget, rep, r, tracker, number_of_mutations=param), param
        label = f"HC(number_of_mutations={param})"
    else:
        cl, spec, progress = comp
        step = build(spec)[0] if spec is not None else None
        alg, batch = GeneticProgramming(problem, budget, rep, r, tracker, population_size=param, step=step), param
        label = f"GeneticProgramming(population_size={param}, step={cl})"
    desc = f"{label}, {budget_name(bspec)}, minimize={minimize}, landscape {kind}" + (f" (target {TARGET} at evaluation #{K})" if kind == "target" else "")
    size = (len(budget_name(bspec)), param, bspec[1] if bspec[0] == "eval" else K, len(label))
    uses = budget_classes(bspec)
    a = algo
    try:
        alg.search()
    except Watchdog as ex:
        if a != "GeneticProgramming" or progress:
            # is termination expected at all?  (a target that is never within reach legitimately runs on)
            vals = [ff.landscape(k) for k in range(1, cap_evals + 1)]
            reachable = any(expected_done(bspec, e, vals[:e], minimize) for e in range(0, cap_evals + 1))
            if reachable:
                find.add2(f"rt:C14:{a}.non_termination", f"{desc}: search() did not return ({ex}); checks so far (evaluations, answer): {[(c[0], c[1]) for c in budget.checks[-4:]]}", size, uses)
        else:
            notes.append(f"{desc}: did not reach the budget within the watchdog cap (the step need not create new individuals)")
        return False
    except Exception as ex:  # noqa
        find.add2(f"rt:C14:{a}.exception", f"{desc}: raised {type(ex).__name__}: {str(ex)[:80]}", size, uses)
        return False
    total = len(ff.calls)
    values = [ff.landscape(k) for k in range(1, total + 1)]
    checks = budget.checks
    if tracker.get_number_evaluations() != total:
        find.add2(f"rt:C14:{a}.counter", f"{desc}: tracker reports {tracker.get_number_evaluations()} evaluations, the fitness function was invoked {total} times", size, uses)
        return False
    # every answer of the budget agrees with the reference semantics at that check
    for i, (e, ans, cnt) in enumerate(checks):
        exp = expected_done(bspec, e, values[:e], minimize)
        if ans != exp:
            cls = "AnyOf" if bspec[0] == "any" else ("EvaluationBudget" if bspec[0] == "eval" else "TargetFitness")
            find.add2(
                f"rt:C14:{a}.{cls}.answer",
                f"{desc}: check #{i + 1} after {e} evaluations (best fitness {(min if minimize else max)(values[:e]) if e else None}) answered {ans}, expected {exp}",
                size,
                uses,
            )
            return False
    # the search stops at the first check that says done, and only then
    if not checks or not checks[-1][1] or any(c[1] for c in checks[:-1]) or checks[-1][0] != total:
        find.add2(
            f"rt:C14:{a}.stops_at_first_check",
            f"{desc}: checks (evaluations, answer) {[(c[0], c[1]) for c in checks][-6:]}, {total} evaluations at return: the search did not stop exactly at the first satisfied check",
            size,
            uses,
        )
        return False
    # individuals evaluated between two checks <= batch (GP: only when every generation has population_size individuals)
    gen_ok = True
    if a == "GeneticProgramming":
        sizes = {}
        for ind, f, gen, best in rec.log:
            sizes[gen] = sizes.get(gen, 0) + 1
        gen_ok = all(v == param for v in sizes.values())
    if gen_ok:
        prev = 0
        for i, (e, ans, cnt) in enumerate(checks):
            d = e - prev
            if i > 0 and (d > batch or (d < 1 and (a != "GeneticProgramming" or progress))):
                find.add2(f"rt:C14:{a}.batch", f"{desc}: {d} evaluations between check #{i} and check #{i + 1} (batch {batch}); checks {[(c[0], c[1]) for c in checks][:8]}", size, uses)
                return False
            prev = e
        if bspec[0] == "eval" and not (bspec[1] <= total < bspec[1] + batch):
            find.add2(f"rt:C14:{a}.evaluation_budget_bounds", f"{desc}: {total} evaluations at return, expected {bspec[1]} <= evaluations < {bspec[1] + batch}", size, uses)
            return False
    else:
        notes.append(f"{desc}: a generation did not have population_size individuals (C15 matter), batch bound not checked")
    return True


def budget_level(find):
    """The budget classes alone, on a real tracker with a set counter / a known best."""
    n_checks = 0

    def tracker_with(count, best_value, minimize=False):
        rep = IntRep()
        problem = SingleObjectiveProblem(lambda p: best_value, minimize)
        tr = single_tracker(problem)
        if best_value is not None:
            tr.evaluate([Individual(rep.create_genotype(None), rep)])
        tr.evaluator.count = count
        return tr

    for n in range(1, 42):
        for c in range(0, 45):
            n_checks += 1
            got = EvaluationBudget(n).is_done(tracker_with(c, None))
            if bool(got) != (c >= n):
                find.add2("rt:C14:EvaluationBudget.is_done", f"EvaluationBudget({n}).is_done with {c} evaluations made answered {got}", (n, c))
    for v, exp in ((TARGET, True), (TARGET - 5, False), (TARGET + 5, False), (TARGET + 0.00001, True), (None, False)):
        for minimize in (False, True):
            n_checks += 1
            try:
                got = TargetFitness(TARGET).is_done(tracker_with(1, v, minimize))
            except Exception as ex:  # noqa
                got = f"raised {type(ex).__name__}"
            if got != exp:
                find.add2("rt:C14:TargetFitness.is_done", f"TargetFitness({TARGET}).is_done with best fitness {v} (minimize={minimize}) answered {got}, expected {exp}", (0 if v is None else abs(v),))

    # the tolerance is absolute (1e-4) whatever the magnitude of the target: near misses around large and zero targets
    for tgt, v, exp in ((100.0, 100.004, False), (100.0, 100.00005, True), (5000.0, 5000.3, False), (0.0, 0.00005, True), (0.0, 0.0002, False), (-250.0, -250.00005, True), (-250.0, -250.01, False)):
        for minimize in (False, True):
            n_checks += 1
            try:
                got = TargetFitness(tgt).is_done(tracker_with(1, v, minimize))
            except Exception as ex:  # noqa
                got = f"raised {type(ex).__name__}"
            if got != exp:
                find.add2("rt:C14:TargetFitness.is_done", f"TargetFitness({tgt}).is_done with best fitness {v} (minimize={minimize}) answered {got}, expected {exp} (|best - target| < 0.0001)", (abs(tgt), abs(v)))

    class Const(SearchBudget):
        def __init__(self, v):
            self.v, self.calls = v, 0

        def is_done(self, tracker):
            self.calls += 1
            return self.v

    for x in (False, True):
        for y in (False, True):
            n_checks += 1
            a, b = Const(x), Const(y)
            got = AnyOf(a, b).is_done(tracker_with(0, None))
            if bool(got) != (x or y) or a.calls != 1 or b.calls > 1:
                find.add2("rt:C14:AnyOf.is_done", f"AnyOf of budgets answering {x}, {y} answered {got} (members asked {a.calls}, {b.calls} times)", (x, y))
    return n_checks


def tiny_space_searches(find):
    """Searches over a space with FEWER distinct (hashable) programs than the evaluation budget: the counter must keep growing
    with every evaluation of a new individual (not with every new program), so each search still stops with n <= total < n + k."""
    from geneticengine.algorithms.random_search import RandomSearch
    from geneticengine.algorithms.one_plus_one import OnePlusOne
    from geneticengine.algorithms.hill_climbing import HC
    from geneticengine.algorithms.gp.gp import GeneticProgramming
    from geneticengine.random.sources import NativeRandomSource
    from geneticengine.representations.api import Representation, RepresentationWithMutation, RepresentationWithCrossover

    class TinyRep(Representation, RepresentationWithMutation, RepresentationWithCrossover):
        def create_genotype(self, random, **kw):
            return random.randint(0, 3)

        def genotype_to_phenotype(self, g):
            return g  # an int: hashable, only 4 distinct programs

        def mutate(self, random, g, **kw):
            return random.randint(0, 3)

        def crossover(self, random, a, b, **kw):
            return b, a

    class Runaway(Exception):
        pass

    class Watch(SearchBudget):
        def __init__(self, n):
            self.inner, self.checks = EvaluationBudget(n), 0

        def is_done(self, tracker):
            self.checks += 1
            if self.checks > 400:
                raise Runaway()
            return self.inner.is_done(tracker)

    n_runs = 0
    for name, mk, k in (
        ("RandomSearch", lambda p, b, r: RandomSearch(p, b, TinyRep(), random=r), 1),
        ("OnePlusOne", lambda p, b, r: OnePlusOne(p, b, TinyRep(), random=r), 1),
        ("HC", lambda p, b, r: HC(p, b, TinyRep(), random=r, number_of_mutations=3), 3),
        ("GeneticProgramming", lambda p, b, r: GeneticProgramming(p, b, TinyRep(), random=r, population_size=6), 6),
    ):
        for n in (9, 25):
            n_runs += 1
            calls = []
            problem = SingleObjectiveProblem(lambda p_: (calls.append(p_), float(p_))[1])
            budget = Watch(n)
            try:
                alg = mk(problem, budget, NativeRandomSource(n))
                alg.search()
                total = alg.tracker.get_number_evaluations()
                if not (n <= total < n + k) or total != len(calls):
                    find.add2(f"rt:C14:{name}.tiny_space_count", f"{name} with EvaluationBudget({n}) over 4 distinct hashable programs stopped with {total} counted evaluations and {len(calls)} fitness invocations (expected {n} <= total < {n + k}, total == invocations)", (n,))
            except Runaway:
                find.add2(f"rt:C14:{name}.does_not_terminate", f"{name} with EvaluationBudget({n}) over a space of 4 distinct hashable programs is still running after 400 budget checks ({len(calls)} fitness invocations counted so far)", (n,))
            except Exception as ex:  # noqa
                find.add2(f"rt:C14:{name}.exception", f"{name} on the tiny space raised {type(ex).__name__}: {str(ex)[:80]}", (n,))
    return n_runs


def run(tier: str, seed: int) -> dict:
    quick = tier != "thorough"
    dl = Deadline(24 if quick else 250)
    rng = pyrandom.Random(seed)
    find = Findings()
    notes = []
    samples = []
    evaluations = budget_level(find) + tiny_space_searches(find)
    nontrivial = 0
    runs = 0
    complete = True

    def go(algo, param, comp, bspec, kind, minimize, K):
        nonlocal evaluations, nontrivial, runs, complete
        if dl.over():
            complete = False
            return
        ok = search_case(find, notes, algo, param, comp, bspec, kind, minimize, K, seed + runs)
        runs += 1
        evaluations += 1
        nontrivial += (bspec[0] != "eval" or bspec[1] > 1)
        if len(samples) < 8 and runs % 397 == 5:
            samples.append(f"{algo} param={param} {comp[0] if comp else ''} {budget_name(bspec)} {kind} minimize={minimize} K={K}: {'ok' if ok else 'see violations/notes'}")

    configs = [("RandomSearch", 1, None), ("OnePlusOne", 1, None)]
    configs += [("HC", m, None) for m in ((1, 2, 3, 5, 8) if quick else (1, 2, 3, 4, 5, 6, 8, 13))]
    gp_pops = (2, 3, 5, 7, 10) if quick else (2, 3, 4, 5, 6, 7, 8, 10, 12, 15)
    configs += [("GeneticProgramming", p, comp) for p in gp_pops for comp in GP_COMPS]
    kinds = ("constant", "improving", "target")
    # 1. evaluation budgets n = 1..40
    i = 0
    for algo, param, comp in configs:
        for n in range(1, 41):
            combos = [(k, d) for k in kinds for d in (False, True)]
            i += 1
            for kind, d in combos:
                go(algo, param, comp, ("eval", n), kind, d, 7)
    # 2. target fitness: target reached at the K-th evaluation
    for algo, param, comp in configs:
        for K in (range(1, 13) if quick else range(1, 31)):
            for d in (False, True):
                go(algo, param, comp, ("target",), "target", d, K)
    # 3. disjunctions, both orders
    for algo, param, comp in configs:
        for n in ((1, 4, 9, 16) if quick else (1, 2, 4, 6, 9, 16, 25)):
            for K in ((1, 3, 8, 20) if quick else (1, 2, 3, 5, 8, 13, 20, 30)):
                for order in (0, 1):
                    d = bool((n + K + order) % 2)
                    e, t = ("eval", n), ("target",)
                    go(algo, param, comp, ("any", e, t) if order == 0 else ("any", t, e), "target", d, K)
        go(algo, param, comp, ("any", ("eval", 12), ("any", ("target",), ("eval", 5))), "target", False, 9)
    # an elitism-only step never creates individuals: the budget is legitimately never reached (not flagged)
    search_case(find, notes, "GeneticProgramming", 4, ("elitism only", ("elitism",), False), ("eval", 10), "constant", False, 1, seed)
    rule = (
        "EvaluationBudget(n), n 1..40 x RandomSearch, OnePlusOne, HC(1..8 mutations), GeneticProgramming(population 2..10; default step + 4 compositions) x landscapes "
        "(constant, improving, target reached exactly at the K-th evaluation) x both directions; TargetFitness with K 1..12 (thorough 1..30); AnyOf(EvaluationBudget, TargetFitness) in both orders "
        "and nested.  Every budget check is logged with the true number of fitness invocations: each answer equals the reference semantics (count >= n / best within 1e-4 of target / or), the "
        "search returns exactly at the first satisfied check, evaluations between two checks are 1..batch (batch 1 / number_of_mutations / population_size), hence n <= evaluations < n + batch; "
        "non-termination is detected by watchdogs (400 checks, 600 evaluations) and flagged unless the GP step need not create new individuals; budget classes also checked alone on a real tracker"
    )
    dedup_notes = []
    for x in notes:
        head = x.split(":")[0][:90]
        if not any(y.startswith(head[:60]) for y in dedup_notes):
            dedup_notes.append(x)
    return result(evaluations, nontrivial, rule, samples, find.violations(), exhaustive=False, search_runs=runs, planned_space_completed=complete, notes=dedup_notes[:8], n_notes=len(notes))
