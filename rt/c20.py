"""C20 bounded stand-in: the CSV search log is faithful and a valid prefix at every interruption point.
Real temp files, re-read after every registration; a child process is SIGKILLed between registrations.
Never counted as proof."""
from __future__ import annotations

import csv
import io
import itertools
import json
import os
import random as pyrandom
import shutil
import signal
import subprocess
import sys
import tempfile

from rt.common import result, violation, REPO
from rt.search_helpers import IntRep, Recorder, Deadline, single_tracker, multi_tracker

from geneticengine.problems import SingleObjectiveProblem, MultiObjectiveProblem
from geneticengine.evaluation.recorder import CSVSearchRecorder
from geneticengine.evaluation.sequential import SequentialEvaluator
from geneticengine.solutions.individual import Individual


class Findings:
    def __init__(self):
        self.by_key = {}

    def add(self, key, what, size):
        cur = self.by_key.get(key)
        if cur is None or size < cur[0]:
            self.by_key[key] = (size, what)

    def violations(self):
        # a defect of the recorder seen in-process also shows in the kill-point files and through SimpleGP: report it once
        base = {k for k in self.by_key if k.startswith("rt:C20:CSVSearchRecorder.") and ".killed_" not in k}
        keep = {}
        for k, v in self.by_key.items():
            if base and ".killed_" in k:
                continue
            if base and k.startswith("rt:C20:SimpleGP.") and not (k.endswith(".extra_field") and "rt:C20:CSVSearchRecorder.extra_field" not in base):
                continue
            keep[k] = v
        return [violation(k, w, unit=k.split(":")[-1]) for k, (s, w) in sorted(keep.items())]


class PhenoRep(IntRep):
    """phenotype = the serial (style int) or a text containing a comma, quotes and a line break (style text)."""

    def __init__(self, style="int"):
        super().__init__()
        self.style = style

    def genotype_to_phenotype(self, genotype):
        if self.style == "int":
            return genotype
        return f'p{genotype},"q{genotype}"\nline two'


def index_of(p):
    return p if isinstance(p, int) else int(p.split(",")[0][1:])


def component(values, p, k):
    """k-th fitness component of the individual with phenotype p: distinct per column."""
    return float(values[index_of(p) % len(values)] + 10 * k)


def make_problem(values, n_obj, minimize):
    if n_obj == 0:  # single-objective problem class
        return SingleObjectiveProblem(lambda p: component(values, p, 0), minimize)
    return MultiObjectiveProblem([minimize] * n_obj, lambda p: [component(values, p, k) for k in range(n_obj)])


def read_log(path):
    """(rows parsed by csv, file is made of complete rows only)."""
    with open(path, "rb") as f:
        raw = f.read()
    text = raw.decode()
    complete = text == "" or text.endswith("\r\n") or text.endswith("\n")
    rows = list(csv.reader(io.StringIO(text, newline="")))
    # a trailing partial row inside an open quote would be swallowed by the parser: re-serialise and compare
    out = io.StringIO(newline="")
    w = csv.writer(out)
    for r in rows:
        w.writerow(r)
    if out.getvalue() != text:
        complete = False
    return rows, complete, text


def _same_number(cell, want):
    try:
        return float(cell) == want
    except ValueError:
        return False


EXTRA = {
    "Twice": lambda t, i, p: index_of(i.get_phenotype()) * 2,
    "Tag": lambda t, i, p: f"<{index_of(i.get_phenotype())}>",
    "Agg": lambda t, i, p: i.get_fitness(p).maximizing_aggregate,
}
CUSTOM = {
    "Pheno": lambda t, i, p: i.get_phenotype(),
    "First": lambda t, i, p: i.get_fitness(p).fitness_components[0],
    "Count": lambda t, i, p: t.get_number_evaluations(),
}


def expected_cells(config, ind, problem, n_cols_obj):
    """column name -> expected text (None: only well-formedness is checked)."""
    p = ind.get_phenotype()
    exp = {}
    if config["fields"] == "custom":
        exp["Pheno"] = str(p)
        exp["First"] = component(config["values"], p, 0)
        exp["Count"] = None
    else:
        exp["Execution Time"] = None
        exp["Phenotype"] = str(p)
        for k in range(n_cols_obj):
            exp[f"Fitness{k}"] = component(config["values"], p, k)
    if config["extra"]:
        exp["Twice"] = str(index_of(p) * 2)
        exp["Tag"] = f"<{index_of(p)}>"
        agg = sum((-1 if config["minimize"] else 1) * component(config["values"], p, k) for k in range(max(1, config["n_obj"])))
        exp["Agg"] = float(agg)
    return exp


def recorder_case(find, directory, config, mode):
    """mode 'direct': register() called by the driver with its own is_best flags; 'tracker': through a real tracker."""
    values, n_obj, minimize = config["values"], config["n_obj"], config["minimize"]
    only_best = config["only_best"]
    n_cols_obj = max(1, n_obj)
    path = os.path.join(directory, "log.csv")
    rep = PhenoRep(config["style"])
    problem = make_problem(values, n_obj, minimize)
    desc = (
        f"CSVSearchRecorder({'SingleObjectiveProblem' if n_obj == 0 else f'MultiObjectiveProblem with {n_obj} objectives'}, fields={config['fields']}, "
        f"extra_fields={'Twice,Tag,Agg' if config['extra'] else None}, only_record_best_individuals={only_best}), fitness history {values}, minimize={minimize}, {mode}, {config['style']} phenotypes"
    )
    size = (len(values), n_cols_obj, config["extra"], config["fields"] == "custom", config["style"] == "text")
    kwargs = {}
    if config["fields"] == "custom":
        kwargs["fields"] = dict(CUSTOM)
    if config["extra"]:
        kwargs["extra_fields"] = dict(EXTRA)
    try:
        rec = CSVSearchRecorder(path, problem, only_record_best_individuals=only_best, **kwargs)
    except Exception as ex:  # noqa
        find.add("rt:C20:CSVSearchRecorder.init_exception", f"{desc}: constructor raised {type(ex).__name__}: {str(ex)[:80]}", size)
        return False
    header = (["Pheno", "First", "Count"] if config["fields"] == "custom" else ["Execution Time", "Phenotype"] + [f"Fitness{k}" for k in range(n_cols_obj)]) + (list(EXTRA) if config["extra"] else [])
    mine = Recorder()
    tracker = (single_tracker if n_obj == 0 else multi_tracker)(problem, [rec, mine])
    inds = [Individual(rep.create_genotype(None), rep) for _ in values]
    expected_rows = []
    prior = None
    if config.get("prior"):
        # multi-stage history: the individuals already carry a fitness for an earlier, still alive problem
        # (survivors of a first search stage); the log of THIS problem must not show those numbers
        prior = make_problem([v + 7 for v in values], max(2, n_cols_obj), not minimize)
        SequentialEvaluator().evaluate(prior, inds)
        desc += ", individuals previously evaluated under another problem"

    def verify(step):
        rows, complete, text = read_log(path)
        if not complete:
            find.add("rt:C20:CSVSearchRecorder.incomplete_row", f"{desc}: after {step} the file does not consist of complete rows only: ...{text[-60:]!r}", size)
            return False
        if not rows or rows[0] != header:
            find.add("rt:C20:CSVSearchRecorder.header", f"{desc}: after {step} the header is {rows[0] if rows else None}, configured fields are {header}", size)
            return False
        body = rows[1:]
        if len(body) != len(expected_rows):
            find.add("rt:C20:CSVSearchRecorder.row_count", f"{desc}: after {step} the file has {len(body)} rows, expected {len(expected_rows)}", size)
            return False
        for r, (ind, exp) in zip(body, expected_rows):
            if len(r) != len(header):
                find.add("rt:C20:CSVSearchRecorder.row_width", f"{desc}: after {step} a row has {len(r)} cells for {len(header)} columns: {r}", size)
                return False
            for name, cell in zip(header, r):
                want = exp[name]
                if want is None:
                    try:
                        float(cell)
                    except ValueError:
                        find.add("rt:C20:CSVSearchRecorder.cell", f"{desc}: column {name} holds {cell!r}", size)
                        return False
                elif (isinstance(want, float) and not _same_number(cell, want)) or (not isinstance(want, float) and cell != want):
                    kind = "fitness_column" if name.startswith("Fitness") else ("extra_field" if name in EXTRA else "cell")
                    find.add(
                        f"rt:C20:CSVSearchRecorder.{kind}",
                        f"{desc}: after {step}, row of the individual with phenotype {ind.get_phenotype()!r} (components {[component(values, ind.get_phenotype(), k) for k in range(n_cols_obj)]}): column {name} holds {cell!r}, expected {want!r}; row {r}",
                        size,
                    )
                    return False
        return True

    try:
        if not verify("construction"):
            return False
        best_so_far = None
        for n, ind in enumerate(inds):
            v = component(values, ind.get_phenotype(), 0)
            strict = best_so_far is None or (v < best_so_far if minimize else v > best_so_far)
            if strict:
                best_so_far = v
            if mode == "direct":
                tracker.evaluator.evaluate(problem, [ind])
                rec.register(tracker, ind, problem, strict)
                flagged = strict
            else:
                tracker.evaluate([ind])
                flagged = mine.log[-1][1]
                if n_obj == 0 and flagged != strict:
                    return True  # the tracker's flag is C12's matter; this case cannot judge the recorder
            if (not only_best) or flagged:
                expected_rows.append((ind, expected_cells(config, ind, problem, n_cols_obj)))
            if not verify(f"registration #{n + 1}"):
                return False
    except Exception as ex:  # noqa
        find.add("rt:C20:CSVSearchRecorder.register_exception", f"{desc}: raised {type(ex).__name__}: {str(ex)[:80]}", size)
        return False
    finally:
        try:
            rec.csv_file.close()
        except Exception:  # noqa
            pass
    return True


def simplegp_case(find, directory, n_extra, only_best, values, seed):
    from geml.simplegp import SimpleGP

    path = os.path.join(directory, "simplegp.csv")
    names = ["alpha", "beta", "gamma", "delta"][:n_extra]
    cbs = {nm: (lambda ph, j=j, nm_=nm: f"{nm_}-{ph * (j + 2)}") for j, nm in enumerate(names)}
    # each callback has its own recognisable output: "<name>-<phenotype * (position + 2)>"
    problem = SingleObjectiveProblem(lambda p: component(values, p, 0))
    desc = f"SimpleGP.build_recorder(csv_extra_fields={names}, only_record_best_individuals={only_best}), fitness history {values}"
    size = (n_extra, len(values))
    try:
        tracker = SimpleGP.build_recorder(None, problem, path, only_best, False, dict(cbs))
    except Exception as ex:  # noqa
        find.add("rt:C20:SimpleGP.build_recorder.exception", f"{desc}: raised {type(ex).__name__}: {str(ex)[:80]}", size)
        return False
    rep = PhenoRep("int")
    inds = [Individual(rep.create_genotype(None), rep) for _ in values]
    mine = Recorder()
    tracker.recorders.append(mine)
    try:
        for ind in inds:
            tracker.evaluate([ind])
        rows, complete, text = read_log(path)
    except Exception as ex:  # noqa
        find.add("rt:C20:SimpleGP.build_recorder.exception", f"{desc}: raised {type(ex).__name__}: {str(ex)[:80]}", size)
        return False
    finally:
        for r in tracker.recorders:
            if hasattr(r, "csv_file"):
                r.csv_file.close()
    header = ["Execution Time", "Phenotype", "Fitness0"] + names
    if not rows or rows[0] != header:
        find.add("rt:C20:SimpleGP.build_recorder.header", f"{desc}: header {rows[0] if rows else None}, expected {header}", size)
        return False
    kept = [ind for ind, (_, flag, _, _) in zip(inds, mine.log) if flag or not only_best]
    if len(rows) - 1 != len(kept) or not complete:
        find.add("rt:C20:SimpleGP.build_recorder.rows", f"{desc}: {len(rows) - 1} rows (complete rows only: {complete}), expected {len(kept)}", size)
        return False
    for r, ind in zip(rows[1:], kept):
        ph = ind.get_phenotype()
        for j, nm in enumerate(names):
            want = f"{nm}-{ph * (j + 2)}"
            got = r[3 + j] if len(r) > 3 + j else None
            if got != want:
                find.add(
                    "rt:C20:SimpleGP.build_recorder.extra_field",
                    f"{desc}: row of phenotype {ph}: column {nm} holds {got!r}, its own callback gives {want!r}; row {r}",
                    size,
                )
                return False
    return True


CHILD = r'''
import json, sys, time
cfg = json.loads(sys.argv[1])
sys.path.insert(0, cfg["repo"])
from geneticengine.problems import SingleObjectiveProblem, MultiObjectiveProblem
from geneticengine.evaluation.recorder import CSVSearchRecorder, SearchRecorder
from geneticengine.evaluation.sequential import SequentialEvaluator
from geneticengine.evaluation.tracker import SingleObjectiveProgressTracker, MultiObjectiveProgressTracker
from geneticengine.representations.api import Representation
from geneticengine.solutions.individual import Individual

values, n_obj, k = cfg["values"], cfg["n_obj"], cfg["kill_after"]

class Rep(Representation):
    def genotype_to_phenotype(self, g):
        return g if cfg["style"] == "int" else 'p%d,"q%d"\nline two' % (g, g)

def idx(p):
    return p if isinstance(p, int) else int(p.split(",")[0][1:])

def comp(p, j):
    return float(values[idx(p) % len(values)] + 10 * j)

def pause():
    sys.stdout.write("READY\n"); sys.stdout.flush()
    time.sleep(120)

class Stop(SearchRecorder):
    n = 0
    def register(self, tracker, individual, problem, is_best):
        Stop.n += 1
        if Stop.n == k:
            pause()

if n_obj == 0:
    problem = SingleObjectiveProblem(lambda p: comp(p, 0), cfg["minimize"])
else:
    problem = MultiObjectiveProblem([cfg["minimize"]] * n_obj, lambda p: [comp(p, j) for j in range(n_obj)])
extra = {"Twice": (lambda t, i, p: idx(i.get_phenotype()) * 2)} if cfg["extra"] else None
rec = CSVSearchRecorder(cfg["path"], problem, extra_fields=extra, only_record_best_individuals=cfg["only_best"])
if k == 0:
    pause()
T = SingleObjectiveProgressTracker if n_obj == 0 else MultiObjectiveProgressTracker
tracker = T(problem, SequentialEvaluator(), recorders=[rec, Stop()])
rep = Rep()
for g in range(len(values)):
    tracker.evaluate([Individual(g, rep)])
pause()
'''


def kill_case(find, directory, cfg, script):
    """Child registers rows and is SIGKILLed after `kill_after` registrations; the file must be a valid prefix."""
    path = os.path.join(directory, f"kill_{cfg['kill_after']}.csv")
    cfg = dict(cfg, path=path, repo=REPO)
    values, n_obj, k, only_best, minimize = cfg["values"], cfg["n_obj"], cfg["kill_after"], cfg["only_best"], cfg["minimize"]
    desc = f"child process with CSVSearchRecorder({n_obj or 1} objective(s), extra_fields={'Twice' if cfg['extra'] else None}, only_record_best_individuals={only_best}), history {values}, {cfg['style']} phenotypes, SIGKILL after registration #{k}"
    size = (len(values), k)
    proc = subprocess.Popen([sys.executable, script, json.dumps(cfg)], stdout=subprocess.PIPE, stderr=subprocess.PIPE, text=True)
    try:
        line = proc.stdout.readline()
        if line.strip() != "READY":
            err = proc.stderr.read()[-300:]
            proc.kill()
            if "Error" in err or "Traceback" in err:
                find.add("rt:C20:CSVSearchRecorder.child_exception", f"{desc}: the child failed before the kill point: {err[-200:]}", size)
            return None
        os.kill(proc.pid, signal.SIGKILL)
        proc.wait(timeout=10)
    finally:
        if proc.poll() is None:
            proc.kill()
        proc.stdout.close()
        proc.stderr.close()
    rows, complete, text = read_log(path)
    n_cols_obj = max(1, n_obj)
    header = ["Execution Time", "Phenotype"] + [f"Fitness{j}" for j in range(n_cols_obj)] + (["Twice"] if cfg["extra"] else [])
    # expected rows among the first k registrations
    exp = []
    best = None
    for g in range(min(k, len(values))):
        v = float(values[g % len(values)])
        strict = best is None or (v < best if minimize else v > best)
        if strict:
            best = v
        if not only_best or strict:
            exp.append(g)
    ok = True
    if not complete:
        find.add("rt:C20:CSVSearchRecorder.killed_incomplete_row", f"{desc}: the file left behind does not end with a complete row: ...{text[-60:]!r}", size)
        ok = False
    elif not rows or rows[0] != header:
        find.add("rt:C20:CSVSearchRecorder.killed_header", f"{desc}: the file left behind has header {rows[0] if rows else None}, expected {header}", size)
        ok = False
    elif len(rows) - 1 != len(exp):
        find.add("rt:C20:CSVSearchRecorder.killed_prefix", f"{desc}: the file left behind has {len(rows) - 1} rows, expected the {len(exp)} rows registered before the kill", size)
        ok = False
    else:
        for r, g in zip(rows[1:], exp):
            want = [str(float(values[g % len(values)] + 10 * j)) for j in range(n_cols_obj)]
            if len(r) != len(header) or r[2 : 2 + n_cols_obj] != want:
                find.add("rt:C20:CSVSearchRecorder.killed_prefix", f"{desc}: row {r} is not the row of individual #{g} (fitness columns {want})", size)
                ok = False
                break
    return ok


def run(tier: str, seed: int) -> dict:
    quick = tier != "thorough"
    dl = Deadline(22 if quick else 240)
    rng = pyrandom.Random(seed)
    find = Findings()
    directory = tempfile.mkdtemp(prefix="rt_c20_")
    evaluations = nontrivial = 0
    samples = []
    kills = 0
    notes = []
    try:
        histories = [[1], [1, 1], [0, 1, 2], [2, 1, 0], [1, 2, 2, 0, 3], [3, 1, 3, 4, 4, 0]]
        histories += [[rng.randint(0, 4) for _ in range(rng.randint(2, 7))] for _ in range(3 if quick else 25)]
        combos = list(itertools.product((0, 1, 2, 3, 4), ("default", "custom"), (False, True), (False, True), (False, True), ("direct", "tracker")))
        i = 0
        for n_obj, fields, extra, only_best, minimize, mode in combos:
            for h in histories:
                if dl.over():
                    break
                i += 1
                if mode == "tracker" and n_obj >= 1 and only_best:
                    # multi-objective trackers flag ties as best (C12's reading); rows are then compared with the flags delivered
                    pass
                config = dict(values=h, n_obj=n_obj, fields=fields, extra=extra, only_best=only_best, minimize=minimize, style="text" if i % 4 == 0 else "int", prior=i % 3 == 1)
                ok = recorder_case(find, directory, config, mode)
                evaluations += 1
                nontrivial += len(h) > 1 and (n_obj >= 2 or extra)
                if len(samples) < 5 and i % 97 == 3:
                    samples.append(f"{n_obj or 'single'} objective(s), fields={fields}, extra={extra}, only_best={only_best}, history {h}, {mode}: {'ok' if ok else 'VIOLATION'}")
        for n_extra in (1, 2, 3, 4):
            for only_best in (False, True):
                for h in histories[: (4 if quick else len(histories))]:
                    ok = simplegp_case(find, directory, n_extra, only_best, h, seed)
                    evaluations += 1
                    nontrivial += n_extra > 1
        samples.append(f"SimpleGP.build_recorder with 1..4 extra callbacks x both modes x {4 if quick else len(histories)} histories checked")
        # kill points
        script = os.path.join(directory, "child.py")
        with open(script, "w") as f:
            f.write(CHILD)
        kcfgs = [
            dict(values=[0, 1, 1, 2], n_obj=0, extra=False, only_best=False, minimize=False, style="int"),
            dict(values=[2, 0, 1, 3], n_obj=3, extra=True, only_best=False, minimize=False, style="text"),
        ]
        if True:
            kcfgs += [
                dict(values=[3, 1, 2, 0, 0], n_obj=0, extra=True, only_best=True, minimize=True, style="int"),
                dict(values=[1, 2, 3, 4, 5, 6], n_obj=2, extra=False, only_best=False, minimize=True, style="int"),
            ]
        if not quick:
            kcfgs += [
                dict(values=[0, 0, 1, 0, 2, 2, 3], n_obj=0, extra=False, only_best=True, minimize=False, style="text"),
                dict(values=[4, 3, 2, 1], n_obj=4, extra=True, only_best=False, minimize=False, style="text"),
            ]
            kcfgs += [dict(values=[rng.randint(0, 5) for _ in range(rng.randint(2, 8))], n_obj=rng.choice([0, 0, 1, 2, 3]), extra=rng.random() < 0.5, only_best=False, minimize=rng.random() < 0.5, style=rng.choice(["int", "text"])) for _ in range(12)]
        for cfg in kcfgs:
            for k in range(0, len(cfg["values"]) + 1):
                if dl.over():
                    break
                r = kill_case(find, directory, dict(cfg, kill_after=k), script)
                kills += 1
                evaluations += 1
                nontrivial += k > 0
                if r is None:
                    notes.append(f"kill point {k} of {cfg}: child did not reach the kill point")
        samples.append(f"{kills} kill points (SIGKILL between registrations) verified against the expected prefix")
    finally:
        shutil.rmtree(directory, ignore_errors=True)
    rule = (
        "CSVSearchRecorder on real temp files: SingleObjectiveProblem and MultiObjectiveProblem with 1-4 objectives x default / custom fields x with / without extra_fields x "
        "only_record_best_individuals True/False x both directions x fitness histories of length 1..7 x int phenotypes and text phenotypes containing comma, quotes and a line break; "
        "register() driven directly (is_best = strict improvement) and through real trackers; after construction and after EVERY register call the file is re-read: it re-serialises to itself "
        "(complete rows only), header == configured fields, one row per registration (only flagged ones when so configured), Fitness{k} == k-th component (columns made distinct by +10k), "
        "extra fields computed from that individual; in a third of the cases the individuals were evaluated under an earlier, still alive problem first (multi-stage search).  SimpleGP.build_recorder with 1-4 csv_extra_fields callbacks (each column must show its own callback's output).  Kill points: a child "
        "process registers rows through a real tracker and is SIGKILLed after registration #k for every k (0..n); the file left behind must be header + exactly the rows registered so far"
    )
    return result(evaluations, nontrivial, rule, samples, find.violations(), exhaustive=False, kill_points=kills, notes=notes[:5])
