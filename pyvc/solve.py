"""Discharging obligations with z3 (in-process) and cvc5 / z3-new (CLI on SMT-LIB dumps) as second opinion."""
from __future__ import annotations

import os
import subprocess
import tempfile
import time
import z3

Z3_MS = int(os.environ.get("PYVC_Z3_MS", "40000"))
CVC5_S = int(os.environ.get("PYVC_CVC5_S", "20"))


class Verdict:
    __slots__ = ("status", "backend", "ms", "model", "reason")

    def __init__(self, status, backend, ms, model=None, reason=""):
        self.status, self.backend, self.ms, self.model, self.reason = status, backend, ms, model, reason


def _mk_solver(axioms, assumptions, goal, timeout_ms):
    s = z3.Solver()
    s.set("timeout", timeout_ms)
    for a in axioms:
        s.add(a)
    for a in assumptions:
        s.add(a)
    s.add(z3.Not(goal))
    return s


def try_cli(smt2: str, cmd: list[str], timeout_s: int) -> str:
    with tempfile.NamedTemporaryFile("w", suffix=".smt2", delete=False) as f:
        f.write(smt2)
        path = f.name
    try:
        out = subprocess.run(cmd + [path], capture_output=True, text=True, timeout=timeout_s + 5)
        first = (out.stdout.strip().splitlines() or ["unknown"])[0].strip()
        return first if first in ("sat", "unsat", "unknown") else "unknown"
    except Exception:
        return "unknown"
    finally:
        os.unlink(path)


def discharge(ob, axioms, second_opinion=True, retry=True, budget_ms=None) -> Verdict:
    t0 = time.time()
    s = _mk_solver(axioms, ob.assumptions, ob.goal, budget_ms or Z3_MS)
    r = s.check()
    ms = int((time.time() - t0) * 1000)
    if r == z3.unsat:
        return Verdict("discharged", "z3-" + z3.get_version_string(), ms)
    if r == z3.sat:
        return Verdict("failed", "z3-" + z3.get_version_string(), ms, model=s.model())
    reason = s.reason_unknown()
    if retry and ("timeout" in reason or "canceled" in reason):
        # a budget hit is not a verdict: one more attempt with three times the budget and another seed, so that a busy
        # machine does not flip a result (obligations that verified in milliseconds on an idle one)
        s2 = _mk_solver(axioms, ob.assumptions, ob.goal, Z3_MS * 3)
        s2.set("random_seed", 7)
        r2 = s2.check()
        ms = int((time.time() - t0) * 1000)
        if r2 == z3.unsat:
            return Verdict("discharged", "z3-" + z3.get_version_string() + "(retry)", ms)
        if r2 == z3.sat:
            return Verdict("failed", "z3-" + z3.get_version_string() + "(retry)", ms, model=s2.model())
        reason = s2.reason_unknown()
    if second_opinion:
        v2 = second_opinion_cli(s)
        if v2 is not None:
            return v2
    return Verdict("unknown", "z3", int((time.time() - t0) * 1000), reason=reason)


def second_opinion(ob, axioms):
    return second_opinion_cli(_mk_solver(axioms, ob.assumptions, ob.goal, Z3_MS))


def second_opinion_cli(s):
    if True:
        smt2 = s.to_smt2()
        # lambdas are a z3 extension; cvc5 accepts them only in HO mode, so try z3-new first
        t1 = time.time()
        r2 = try_cli(smt2, ["z3-new", f"-T:{CVC5_S}"], CVC5_S)
        if r2 == "unsat":
            return Verdict("discharged", "z3-new(cli)", int((time.time() - t1) * 1000))
        if "lambda" not in smt2:
            t1 = time.time()
            r3 = try_cli(smt2, ["/usr/bin/cvc5", f"--tlimit={CVC5_S * 1000}", "--full-saturate-quant"], CVC5_S)
            if r3 == "unsat":
                return Verdict("discharged", "cvc5(cli)", int((time.time() - t1) * 1000))
    return None


def candidate_model(ob, axioms):
    """For an `unknown` obligation: drop quantified assumptions and ask for a model of the rest.
    Only a *candidate* (to be confirmed by native replay)."""
    s = z3.Solver()
    s.set("timeout", 3000)
    for a in list(axioms) + list(ob.assumptions):
        if not _has_quant(a):
            s.add(a)
    g = z3.Not(ob.goal)
    s.add(g)
    if s.check() == z3.sat:
        return s.model()
    return None


def _has_quant(e) -> bool:
    todo, seen = [e], set()
    while todo:
        x = todo.pop()
        if x.get_id() in seen:
            continue
        seen.add(x.get_id())
        if z3.is_quantifier(x):
            return True
        todo.extend(x.children())
    return False


# ------------------------------------------------------------------------------------------------
# Bounded counter-model search: quantifiers over integer ranges are expanded exactly under the side
# condition that every range has at most B elements; recursive spec functions are unrolled on the ground
# terms that occur.  The result is quantifier-free, so z3 can answer `sat` with a small model.  Such a
# model is only a *candidate*: it is replayed natively before anything is reported as confirmed.
class GiveUp(Exception):
    pass


def _flatten_and(e):
    if z3.is_and(e):
        out = []
        for c in e.children():
            out.extend(_flatten_and(c))
        return out
    return [e]


def _bounds_for(v, atoms):
    """Find lo, hi (exclusive) for integer constant v among guard atoms; returns (lo, hi, used atoms)."""
    lo = hi = None
    for a in atoms:
        if not z3.is_app(a) or a.num_args() != 2:
            continue
        l, r = a.arg(0), a.arg(1)
        k = a.decl().kind()
        if k == z3.Z3_OP_LE:  # l <= r
            if r.eq(v) and lo is None and not _mentions(l, v):
                lo = l
            elif l.eq(v) and hi is None and not _mentions(r, v):
                hi = r + 1
        elif k == z3.Z3_OP_GE:  # l >= r
            if l.eq(v) and lo is None and not _mentions(r, v):
                lo = r
            elif r.eq(v) and hi is None and not _mentions(l, v):
                hi = l + 1
        elif k == z3.Z3_OP_LT:  # l < r
            if l.eq(v) and hi is None and not _mentions(r, v):
                hi = r
            elif r.eq(v) and lo is None and not _mentions(l, v):
                lo = l + 1
        elif k == z3.Z3_OP_GT:  # l > r
            if r.eq(v) and hi is None and not _mentions(l, v):
                hi = l
            elif l.eq(v) and lo is None and not _mentions(r, v):
                lo = r + 1
    return lo, hi


def _mentions(e, v):
    todo, seen = [e], set()
    while todo:
        x = todo.pop()
        if x.get_id() in seen:
            continue
        seen.add(x.get_id())
        if x.eq(v):
            return True
        todo.extend(x.children())
    return False


_fin_counter = [0]


def finitize(e, B, side, pol=1):
    """pol: +1 positive, -1 negative, 0 mixed."""
    if z3.is_quantifier(e):
        if e.is_lambda():
            return e
        n = e.num_vars()
        consts = []
        for i in range(n):
            _fin_counter[0] += 1
            consts.append(z3.Const(f"fin!{_fin_counter[0]}", e.var_sort(i)))
        body = z3.substitute_vars(e.body(), *reversed(consts))
        is_forall = e.is_forall()
        eff = pol if is_forall else -pol  # +1: behaves like an assumption-side forall (may be weakened)
        if is_forall:
            if z3.is_implies(body):
                guard, inner = _flatten_and(body.arg(0)), body.arg(1)
            else:
                guard, inner = [], body
        else:
            atoms = _flatten_and(body)
            guard, inner = atoms, None
        ranges = []
        ok = True
        for c in consts:
            if c.sort() != z3.IntSort():
                ok = False
                break
            lo, hi = _bounds_for(c, guard)
            if lo is None or hi is None:
                ok = False
                break
            ranges.append((c, lo, hi))
        if not ok:
            if eff == 1:
                return z3.BoolVal(True) if is_forall else z3.BoolVal(False)
            raise GiveUp("unbounded quantifier in a position that cannot be weakened")
        insts = [body]
        for c, lo, hi in ranges:
            new = []
            for b in insts:
                for i in range(B):
                    new.append(z3.substitute(b, (c, lo + i)))
            insts = new
            if not any(_mentions(hi - lo, c2) for c2, _, _ in ranges):
                side.append(hi - lo <= B)
        insts = [finitize(z3.simplify(x), B, side, pol) for x in insts]
        return z3.And(insts) if is_forall else z3.Or(insts)
    if not z3.is_app(e) or e.num_args() == 0:
        return e
    k = e.decl().kind()
    ch = e.children()
    if k == z3.Z3_OP_NOT:
        return z3.Not(finitize(ch[0], B, side, -pol))
    if k == z3.Z3_OP_IMPLIES:
        return z3.Implies(finitize(ch[0], B, side, -pol), finitize(ch[1], B, side, pol))
    if k in (z3.Z3_OP_AND, z3.Z3_OP_OR):
        parts = [finitize(c, B, side, pol) for c in ch]
        return z3.And(parts) if k == z3.Z3_OP_AND else z3.Or(parts)
    if not _has_quant(e):
        return e
    new = [finitize(c, B, side, 0) for c in ch]
    return e.decl()(*new)


def bounded_model(ob, axioms, recdefs=None, B=3, timeout_ms=8000):
    """Quantifier-free bounded search for a counter-model of `ob` (see comment above)."""
    side = []
    try:
        parts = [finitize(a, B, side, 1) for a in list(axioms) + list(ob.assumptions)]
        parts.append(finitize(z3.Not(ob.goal), B, side, 1))
    except GiveUp:
        return None
    # unroll recursive spec functions on the ground applications that occur
    extra = []
    if recdefs:
        seen = set()
        frontier = list(parts)
        for _round in range(max(B + 2, 12)):
            apps = []
            for p in frontier:
                _collect_apps(p, set(d.name() for d in recdefs), apps, set())
            frontier = []
            for a in apps:
                if a.get_id() in seen:
                    continue
                seen.add(a.get_id())
                for d, defn in recdefs.items():
                    if a.decl().name() == d.name():
                        inst = z3.simplify(a == defn(*a.children()))
                        extra.append(inst)
                        frontier.append(inst)
    s = z3.Solver()
    s.set("timeout", timeout_ms)
    s.add(*parts)
    s.add(*side)
    s.add(*extra)
    if s.check() == z3.sat:
        return s.model()
    return None


def _collect_apps(e, names, out, seen):
    if e.get_id() in seen:
        return
    seen.add(e.get_id())
    if z3.is_quantifier(e):
        return
    if z3.is_app(e):
        if e.decl().name() in names and e.num_args() > 0:
            out.append(e)
        for c in e.children():
            _collect_apps(c, names, out, seen)
