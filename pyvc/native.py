"""Native (CPython) side of the contracts: run-time evaluation of the same clause texts, construction of
real inputs from solver models, replay of counterexamples against the real code in /repo."""
from __future__ import annotations

import ast
import copy
import importlib
import os
import sys
import traceback

REPO = os.environ.get("PYVC_REPO", "/repo")
if REPO not in sys.path:
    sys.path.insert(0, REPO)


# ------------------------------------------------------------------------------------------------
# native definitions of the spec vocabulary
class _Old:
    """Snapshot of mutable arguments taken before the call."""

    def __init__(self):
        self.lists = {}
        self.values = {}
        self.reach_ids = set()
        self.keep = []

    def reach(self, v, depth=0):
        if depth > 6 or isinstance(v, (int, float, bool, str, type(None))):
            return
        if id(v) in self.reach_ids:
            return
        self.reach_ids.add(id(v))
        self.keep.append(v)
        if isinstance(v, (list, tuple)):
            for x in v[:200]:
                self.reach(x, depth + 1)
        elif isinstance(v, dict):
            for x in list(v.values())[:200]:
                self.reach(x, depth + 1)
        elif hasattr(v, "__dict__"):
            for x in list(vars(v).values()):
                self.reach(x, depth + 1)

    def snap(self, name, v):
        self.reach(v)
        if isinstance(v, list):
            self.lists[id(v)] = list(v)
        elif isinstance(v, dict):
            self.lists[id(v)] = {k: (list(x) if isinstance(x, list) else x) for k, x in v.items()}
        self.values[name] = v


def native_namespace(old: _Old):
    def forall(lo, hi, f):
        return all(f(k) for k in range(lo, hi))

    def exists(lo, hi, f):
        return any(f(k) for k in range(lo, hi))

    def implies(a, b):
        return (not a) or bool(b)

    def iff(a, b):
        return bool(a) == bool(b)

    def same(a, b):
        return a is b or (type(a) in (int, float, bool, str) and type(a) == type(b) and a == b)

    def ite(c, a, b):
        return a if c else b

    def oldel(lst, i):
        return old.lists[id(lst)][i]

    def oldlen(lst):
        return len(old.lists[id(lst)])

    def psum(lst, n):
        return sum(lst[:n]) if n > 0 else 0

    def trunc(x):
        return int(x)

    def fresh(x):
        return id(x) not in old.reach_ids

    ns = dict(forall=forall, exists=exists, implies=implies, iff=iff, same=same, ite=ite, oldel=oldel, oldlen=oldlen, psum=psum, trunc=trunc)
    ns.update(NATIVE_FUNCS)
    ns["fresh"] = fresh
    return ns


NATIVE_FUNCS: dict = {}


def nativefunc(name):
    def deco(f):
        NATIVE_FUNCS[name] = f
        return f

    return deco


class _OldRewriter(ast.NodeTransformer):
    """Replace old(e) by a reference to a value computed in the pre-state."""

    def __init__(self):
        self.exprs = []

    def visit_Call(self, node):
        if isinstance(node.func, ast.Name) and node.func.id == "old" and len(node.args) == 1:
            self.exprs.append(node.args[0])
            return ast.copy_location(ast.Subscript(value=ast.Name(id="__oldvals__", ctx=ast.Load()), slice=ast.Constant(len(self.exprs) - 1), ctx=ast.Load()), node)
        return self.generic_visit(node)


class NativeClause:
    def __init__(self, text: str):
        self.text = text
        tree = ast.parse(text.strip(), mode="eval")
        rw = _OldRewriter()
        tree = ast.fix_missing_locations(rw.visit(tree))
        self.code = compile(tree, "<clause>", "eval")
        self.old_codes = [compile(ast.fix_missing_locations(ast.Expression(e)), "<old>", "eval") for e in rw.exprs]

    def pre(self, ns):
        return [copy.deepcopy(eval(c, dict(ns))) for c in self.old_codes]

    def post(self, ns, oldvals):
        ns = dict(ns)
        ns["__oldvals__"] = oldvals
        return bool(eval(self.code, ns))


# ------------------------------------------------------------------------------------------------
# scripted random source (replays the oracle values of a solver model)
def scripted_source_class():
    from geneticengine.random.sources import RandomSource

    class ScriptedSource(RandomSource):
        def __init__(self, script=None, default="lo"):
            self.script = list(script or [])
            self.pos = 0
            self.log = []
            self.default = default

        def _next(self, lo, hi, is_float):
            if self.pos < len(self.script):
                v = self.script[self.pos]
                self.pos += 1
                if not (lo <= v <= hi):
                    v = lo
            else:
                v = lo if self.default == "lo" else hi
            self.log.append((lo, hi, v))
            return float(v) if is_float else int(v)

        def randint(self, min, max):
            return self._next(min, max, False)

        def random_float(self, min, max):
            return self._next(min, max, True)

    return ScriptedSource


def resolve_callable(file: str, qualname: str):
    modname = file[:-3].replace("/", ".")
    if modname.endswith(".__init__"):
        modname = modname[: -len(".__init__")]
    mod = importlib.import_module(modname)
    obj = mod
    for part in qualname.split("."):
        obj = getattr(obj, part)
    return obj


class NativeOutcome:
    def __init__(self):
        self.raised = None
        self.result = None
        self.failed_clauses = []
        self.pre_failed = []
        self.unevaluable = []
        self.traceback = ""

    @property
    def violated(self):
        return bool(self.failed_clauses) or (self.raised is not None and not self.raise_allowed)

    raise_allowed = True


def run_native(contract, reg, args: dict, check_pre=True) -> NativeOutcome:
    """Call the real function with `args` (name -> python value) and evaluate the contract natively."""
    out = NativeOutcome()
    old = _Old()
    for n, v in args.items():
        old.snap(n, v)
    ns = native_namespace(old)
    ns.update(args)
    if check_pre:
        for lab, txt in contract.requires.items():
            try:
                if not NativeClause(txt).post(ns, []):
                    out.pre_failed.append(lab)
            except Exception as ex:  # clause not natively evaluable
                out.pre_failed.append(f"{lab}: {ex!r}")
        if out.pre_failed:
            return out
    native_ens = getattr(contract, "native_ensures", None) or {}
    clauses = {}
    import re

    for lab, txt in contract.ensures.items():
        t = native_ens.get(lab, txt)
        if t is None:
            continue
        if lab not in native_ens and any(re.search(rf"\b{w}\b", txt) for w in contract.witnesses):
            continue  # existential ghost witness: not natively evaluable without a native_ensures variant
        clauses[lab] = NativeClause(t)
    if contract.overrides:
        ic = reg.contracts[contract.overrides]
        for lab, txt in ic.ensures.items():
            clauses["iface." + lab] = NativeClause(txt)
    oldvals = {}
    for lab, cl in clauses.items():
        try:
            oldvals[lab] = cl.pre(ns)
        except Exception:
            oldvals[lab] = None
    fn = resolve_callable(contract.file, contract.srcname)
    try:
        res = fn(**args)
        if hasattr(res, "__next__") and not isinstance(res, (list, tuple)):
            import types

            if isinstance(res, types.GeneratorType):
                res = list(res)
        out.result = res
    except BaseException as ex:  # noqa
        out.raised = type(ex).__name__
        out.traceback = traceback.format_exc(limit=6)
        allowed = False
        for e in contract.raises:
            if any(k.__name__ == e for k in type(ex).__mro__):
                try:
                    allowed = NativeClause(contract.raises[e]).post(ns, [])
                except Exception:
                    allowed = True
        out.raise_allowed = allowed
        return out
    ns["result"] = out.result
    for lab, cl in clauses.items():
        try:
            ok = cl.post(ns, oldvals[lab])
        except Exception as ex:
            out.unevaluable.append(f"{lab}: {ex!r}")
            continue
        if not ok:
            out.failed_clauses.append(lab)
    return out


@nativefunc("keysof")
def _keys(d):
    return list(d.keys())


@nativefunc("eqlist")
def _eqlist(a, b):
    return list(a) == list(b)


@nativefunc("fresh")
def _fresh(x):
    # freshness is a heap property checked by the prover's frame obligations; natively approximated by the
    # replay harness (identity against the inputs) -- see run_native
    return True


@nativefunc("allocated")
def _allocated(x):
    return True


@nativefunc("ssum")
def _ssum(c, m, n):
    return sum((-c[k] if m[k] else c[k]) for k in range(n))


@nativefunc("fitval")
def _fitval(fn, phenotype):
    return fn.peek(phenotype) if hasattr(fn, "peek") else fn(phenotype)
