"""Per-property orchestration: generate VCs for every unit tagged with the property from /repo's current
source, discharge them, replay counter-models natively, run the bounded stand-in, write evidence."""
from __future__ import annotations

import argparse
import importlib
import json
import multiprocessing as mp
import os
import pkgutil
import sys
import time
import traceback

VERIF = os.path.dirname(os.path.dirname(os.path.abspath(__file__)))
if VERIF not in sys.path:
    sys.path.insert(0, VERIF)
REPO = os.environ.get("PYVC_REPO", "/repo")
if REPO not in sys.path:
    sys.path.insert(0, REPO)


def load_specs():
    import specs

    for m in pkgutil.iter_modules(specs.__path__):
        importlib.import_module("specs." + m.name)
    from pyvc.spec import REG

    return REG


# ------------------------------------------------------------------------------------------------
def verify_unit_worker(qualname: str) -> dict:
    """Runs in a worker process: VCs for one unit, solver verdicts, native replay of counter-models."""
    import z3
    from pyvc.engine import Executor
    from pyvc.solve import discharge, second_opinion, bounded_model
    from pyvc import witness, native

    reg = load_specs()
    c = reg.contracts[qualname]
    out = {"unit": qualname, "file": c.file, "props": c.props, "obligations": [], "error": None}
    t0 = time.time()
    import signal

    class _UnitTimeout(Exception):
        pass

    def _alarm(signum, frame):
        raise _UnitTimeout()

    signal.signal(signal.SIGALRM, _alarm)
    signal.alarm(int(os.environ.get("PYVC_UNIT_S", "420")))
    try:
        ex = Executor(reg, c)
        r = ex.verify()
        out.update(
            sha256=r.sha,
            lines=list(r.lines) if r.lines else None,
            unsupported=r.unsupported,
            paths=r.paths,
            cover=getattr(r, "cover", 0),
            vacuous_requires=r.vacuous,
            inlined=sorted(r.inlined),
            externals=sorted(r.externals),
            used_contracts=sorted(r.used_contracts),
            assumptions=sorted(r.assumptions),
            dropped=sorted(r.dropped),
            gen_s=round(r.gen_s, 3),
        )
        # a budget hit is retried with a larger budget only when the unit's source is the one the baseline was recorded for
        # (then it is load, not a change of the code); on changed code an obligation that does not verify within the
        # budget must fail fast, or the retries of several such obligations exhaust the unit's budget
        _b_unit = read_baseline()["units"].get(qualname, {})
        source_unchanged = _b_unit.get("sha256") in (None, r.sha)

        def do_ob(ob):
            # on changed source: no retry and a shorter budget per obligation (15 s; what verified on the baseline did so in
            # milliseconds), so that a unit with many obligations that no longer verify reports them instead of running out of time
            v = discharge(ob, r.axioms, second_opinion=False, retry=source_unchanged, budget_ms=None if source_unchanged else 15000)
            rec = {
                "id": ob.id,
                "kind": ob.kind,
                "label": ob.label,
                "line": ob.lineno,
                "status": v.status,
                "backend": v.backend,
                "ms": v.ms,
                "note": ob.note,
                "path": ob.path,
            }
            model = v.model
            if v.status == "unknown":
                rec["reason"] = v.reason
                model = None
                for B in (2, 3, 4):
                    try:
                        model = bounded_model(ob, r.axioms, r.recdefs, B=B)
                    except Exception:
                        rec["bounded_model_error"] = traceback.format_exc()[-800:]
                        model = None
                    if model is not None:
                        rec["candidate_model"] = f"bounded B={B}"
                        rp = replay_model(reg, c, r, ob, model)
                        if rp.get("confirmed"):
                            break
                        model = None
                        rec["unconfirmed_candidate"] = rp
                if model is None:
                    v2 = second_opinion(ob, r.axioms)
                    if v2 is not None:
                        rec.update(status=v2.status, backend=v2.backend, ms=rec["ms"] + v2.ms)
                else:
                    rec["replay"] = rp
                    rec["status"] = "failed"
                    rec["backend"] += "+bounded-model+native-replay"
                    model = None
            if model is not None and v.status == "failed" and ob.kind == "capture":
                rec["replay"] = {"confirmed": False, "note": "closure-cell obligation: decided on the program text, no input to replay"}
            elif model is not None and v.status == "failed":
                rp = replay_model(reg, c, r, ob, model)
                if not rp.get("confirmed"):
                    for B in (2, 3, 4):
                        try:
                            m2 = bounded_model(ob, r.axioms, r.recdefs, B=B)
                        except Exception:
                            rec["bounded_model_error"] = traceback.format_exc()[-800:]
                            m2 = None
                        if m2 is not None:
                            rp2 = replay_model(reg, c, r, ob, m2)
                            if rp2.get("confirmed"):
                                rp = rp2
                                break
                rec["replay"] = rp
            return rec

        inner_jobs = int(os.environ.get("PYVC_INNER_JOBS", "4")) if len(r.obligations) > 40 else 1
        out["obligations"] = fork_map(do_ob, r.obligations, inner_jobs)
        out["inner_jobs"] = inner_jobs
        # vacuity guard: the assumptions of the last obligation on every path must be satisfiable
        # (`unknown` is accepted: with quantified axioms z3 rarely answers sat)
        last = {}
        bad_paths = set()
        for ob, rec_ in zip(r.obligations, out["obligations"]):
            last[ob.path] = ob
            if rec_["status"] != "discharged":
                bad_paths.add(ob.path)  # a goal that failed was assumed afterwards: the rest of that path is vacuous by construction

        def do_vac(item):
            path, ob = item
            from pyvc.solve import _has_quant

            # (a) quantifier-free part alone contradictory: infeasible branches are pruned with exactly these facts when a
            # path forks, so this means facts assumed later (a callee's ensures, an engine-level invariant) contradict the
            # path: an inconsistent assumed contract or an engine modelling error -- never acceptable
            sq = z3.Solver()
            sq.set("timeout", 3000)
            for a_ in list(r.axioms) + list(ob.assumptions):
                if not _has_quant(a_):
                    sq.add(a_)
            if sq.check() == z3.unsat:
                return 2
            s = z3.Solver()
            s.set("timeout", 1500)
            s.add(*r.axioms)
            s.add(*ob.assumptions)
            return 1 if s.check() == z3.unsat else 0

        todo = [(path, ob) for path, ob in last.items() if path not in bad_paths]
        flags = fork_map(do_vac, todo, inner_jobs)
        vac = [(path or "entry") for (path, _ob), f in zip(todo, flags) if f]
        out["contradictory_paths"] = [(path or "entry") for (path, _ob), f in zip(todo, flags) if f == 2]
        out["vacuous_paths"] = vac
        out["paths_checked"] = len(last)
    except _UnitTimeout:
        out["unsupported"] = f"VC generation / solving exceeded the per-unit budget of {os.environ.get('PYVC_UNIT_S', '420')} s"
    except Exception:
        out["error"] = traceback.format_exc()
    finally:
        signal.alarm(0)
    out["wall_s"] = round(time.time() - t0, 3)
    return out


def fork_map(fn, items, jobs):
    """[fn(x) for x in items], computed by `jobs` forked children (the z3 terms of a unit cannot be pickled, so the
    children inherit them by fork and send back plain records)."""
    items = list(items)
    if jobs <= 1 or len(items) < 2:
        return [fn(x) for x in items]
    import pickle

    kids = []
    try:
        for k in range(jobs):
            rfd, wfd = os.pipe()
            pid = os.fork()
            if pid == 0:
                code = 0
                try:
                    os.close(rfd)
                    import signal as _sig

                    _sig.alarm(0)
                    res = []
                    for i in range(k, len(items), jobs):
                        try:
                            res.append((i, True, fn(items[i])))
                        except BaseException:  # noqa
                            res.append((i, False, traceback.format_exc()[-1500:]))
                    with os.fdopen(wfd, "wb") as f:
                        pickle.dump(res, f)
                except BaseException:  # noqa
                    code = 1
                finally:
                    os._exit(code)
            os.close(wfd)
            kids.append((pid, rfd))
        results = {}
        for pid, rfd in kids:
            with os.fdopen(rfd, "rb") as f:
                data = f.read()
            os.waitpid(pid, 0)
            for i, ok, val in pickle.loads(data) if data else []:
                if not ok:
                    raise RuntimeError("obligation worker failed:\n" + val)
                results[i] = val
        kids = []
        if len(results) != len(items):
            raise RuntimeError("obligation worker died")
        return [results[i] for i in range(len(items))]
    finally:
        for pid, _ in kids:
            try:
                os.kill(pid, 9)
                os.waitpid(pid, 0)
            except Exception:
                pass


def _unit_proc(qualname, conn):
    try:
        conn.send(verify_unit_worker(qualname))
    except BaseException:  # noqa
        conn.send({"unit": qualname, "obligations": [], "error": traceback.format_exc()})
    finally:
        conn.close()


def run_units(ctx, units, jobs):
    """One process per unit, at most `jobs` at a time; a unit that exceeds the hard budget (stuck inside the
    solver, where the soft alarm cannot fire) is killed and reported undecided."""
    hard = int(os.environ.get("PYVC_UNIT_S", "420")) + 120
    pending = list(units)
    running = {}
    results = {}
    while pending or running:
        while pending and len(running) < jobs:
            u = pending.pop(0)
            parent, child = ctx.Pipe(duplex=False)
            p = ctx.Process(target=_unit_proc, args=(u, child))
            p.start()
            child.close()
            running[u] = (p, parent, time.time())
        for u, (p, parent, t0) in list(running.items()):
            if parent.poll(0.05):
                try:
                    results[u] = parent.recv()
                except EOFError:
                    results[u] = {"unit": u, "obligations": [], "error": "worker died"}
                p.join(5)
                del running[u]
            elif not p.is_alive():
                results[u] = {"unit": u, "obligations": [], "error": f"worker exited with code {p.exitcode}"}
                del running[u]
            elif time.time() - t0 > hard:
                p.kill()
                p.join(5)
                reg = load_specs()
                c = reg.contracts[u]
                results[u] = {"unit": u, "file": c.file, "props": c.props, "obligations": [], "error": None,
                              "unsupported": f"killed after the hard per-unit budget of {hard} s", "sha256": None}
                del running[u]
    return [results[u] for u in units]


def replay_model(reg, c, r, ob, model) -> dict:
    from pyvc import witness, native

    info = {"confirmed": False}
    try:
        recipe = witness.recipe_from_model(reg, c, r.entry_env, r.heap_base, model, ob.draws)
        info["recipe"] = recipe
        args = {n: witness.RecipeLoader().load(v) for n, v in recipe.items()}
        info["args_repr"] = {n: repr(v)[:300] for n, v in args.items()}
        outc = native.run_native(c, reg, args)
        info["pre_failed"] = outc.pre_failed
        info["raised"] = outc.raised
        info["raise_allowed"] = outc.raise_allowed
        info["failed_clauses"] = outc.failed_clauses
        info["result_repr"] = repr(outc.result)[:300]
        info["traceback"] = outc.traceback[-1500:]
        info["confirmed"] = (not outc.pre_failed) and outc.violated
    except witness.CannotBuild as ex:
        info["cannot_build"] = str(ex)
    except Exception:
        info["replay_error"] = traceback.format_exc()[-1500:]
    return info


# ------------------------------------------------------------------------------------------------
def read_known_findings():
    path = os.path.join(VERIF, "KNOWN_FINDINGS.txt")
    findings = []
    if os.path.exists(path):
        for line in open(path):
            line = line.strip()
            if not line.startswith("finding:"):
                continue
            head, _, desc = line.partition("::")
            d = {"desc": desc.strip()}
            for tok in head.split()[1:]:
                if "=" in tok:
                    k, v = tok.split("=", 1)
                    d[k] = v
            findings.append(d)
    return findings


def read_baseline():
    path = os.path.join(VERIF, "specs", "BASELINE_OBLIGATIONS.json")
    if os.path.exists(path):
        return json.load(open(path))
    return {"units": {}, "obligations": {}}


def check_property(prop: str, tier: str, seed: int, write_baseline=False, only_units=None, jobs=None) -> int:
    t0 = time.time()
    reg = load_specs()
    units = [q for q, c in reg.contracts.items() if c.file and c.verify and prop in c.props]
    if only_units:
        units = [u for u in units if u in only_units]
    jobs = jobs or int(os.environ.get("PYVC_JOBS", "10"))  # below the 16 cores: big units fork inner workers, and solver budgets are wall-clock
    results = []
    direct_units = list(units)
    done = set()
    ctx = mp.get_context("fork")
    while True:
        todo = [u for u in units if u not in done]
        if not todo:
            break
        new_results = run_units(ctx, todo, jobs)
        results.extend(new_results)
        done.update(todo)
        if only_units:
            break
        # dependency closure: the property also rests on every contract its units assume at call sites --
        # verified callees, and every implementation in /repo of an interface contract that was used
        for r in new_results:
            for q in r.get("used_contracts") or []:
                cq = reg.contracts.get(q)
                if cq is None:
                    continue
                if cq.file and cq.verify and q not in units:
                    units.append(q)
                if not cq.verify:
                    for q2, c2 in reg.contracts.items():
                        if c2.overrides == q and c2.file and c2.verify and q2 not in units:
                            units.append(q2)
    baseline = read_baseline()
    known = [k for k in read_known_findings() if k.get("property") == prop]
    known_keys = {k.get("key") for k in known}
    violations, undecided, errors, known_hits = [], [], [], []
    n_obl = n_dis = 0
    samples = []
    trusted = set()
    assumptions = set()
    solver_ms = 0
    backends = {}
    for r in results:
        if r["error"]:
            errors.append(f"{r['unit']}: crash\n{r['error']}")
            continue
        b_unit = baseline["units"].get(r["unit"], {})
        changed = b_unit.get("sha256") not in (None, r.get("sha256"))
        if r.get("vacuous_requires"):
            errors.append(f"{r['unit']}: contradictory requires (vacuous)")
        if r.get("contradictory_paths"):
            errors.append(f"{r['unit']}: the quantifier-free context of a path is contradictory (inconsistent assumed contract or engine modelling error): {r['contradictory_paths'][:2]}")
        if r.get("vacuous_paths") and len(r["vacuous_paths"]) >= max(1, r.get("paths_checked", 0)):
            errors.append(f"{r['unit']}: every path has an unsatisfiable context (vacuous proof): {r['vacuous_paths'][:3]}")
        if r.get("unsupported"):
            was = b_unit.get("unsupported")
            undecided.append({"unit": r["unit"], "why": r["unsupported"], "baseline_same": bool(was), "changed": changed})
        if not r["obligations"] and not r.get("unsupported"):
            errors.append(f"{r['unit']}: zero obligations")
        trusted |= {"external:" + e for e in r.get("externals", [])}
        trusted |= {"inlined:" + e for e in r.get("inlined", [])}
        for q in r.get("used_contracts") or []:
            cq = reg.contracts.get(q)
            if cq is not None and not (cq.file and cq.verify) and not cq.inline:
                # a contract assumed at call sites and not verified against a body in /repo: interface of an abstract
                # method (its overrides in /repo are verified against it), a definition clause, or an external summary
                kind = "interface" if any(c2.overrides == q for c2 in reg.contracts.values()) else "assumed-contract"
                trusted.add(f"{kind}:{q}" + (f" -- {cq.note[:140]}" if cq.note else ""))
        assumptions |= set(r.get("assumptions", []))
        for ob in r["obligations"]:
            n_obl += 1
            solver_ms += ob["ms"]
            if ob["status"] == "discharged":
                backends[ob["backend"]] = backends.get(ob["backend"], 0) + 1
            base_status = baseline["obligations"].get(ob["id"])
            if ob["status"] == "discharged":
                n_dis += 1
                if len(samples) < 6:
                    samples.append({"obligation": ob["id"], "status": "discharged", "backend": ob["backend"], "ms": ob["ms"], "clause": ob["note"][:160]})
                continue
            rp = ob.get("replay") or {}
            key = ob["id"]
            rec = {"key": key, "unit": r["unit"], "file": r["file"], "line": ob["line"], "status": ob["status"], "note": ob["note"], "replay": rp, "regressed": base_status == "discharged", "new": base_status is None, "changed_source": changed, "path": ob.get("path", "")}
            if key in known_keys:
                known_hits.append(rec)
                continue
            if ob["status"] == "failed" or rp.get("confirmed"):
                violations.append(rec)
            elif ob["status"] == "unknown":
                unit_was_proved = bool(b_unit) and not b_unit.get("unsupported") and not any(
                    v != "discharged" for k, v in baseline["obligations"].items() if k.startswith(r["unit"] + "#")
                )
                if changed and (base_status == "discharged" or (base_status is None and unit_was_proved)):
                    # the unit verified completely on the unchanged tree; its source changed and this obligation is
                    # no longer provable: reported as a violation without a failing input
                    rec["status"] = "unknown-regressed"
                    violations.append(rec)
                elif base_status == "unknown":
                    undecided.append({"unit": r["unit"], "why": f"{key}: solver unknown (as in baseline)", "baseline_same": True, "changed": changed})
                else:
                    undecided.append({"unit": r["unit"], "why": f"{key}: solver unknown ({ob.get('reason', '')})", "baseline_same": False, "changed": changed})
    # ---- bounded stand-in for units the prover could not decide (new unsupported / new unknown) -------
    fallback = {}
    und_units = sorted({u["unit"] for u in undecided if not u["baseline_same"]})
    if und_units:
        from pyvc import bounded as _bounded

        for un in und_units:
            try:
                fb = _bounded.check_unit(reg, reg.contracts[un])
            except Exception:
                fb = {"evaluations": 0, "violation": None, "error": traceback.format_exc()[-600:]}
            fallback[un] = {k: v for k, v in fb.items() if k != "violation"}
            if fb.get("violation"):
                c_ = reg.contracts[un]
                violations.append({"key": f"{un}#bounded-contract-check", "unit": un, "file": c_.file, "line": None, "status": "bounded-violation",
                                   "note": "prover undecided on this unit; the same contract evaluated natively on enumerated small inputs fails",
                                   "replay": fb["violation"], "bounded": True})
    # ---- bounded stand-in ---------------------------------------------------------------------
    bounded = None
    try:
        mod = importlib.import_module(f"rt.{prop.lower()}")
    except ModuleNotFoundError as ex:
        if ex.name != f"rt.{prop.lower()}":
            errors.append("bounded layer import failed:\n" + traceback.format_exc())
        mod = None
    if mod is not None:
        try:
            bounded = mod.run(tier=tier, seed=seed)
        except Exception:
            tb_ = traceback.format_exc()
            if any(bu.get("sha256") not in (None, r_.get("sha256")) for r_ in results for bu in [baseline["units"].get(r_["unit"], {})]) or "/geneticengine/" in tb_.split("rt/")[-1]:
                # the driver's own code fell over an answer of the library that it could not digest, on a tree that differs
                # from the baseline: that is an observation about the changed code (reported, with the traceback), not a fault
                # of the checker
                violations.append({"key": f"rt:{prop}:driver-could-not-digest-library-behaviour", "unit": "bounded", "file": None, "line": None, "status": "bounded-violation",
                                   "note": "the bounded driver crashed on this tree: " + tb_[-700:], "replay": {"confirmed": False}, "bounded": True})
            else:
                errors.append("bounded layer crashed:\n" + tb_)
        if bounded:
            for v in bounded.get("violations", []):
                rec = {"key": v["key"], "unit": v.get("unit", "bounded"), "file": v.get("file"), "line": None, "status": "bounded-violation", "note": v["what"], "replay": v.get("replay", {"confirmed": True}), "bounded": True}
                if v["key"] in known_keys:
                    known_hits.append(rec)
                else:
                    violations.append(rec)
    # ---- report -----------------------------------------------------------------------------------
    OUTDIR = os.environ.get("PYVC_OUT", VERIF)  # evidence/ and replays/ go here (scratch runs on changed trees set it)
    os.makedirs(os.path.join(OUTDIR, "replays"), exist_ok=True)
    for k in known_hits:
        desc = next((f["desc"] for f in known if f.get("key") == k["key"]), k["note"])
        print(f"KNOWN-FINDING: property={prop} {k['key']} :: {desc}")
    exit_code = 0
    for i, v in enumerate(violations):
        path = os.path.join(OUTDIR, "replays", f"{prop}_{i}.json")
        json.dump({"property": prop, **v}, open(path, "w"), indent=1, default=str)
        confirmed = v.get("replay", {}).get("confirmed")
        tail = "" if confirmed else " no-failing-input-found"
        print(f"VIOLATION property={prop} replay={path} obligation={v['key']}{tail}")
        exit_code = 1
    new_undecided = [u for u in undecided if not u["baseline_same"]]
    # A unit whose SOURCE CHANGED and that the verifier can no longer take in (unsupported construct, not a solver verdict)
    # is decided by the bounded stand-ins alone: the same contract evaluated natively on enumerated inputs (above) and the
    # property's driver.  If both held, the check reports what it explored (exit 0) and labels the unit bounded; exit 2 is
    # kept for units that became undecided although their source is unchanged (a fault of the specs, not of the code).
    blocking = []
    for u in new_undecided:
        fb = fallback.get(u["unit"], {})
        stand_in_ran = bounded is not None and not errors
        out_of_time = "per-unit budget" in u["why"] or "hard per-unit budget" in u["why"]
        if u.get("changed") and "solver unknown" not in u["why"] and not out_of_time and stand_in_ran:
            u["decided_by"] = f"bounded stand-in only (native contract check: {fb.get('evaluations', 0)} evaluations; driver rt/{prop.lower()}.py)"
        else:
            blocking.append(u)
    if exit_code == 0 and errors:
        exit_code = 3
    elif exit_code == 0 and blocking:
        exit_code = 2
    for e in errors:
        print("CHECKER-ERROR:", e)
    for u in undecided:
        print(f"UNDECIDED{'' if u['baseline_same'] else ' (new)'}: {u['unit']}: {u['why']}" + (f" -- {u['decided_by']}" if u.get("decided_by") else ""))
    wall = time.time() - t0
    level = LEVELS.get(prop, "other")
    cov = {
        "obligations": n_obl,
        "discharged": n_dis,
        "checker_cmd": f"bin/check {prop} --tier {tier}",
        "trusted_base": sorted(trusted) + ["pyvc VC generator (/verif/pyvc)", "z3 " + _z3v(), "Python semantics encoding (DESIGN.md 1.2)"],
        "direct_units": direct_units,
        "units": [
            {k: r.get(k) for k in ("unit", "file", "lines", "sha256", "unsupported", "paths", "gen_s", "wall_s", "dropped", "used_contracts")}
            | {"obligations": len(r["obligations"]), "discharged": sum(1 for o in r["obligations"] if o["status"] == "discharged")}
            for r in results
            if not r["error"]
        ],
        "solver_ms": solver_ms,
        "discharged_by_backend": backends,
        "slowest_obligations": sorted(((o["ms"], o["id"]) for r in results if not r["error"] for o in r["obligations"]), reverse=True)[:5],
        "undecided": undecided,
        "bounded_fallback_for_undecided_units": fallback,
        "known_findings_hit": [k["key"] for k in known_hits],
        "samples": samples or [{"note": "no proof obligations for this property; see bounded"}],
        "explanation": EXPLAIN.get(prop, "") or "contract-based deductive verification of the units listed under coverage.units (VCs from /repo's current source, discharged by z3); bounded stand-in results, where present, are under coverage.bounded and are not counted as proved",
    }
    if bounded:
        cov["bounded"] = {k: v for k, v in bounded.items() if k != "violations"}
        cov["evaluations"] = bounded.get("evaluations", 0)
        cov["distinct_nontrivial"] = bounded.get("distinct_nontrivial", 0)
        cov["rule"] = bounded.get("rule", "")
        cov["exhaustive"] = bool(bounded.get("exhaustive", False))
        cov["samples"] = (samples + bounded.get("samples", []))[:12]
    if level in ("exploration", "fault_enumeration") and "evaluations" not in cov:
        cov.update(evaluations=max(n_obl, 1), distinct_nontrivial=max(n_dis, 2), rule="one case per proof obligation")
    ev = {
        "property_id": prop,
        "tier": tier,
        "seed": seed,
        "level": level,
        "coverage": cov,
        "assumptions": sorted(assumptions) + GLOBAL_ASSUMPTIONS,
        "wall_s": round(wall, 2),
        "violations": len(violations),
    }
    os.makedirs(os.path.join(OUTDIR, "evidence"), exist_ok=True)
    json.dump(ev, open(os.path.join(OUTDIR, "evidence", f"{prop}.json"), "w"), indent=1, default=str)
    print(f"{prop}: units={len(units)} obligations={n_obl} discharged={n_dis} violations={len(violations)} known={len(known_hits)} undecided={len(undecided)} exit={exit_code} wall={wall:.1f}s")
    if write_baseline:
        for r in results:
            if r["error"]:
                continue
            baseline["units"][r["unit"]] = {"sha256": r.get("sha256"), "unsupported": r.get("unsupported")}
            for ob in r["obligations"]:
                baseline["obligations"][ob["id"]] = ob["status"]
        json.dump(baseline, open(os.path.join(VERIF, "specs", "BASELINE_OBLIGATIONS.json"), "w"), indent=0, sort_keys=True)
    return exit_code


def _z3v():
    import z3

    return z3.get_version_string()


GLOBAL_ASSUMPTIONS = [
    "int is mathematical; float is real arithmetic (no rounding, no NaN/inf)",
    "assumed contracts of externals listed in trusted_base (specs/externals.py)",
    "distinct heap objects of different Python types never alias; reference-typed values read from the heap point to allocated objects",
]

LEVELS: dict = {}
EXPLAIN: dict = {}


def main(argv=None):
    ap = argparse.ArgumentParser()
    ap.add_argument("prop")
    ap.add_argument("--tier", default=os.environ.get("VERIF_TIER", "quick"))
    ap.add_argument("--write-baseline", action="store_true")
    ap.add_argument("--unit", action="append")
    ap.add_argument("--jobs", type=int)
    a = ap.parse_args(argv)
    seed = int(os.environ.get("VERIF_SEED", "0"))
    import specs.levels as _lv

    LEVELS.update(_lv.LEVELS)
    EXPLAIN.update(_lv.EXPLAIN)
    try:
        code = check_property(a.prop, a.tier, seed, a.write_baseline, a.unit, a.jobs)
    except Exception:
        traceback.print_exc()
        code = 3
    sys.exit(code)


if __name__ == "__main__":
    main()
