"""Expression evaluation (generator-based: an expression may fork the path)."""
from __future__ import annotations

import ast
import sys
import z3

from . import ops
from .kinds import V, INT, BOOL, REAL, NONE, FN, Opaque, Ref, Tup, ListT, DictT, ObjT, Kind, parse_kind, is_list, is_dict, is_obj
from .state import State, Unsupported, fresh, I


class FuncRef:
    """Executor-level callable."""

    def __init__(self, tag, **kw):
        self.tag = tag
        self.__dict__.update(kw)

    def __repr__(self):
        return f"<{self.tag} {self.__dict__}>"


MODULE_CONSTS = {
    ("sys", "maxsize"): sys.maxsize,
}


class ExprMixin:
    # ------------------------------------------------------------------ helpers
    def ev1(self, e, st: State) -> V:
        """Evaluate expecting exactly one (non-forking) result; used in spec mode and for pure sub-terms."""
        res = list(self.ev(e, st))
        if len(res) != 1:
            raise Unsupported(f"expression forks ({len(res)} paths)", e)
        v, s = res[0]
        if s is not st:
            raise Unsupported("expression changed state identity", e)
        return v

    def ev_list(self, exprs, st: State):
        if not exprs:
            yield [], st
            return
        for v, s in self.ev(exprs[0], st):
            for rest, s2 in self.ev_list(exprs[1:], s):
                yield [v] + rest, s2

    def lenf(self, st):
        def f(v):
            if is_list(v.kind):
                return self.llen(st, v)
            if is_dict(v.kind):
                return self.llen(st, self.dkeys(st, v))
            raise Unsupported("len of " + str(v.kind))

        return f

    def truth(self, v: V, st: State):
        return ops.truthy(v, self.lenf(st))

    def try_merge(self, st: State, branches):
        """branches: list of (cond, [(value, state)]) obtained on forks of st.  If every branch is a single,
        heap-pure outcome of a common kind, merge into st and return the merged value; else None."""
        base_sig = st.sig()
        vals = []
        for cond, outs in branches:
            if len(outs) != 1:
                return None
            v, s = outs[0]
            if s.sig() != base_sig or set(s.env) != set(st.env):
                return None
            if any(s.env[k] is not st.env[k] for k in st.env):
                return None
            vals.append((cond, v, s))
        kinds = [v.kind for _, v, _ in vals]
        k0 = kinds[0]
        if any(isinstance(k, (Tup,)) or k == FN for k in kinds):
            return None
        try:
            for k in kinds[1:]:
                k0 = self.join_kind(k0, k)
        except Unsupported:
            return None
        if k0 == NONE:
            merged = V(NONE, None)
        else:
            if any(k == NONE for k in kinds) and not isinstance(k0, Ref):
                return None
            terms = [self.to_term(v, k0) for _, v, _ in vals]
            t = terms[-1]
            for (cond, _, _), tt in zip(reversed(vals[:-1]), reversed(terms[:-1])):
                t = z3.If(cond, tt, t)
            merged = V(k0, t)
        base_len = len(st.pc)
        for cond, _, s in vals:
            for fact in s.pc[base_len + 1 :]:
                st.assume(z3.Implies(cond, fact))
        return merged

    # ------------------------------------------------------------------ main dispatcher
    def ev(self, e, st: State):
        m = getattr(self, "ev_" + type(e).__name__, None)
        if m is None:
            raise Unsupported(f"expression {type(e).__name__}", e)
        yield from m(e, st)

    def ev_Constant(self, e, st):
        if e.value is Ellipsis:
            yield V(NONE, None), st
            return
        if isinstance(e.value, float) and (e.value != e.value or abs(e.value) == float("inf")):
            raise Unsupported("nan/inf constant", e)
        yield ops.const(e.value), st

    def ev_JoinedStr(self, e, st):
        # f-string: only its identity as *some* string matters in the supported units
        yield V(ops.STR, fresh("fstr", ops.STR.sort())), st

    def ev_Name(self, e, st):
        n = e.id
        if n in st.env:
            v = st.env[n]
            if v.bound is not None:
                self.oblige(st, "safe", f"bound:{n}", v.bound, e, exc="UnboundLocalError")
                v = V(v.kind, v.term)
            yield v, st
            return
        if getattr(st, "spec", False) and n == "result":
            raise Unsupported("result not available here", e)
        yield self.global_name(n, e, st), st

    def global_name(self, n, node, st):
        if n in ("True", "False", "None"):
            return ops.const({"True": True, "False": False, "None": None}[n])
        if n in self.module_consts:
            return ops.const(self.module_consts[n])
        if n in self.reg.consts:
            return ops.const(self.reg.consts[n])
        if n in self.local_funcs:
            return V(FN, FuncRef("local", node=self.local_funcs[n], env=st.env, file=self.file, qual=self.cur_qual))
        ck = self.reg.class_for(self.file, n)
        if ck is not None:
            return V(FN, FuncRef("class", cls=ck))
        if n in self.reg.classes:
            return V(FN, FuncRef("class", cls=n))
        if hasattr(self, "bi_" + n) and n not in self.module_funcs:
            return V(FN, FuncRef("builtin", name=n))
        if n in self.reg.contracts:
            return V(FN, FuncRef("contract", c=self.reg.contracts[n]))
        if n in self.module_funcs:
            return V(FN, FuncRef("modfunc", name=n))
        if n in ("int", "float", "bool", "str", "list", "tuple", "dict", "set"):
            return V(FN, FuncRef("builtin", name=n))
        if n in self.reg.exc_bases:
            return V(FN, FuncRef("exc", cls=n))
        return V(FN, FuncRef("builtin", name=n))

    def ev_Attribute(self, e, st):
        # module constants such as sys.maxsize / sys.float_info.max
        if isinstance(e.value, ast.Name) and e.value.id not in st.env and (e.value.id, e.attr) in MODULE_CONSTS:
            yield ops.const(MODULE_CONSTS[(e.value.id, e.attr)]), st
            return
        if (
            isinstance(e.value, ast.Attribute)
            and isinstance(e.value.value, ast.Name)
            and e.value.value.id == "sys"
            and e.value.attr == "float_info"
            and e.attr == "max"
        ):
            yield V(REAL, self.float_max), st
            return
        if isinstance(e.value, ast.Name) and e.value.id not in st.env and (self.reg.class_for(self.file, e.value.id) or e.value.id in self.reg.classes):
            ck = self.reg.class_for(self.file, e.value.id) or e.value.id
            yield V(FN, FuncRef("classattr", cls=ck, name=e.attr)), st
            return
        if isinstance(e.value, ast.Name) and e.value.id not in st.env and e.value.id in self.module_imports:
            yield V(FN, FuncRef("modattr", mod=e.value.id, name=e.attr)), st
            return
        for obj, s in self.ev(e.value, st):
            yield self.get_attr(obj, e.attr, s, e), s

    def get_attr(self, obj: V, attr: str, st: State, node=None) -> V:
        if is_obj(obj.kind):
            cls = obj.kind.target.cls
            fk = self.field_kind(cls, attr)
            if fk is not None:
                self.oblige(st, "safe", f"notnone:{attr}", obj.term != 0, node, exc="AttributeError")
                return self.fget(st, obj, attr, fk)
            ci_ = self.reg.classes.get(cls)
            if (ci_ is not None and ci_.file is not None and cls not in self.reg.maplike
                    and self.reg.lookup_method(cls, attr) is None and self.find_method_def(cls, attr) is None and not attr.startswith("__")):
                # an attribute the class table does not know (e.g. introduced by a change): an object of unknown
                # class stored in the heap -- it can be passed on and written through, under the usual frame rules
                self.note_assumption(f"attribute {cls}.{attr} is not declared in the class table: treated as a reference to an object of unknown class")
                k = Ref(ObjT("object"), optional=True)
                return self.fget(st, obj, attr, k)
            return V(FN, FuncRef("bound", obj=obj, name=attr))
        if obj.kind == FN and obj.term.tag == "class":
            return V(FN, FuncRef("classattr", cls=obj.term.cls, name=attr))
        if isinstance(obj.kind, (Ref, Opaque)) or obj.kind in (INT, REAL, BOOL):
            return V(FN, FuncRef("bound", obj=obj, name=attr))
        raise Unsupported(f"attribute {attr} of {obj.kind}", node)

    # ------------------------------------------------------------------ subscripts
    def norm_index(self, st, v: V, idx: V, node, check=True):
        n = self.llen(st, v)
        i = ops.to_int_term(idx)
        if check:
            self.oblige(st, "safe", "index", z3.And(i >= -n, i < n), node, exc="IndexError")
        if z3.is_int_value(i):
            return i if i.as_long() >= 0 else n + i
        isimp = z3.simplify(i)
        if z3.is_int_value(isimp):
            return isimp if isimp.as_long() >= 0 else n + isimp
        if getattr(st, "spec", False):
            # spec clauses index with non-negative terms (negative literals handled above); keeping the index
            # free of if-then-else keeps quantified clauses usable as E-matching triggers
            return i
        if self.proves(st, i >= 0):
            return i
        if self.proves(st, i < 0):
            return i + n
        return z3.If(i < 0, i + n, i)

    def ev_Subscript(self, e, st):
        # ty.__metadata__[0]: the refinement object of an Annotated type (pure function of the type)
        if isinstance(e.value, ast.Attribute) and e.value.attr == "__metadata__" and isinstance(e.slice, ast.Constant) and e.slice.value == 0:
            c = self.reg.contracts.get("type_metadata0")
            if c is not None:
                for tv, s in self.ev(e.value.value, st):
                    yield from self.apply_contract(c, [tv], {}, s, e)
                return
        for obj, s in self.ev(e.value, st):
            if isinstance(e.slice, ast.Slice):
                yield from self.ev_slice(obj, e.slice, s, e)
                continue
            for idx, s2 in self.ev(e.slice, s):
                yield self.subscript(obj, idx, s2, e), s2

    def subscript(self, obj: V, idx: V, st: State, node) -> V:
        if is_list(obj.kind):
            i = self.norm_index(st, obj, idx, node)
            return self.lget(st, obj, i)
        if is_dict(obj.kind):
            self.oblige(st, "safe", "key", self.dhas(st, obj, idx), node, exc="KeyError")
            return self.dget(st, obj, idx)
        if isinstance(obj.kind, Tup):
            if not z3.is_int_value(idx.term):
                raise Unsupported("symbolic tuple index", node)
            i = idx.term.as_long()
            return obj.term[i]
        if is_obj(obj.kind):
            key = self.const_str(idx) if idx.kind == ops.STR else None
            if key is not None:
                ck = self.reg.lookup_method(obj.kind.target.cls, f"__getitem__:{key}")
                if ck is not None:
                    outs = list(self.apply_contract(ck, [obj], {}, st, node))
                    if len(outs) == 1:
                        return outs[0][0]
        c = self.method_contract(obj, "__getitem__")
        if c is not None:
            outs = list(self.apply_contract(c, [obj, idx], {}, st, node))
            if len(outs) == 1:
                return outs[0][0]
        raise Unsupported(f"subscript of {obj.kind}", node)

    def ev_slice(self, obj: V, sl: ast.Slice, st, node):
        if not is_list(obj.kind):
            raise Unsupported(f"slice of {obj.kind}", node)
        if sl.step is not None:
            raise Unsupported("slice step", node)
        parts = [sl.lower, sl.upper]
        for vals, s in self.ev_list([p for p in parts if p is not None], st):
            it = iter(vals)
            lo = next(it) if sl.lower is not None else None
            hi = next(it) if sl.upper is not None else None
            yield self.slice_list(s, obj, lo, hi), s

    def slice_list(self, st, obj: V, lo: V | None, hi: V | None) -> V:
        n = self.llen(st, obj)

        def norm(x):
            t = ops.to_int_term(x)
            return z3.If(t < 0, z3.If(t + n < 0, z3.IntVal(0), t + n), z3.If(t > n, n, t))

        lo_t = norm(lo) if lo is not None else z3.IntVal(0)
        hi_t = norm(hi) if hi is not None else n
        ln = z3.If(hi_t - lo_t > 0, hi_t - lo_t, z3.IntVal(0))
        ek = self.elem_kind(obj)
        src = self.larr(st, obj)
        i = z3.Int("sl_i")
        arr = z3.Lambda([i], src[i + lo_t])
        return self.new_list(st, ek, ln, arr)

    # ------------------------------------------------------------------ arithmetic
    def ev_UnaryOp(self, e, st):
        if getattr(st, "spec", False) and isinstance(e.op, ast.Not):
            p = st.ghost.get("__pol__", 0)
            st.ghost["__pol__"] = -p
            try:
                v = self.ev1(e.operand, st)
            finally:
                st.ghost["__pol__"] = p
            yield V(BOOL, z3.Not(self.truth(v, st))), st
            return
        for v, s in self.ev(e.operand, st):
            if isinstance(e.op, ast.Not):
                yield V(BOOL, z3.Not(self.truth(v, s))), s
            elif isinstance(e.op, ast.USub):
                if v.kind == REAL:
                    yield V(REAL, -v.term), s
                else:
                    yield V(INT, -ops.to_int_term(v)), s
            elif isinstance(e.op, ast.UAdd):
                yield (v if v.kind == REAL else V(INT, ops.to_int_term(v))), s
            else:
                raise Unsupported("unary op", e)

    def ev_BinOp(self, e, st):
        for a, s in self.ev(e.left, st):
            for b, s2 in self.ev(e.right, s):
                yield self.binop(e.op, a, b, s2, e), s2

    def binop(self, op, a: V, b: V, st: State, node) -> V:
        if isinstance(op, ast.Add) and is_list(a.kind) and is_list(b.kind):
            return self.concat_lists(st, a, b)
        if isinstance(op, ast.Mult) and is_list(a.kind) and b.kind == INT:
            raise Unsupported("list repetition", node)
        if not (ops.is_num(a) and ops.is_num(b)):
            raise Unsupported(f"binary op on {a.kind}, {b.kind}", node)
        if isinstance(op, ast.Div):
            ta, tb = ops.to_real_term(a), ops.to_real_term(b)
            self.oblige(st, "safe", "divisor", tb != 0, node, exc="ZeroDivisionError")
            return V(REAL, ta / tb)
        k, ta, tb = ops.num_join(a, b)
        if isinstance(op, ast.Add):
            return V(k, ta + tb)
        if isinstance(op, ast.Sub):
            return V(k, ta - tb)
        if isinstance(op, ast.Mult):
            return V(k, ta * tb)
        if isinstance(op, ast.FloorDiv):
            self.oblige(st, "safe", "divisor", tb != 0, node, exc="ZeroDivisionError")
            if k == INT:
                return V(INT, ops.py_floordiv(ta, tb))
            return V(REAL, z3.ToReal(z3.ToInt(ta / tb)))
        if isinstance(op, ast.Mod):
            self.oblige(st, "safe", "divisor", tb != 0, node, exc="ZeroDivisionError")
            if k == INT:
                return V(INT, ops.py_mod(ta, tb))
            # float modulo: a - b*floor(a/b)
            return V(REAL, ta - tb * z3.ToReal(z3.ToInt(ta / tb)))
        if isinstance(op, ast.Pow):
            return self.pow(a, b, st, node)
        raise Unsupported(f"binary operator {type(op).__name__}", node)

    def pow(self, a: V, b: V, st, node) -> V:
        if b.kind == INT and z3.is_int_value(b.term) and 0 <= b.term.as_long() <= 8:
            n = b.term.as_long()
            t = z3.IntVal(1) if a.kind != REAL else z3.RealVal(1)
            for _ in range(n):
                t = t * a.term
            return V(a.kind if a.kind == REAL else INT, t)
        if a.kind in (INT, BOOL) and b.kind in (INT, BOOL):
            f = z3.Function("ipow", I, I, I)
            self.recdefs[f] = lambda aa, bb, f=f: z3.If(bb <= 0, z3.IntVal(1), aa * f(aa, bb - 1))
            ta, tb = ops.to_int_term(a), ops.to_int_term(b)
            r = f(ta, tb)
            # assumed axioms of integer power for non-negative base and exponent (listed in evidence)
            st.assume(z3.Implies(z3.And(ta >= 0, tb >= 0), r >= 0))
            st.assume(z3.Implies(z3.And(ta >= 1, tb >= 0), r >= 1))
            self.note_assumption("ipow(a,b) >= 0 for a,b >= 0; >= 1 for a >= 1 (integer power, uninterpreted otherwise)")
            return V(INT, r)
        raise Unsupported("pow on these operands", node)

    def concat_lists(self, st, a: V, b: V) -> V:
        ek = self.join_kind(self.elem_kind(a), self.elem_kind(b))
        if self.elem_kind(a) != self.elem_kind(b):
            raise Unsupported("concatenation of lists of different kinds")
        na, nb = self.llen(st, a), self.llen(st, b)
        A, B = self.larr(st, a), self.larr(st, b)
        i = z3.Int("cc_i")
        arr = z3.Lambda([i], z3.If(i < na, A[i], B[i - na]))
        return self.new_list(st, ek, na + nb, arr)

    # ------------------------------------------------------------------ comparisons / boolean structure
    def ev_Compare(self, e, st):
        if getattr(st, "spec", False):
            p = st.ghost.get("__pol__", 0)
            st.ghost["__pol__"] = 0
            try:
                vals = [self.ev1(x, st) for x in [e.left] + list(e.comparators)]
            finally:
                st.ghost["__pol__"] = p
            conj = [self.compare(op, a, b, st, e) for op, a, b in zip(e.ops, vals, vals[1:])]
            yield V(BOOL, z3.And(conj) if len(conj) > 1 else conj[0]), st
            return
        for vals, s in self.ev_list([e.left] + list(e.comparators), st):
            conj = []
            for op, a, b in zip(e.ops, vals, vals[1:]):
                conj.append(self.compare(op, a, b, s, e))
            yield V(BOOL, z3.And(conj) if len(conj) > 1 else conj[0]), s

    def compare(self, op, a: V, b: V, st, node):
        if isinstance(op, (ast.Is, ast.Eq)):
            if isinstance(op, ast.Eq) and is_list(a.kind) and is_list(b.kind) and not getattr(st, "spec", False):
                raise Unsupported("structural == on lists", node)
            if a.kind == FN and b.kind == FN:
                return z3.BoolVal(self.same_fn(a.term, b.term))
            if (a.kind == FN) != (b.kind == FN):
                ta, tb = self.as_type(a), self.as_type(b)
                if ta is not None and tb is not None:
                    return ta.term == tb.term
            return ops.same_value(a, b)
        if isinstance(op, (ast.IsNot, ast.NotEq)):
            return z3.Not(self.compare(ast.Eq() if isinstance(op, ast.NotEq) else ast.Is(), a, b, st, node))
        if isinstance(op, (ast.In, ast.NotIn)):
            r = self.contains(b, a, st, node)
            return r if isinstance(op, ast.In) else z3.Not(r)
        if type(op) in ops.CMP:
            if not (ops.is_num(a) and ops.is_num(b)):
                raise Unsupported(f"ordering of {a.kind}, {b.kind}", node)
            _, ta, tb = ops.num_join(a, b)
            return ops.CMP[type(op)](ta, tb)
        raise Unsupported("comparison operator", node)

    TYPE = Opaque("Type")
    _type_consts: dict = {}

    def as_type(self, v: V):
        """Python type objects (builtin types, classes of the class table) as constants of the opaque sort Type."""
        if isinstance(v.kind, Opaque) and v.kind.sname == "Type":
            return v
        if v.kind == FN and v.term.tag in ("builtin", "class", "exc"):
            name = v.term.name if v.term.tag == "builtin" else v.term.cls
            if name not in ExprMixin._type_consts:
                ExprMixin._type_consts[name] = z3.Const("type_" + name, self.TYPE.sort())
            cs = list(ExprMixin._type_consts.values())
            if len(cs) > 1:
                ax = z3.Distinct(*cs)
                self.axioms[:] = [a for a in self.axioms if not (z3.is_distinct(a) and a.num_args() and str(a.arg(0)).startswith("type_"))] + [ax]
            return V(self.TYPE, ExprMixin._type_consts[name])
        return None

    def same_fn(self, a, b):
        if a.tag != b.tag:
            return False
        if a.tag in ("class", "exc"):
            return a.cls == b.cls
        if a.tag == "builtin":
            return a.name == b.name
        return a is b

    def contains(self, container: V, x: V, st, node):
        if is_list(container.kind):
            n = self.llen(st, container)
            if container.kind.target.elem is None:
                return z3.BoolVal(False)
            arr = self.larr(st, container)
            ek = self.elem_kind(container)
            k = fresh("in_k", I)
            xt = self.to_term(x, ek)
            wit = z3.Function(f"inwit_{ek.name}".replace("[", "_").replace("]", "_").replace(",", "_"), I, ek.sort(), I)
            # exists k in [0,n): arr[k] == x   (skolemised positively through an explicit quantifier)
            kk = z3.Int("in_kk")
            return z3.Exists([kk], z3.And(0 <= kk, kk < n, arr[kk] == xt))
        if is_dict(container.kind):
            if container.kind.target.k is None:
                return z3.BoolVal(False)
            return self.dhas(st, container, x)
        if isinstance(container.kind, Tup):
            return z3.Or([ops.same_value(x, y) for y in container.term]) if container.term else z3.BoolVal(False)
        c = self.method_contract(container, "__contains__")
        if c is not None:
            outs = list(self.apply_contract(c, [container, x], {}, st, node))
            if len(outs) == 1:
                return self.truth(outs[0][0], st)
        raise Unsupported(f"membership in {container.kind}", node)

    def ev_BoolOp(self, e, st):
        is_and = isinstance(e.op, ast.And)
        if getattr(st, "spec", False):
            vals = [self.ev1(x, st) for x in e.values]
            if all(v.kind == BOOL for v in vals):
                ts = [v.term for v in vals]
                yield V(BOOL, z3.And(ts) if is_and else z3.Or(ts)), st
                return
            acc = vals[0]
            for nxt in vals[1:]:
                t = self.truth(acc, st)
                k = self.join_kind(acc.kind, nxt.kind)
                acc = V(k, z3.If(t, self.to_term(nxt, k), self.to_term(acc, k)) if is_and else z3.If(t, self.to_term(acc, k), self.to_term(nxt, k)))
            yield acc, st
            return
        yield from self._boolop(is_and, e.values, st, e)

    def _boolop(self, is_and, values, st, node):
        if len(values) == 1:
            yield from self.ev(values[0], st)
            return
        for a, s in self.ev(values[0], st):
            ta = self.truth(a, s)
            cont = ta if is_and else z3.Not(ta)  # condition under which evaluation continues
            s2 = s.fork()
            s2.assume(cont)
            s2.trace.append(("and" if is_and else "or"))
            outs = list(self._boolop(is_and, values[1:], s2, node))
            # try to merge into one value
            merged = None
            if len(outs) == 1:
                b, sb = outs[0]
                if a.kind == BOOL and b.kind == BOOL and sb.sig() == s.sig():
                    for fact in sb.pc[len(s.pc) + 1 :]:
                        s.assume(z3.Implies(cont, fact))
                    merged = V(BOOL, z3.And(ta, b.term) if is_and else z3.Or(ta, b.term))
                else:
                    merged = self.try_merge(s, [(cont, outs), (z3.Not(cont), [(a, s)])])
            if merged is not None:
                yield merged, s
                continue
            # fork
            s.assume(z3.Not(cont))
            s.trace.append(("and-short" if is_and else "or-short"))
            if self.feasible(s):
                yield a, s
            for b, sb in outs:
                yield b, sb

    def ev_IfExp(self, e, st):
        if getattr(st, "spec", False):
            p = st.ghost.get("__pol__", 0)
            st.ghost["__pol__"] = 0
            try:
                c = self.truth(self.ev1(e.test, st), st)
                a, b = self.ev1(e.body, st), self.ev1(e.orelse, st)
            finally:
                st.ghost["__pol__"] = p
            k = self.join_kind(a.kind, b.kind)
            yield V(k, z3.If(c, self.to_term(a, k), self.to_term(b, k))), st
            return
        for t, s in self.ev(e.test, st):
            c = self.truth(t, s)
            cs = z3.simplify(c)
            if z3.is_true(cs) or z3.is_false(cs):
                yield from self.ev(e.body if z3.is_true(cs) else e.orelse, s)
                continue
            s1, s2 = s.fork(), s.fork()
            s1.assume(c)
            s2.assume(z3.Not(c))
            o1 = list(self.ev(e.body, s1))
            o2 = list(self.ev(e.orelse, s2))
            merged = self.try_merge(s, [(c, o1), (z3.Not(c), o2)])
            if merged is not None:
                yield merged, s
            else:
                for s_, tag in ((s1, "T"), (s2, "F")):
                    pass
                for v, sx in o1:
                    sx.trace.append("ifexp-T:" + ast.unparse(e.test)[:40])
                    yield v, sx
                for v, sx in o2:
                    sx.trace.append("ifexp-F:" + ast.unparse(e.test)[:40])
                    yield v, sx

    # ------------------------------------------------------------------ literals
    def ev_List(self, e, st):
        if any(isinstance(x, ast.Starred) for x in e.elts):
            raise Unsupported("starred list literal", e)
        for vals, s in self.ev_list(e.elts, st):
            if not vals:
                yield self.new_list(s, None), s
            else:
                yield self.list_from_values(s, vals), s

    def ev_Tuple(self, e, st):
        for vals, s in self.ev_list(e.elts, st):
            yield V(Tup([v.kind for v in vals]), tuple(vals)), s

    def ev_Dict(self, e, st):
        if not e.keys:
            yield self.new_dict(st, None, None), st
            return
        for ks, s in self.ev_list(e.keys, st):
            for vs, s2 in self.ev_list(e.values, s):
                d = self.new_dict(s2, None, None)
                for k, v in zip(ks, vs):
                    self.dset(s2, d, k, v)
                yield d, s2

    def ev_DictComp(self, e, st):
        """{k: copy(v) for k, v in d.items()}: a new dict with the same keys (same key objects, same order) whose
        values are per-key copies -- the shape used to copy a genotype's gene tables."""
        if len(e.generators) != 1 or e.generators[0].ifs:
            raise Unsupported("dict comprehension form", e)
        gen = e.generators[0]
        it = gen.iter
        if not (isinstance(it, ast.Call) and isinstance(it.func, ast.Attribute) and it.func.attr == "items" and not it.args):
            raise Unsupported("dict comprehension must iterate d.items()", e)
        tgt = gen.target
        if not (isinstance(tgt, ast.Tuple) and len(tgt.elts) == 2 and all(isinstance(x, ast.Name) for x in tgt.elts)):
            raise Unsupported("dict comprehension target", e)
        kn, vn = tgt.elts[0].id, tgt.elts[1].id
        if not (isinstance(e.key, ast.Name) and e.key.id == kn):
            raise Unsupported("dict comprehension must keep the keys", e)
        val = e.value
        copies = False
        if isinstance(val, ast.Name) and val.id == vn:
            copies = False
        elif isinstance(val, ast.Call) and len(val.args) == 1 and isinstance(val.args[0], ast.Name) and val.args[0].id == vn and isinstance(val.func, ast.Name) and val.func.id in ("deepcopy", "list", "copy"):
            copies = True
        elif isinstance(val, ast.Call) and isinstance(val.func, ast.Attribute) and val.func.attr == "copy" and isinstance(val.func.value, ast.Name) and val.func.value.id == vn and not val.args:
            copies = True
        elif isinstance(val, ast.Subscript) and isinstance(val.value, ast.Name) and val.value.id == vn and isinstance(val.slice, ast.Slice) and val.slice.lower is None and val.slice.upper is None:
            copies = True
        else:
            raise Unsupported("dict comprehension value form", e)
        for d, s in self.ev(it.func.value, st):
            if not is_dict(d.kind):
                raise Unsupported("dict comprehension over a non-dict", e)
            if copies:
                yield self.bi_deepcopy([d], {}, s, e), s
            else:
                k, vk = self.dict_kinds(d)
                nd = self.new_dict(s, k, vk)
                self._copy_dict_shell(s, d, nd)
                mn = self.H.n_map(k.sort(), vk.sort())
                ma = self.H.map_arr(s, k.sort(), vk.sort())
                s.heap[mn] = z3.Store(ma, nd.term, self.sel(s, ma, d.term))
                yield nd, s

    def ev_Lambda(self, e, st):
        yield V(FN, FuncRef("lambda", node=e)), st

    # ------------------------------------------------------------------ comprehensions
    def ev_ListComp(self, e, st):
        yield from self.comprehension(e, st, oneshot=False)

    def ev_GeneratorExp(self, e, st):
        yield from self.comprehension(e, st, oneshot=True)

    def comprehension(self, e, st, oneshot):
        if len(e.generators) != 1:
            raise Unsupported("nested comprehension", e)
        gen = e.generators[0]
        if gen.is_async:
            raise Unsupported("async comprehension", e)
        for src, s in self.ev(gen.iter, st):
            view = self.iter_view(src, s, gen.iter)
            yield self.comp_over_view(e, gen, view, s, oneshot), s

    def comp_over_view(self, e, gen, view, st, oneshot) -> V:
        n, getter = view.n, view.get
        # small concrete iteration spaces are unrolled
        ns = z3.simplify(n)
        if z3.is_int_value(ns) and ns.as_long() <= 8 and not gen.ifs:
            vals = []
            for i in range(ns.as_long()):
                self.bind_target(gen.target, getter(z3.IntVal(i)), st, e)
                outs = list(self.ev(e.elt, st))
                if len(outs) != 1 or outs[0][1] is not st:
                    raise Unsupported("forking element expression in comprehension", e)
                vals.append(outs[0][0])
            self.unbind_target(gen.target, st)
            res = self.list_from_values(st, vals) if vals else self.new_list(st, None)
            if oneshot:
                res = V(Ref(ListT(res.kind.target.elem, True)), res.term)
                self.set_ghost_flag(st, res.term, "oneshot", z3.BoolVal(True))
                self.set_ghost_flag(st, res.term, "consumed", z3.BoolVal(False))
            view.consume(st)
            return res
        k = fresh("ck", I)
        saved = {nm: st.env.get(nm) for nm in self.target_names(gen.target)}
        sub = st.fork()
        sub.assume(z3.And(0 <= k, k < n))
        self.bind_target(gen.target, getter(k), sub, e)
        base_pc = len(sub.pc)
        base_sig = sub.sig()
        conds = []
        for c in gen.ifs:
            cv = self.ev_pure(c, sub)
            conds.append(self.truth(cv, sub))
        cond_facts = list(sub.pc[base_pc:])  # learned while evaluating the filter: hold for every index in range
        if conds:
            sub.assume(z3.And(conds))
        base_pc = len(sub.pc) - (1 if conds else 0)
        self.in_comprehension += 1
        self.comp_oracle_stack.append([])
        try:
            elt = self.ev_pure(e.elt, sub, allow_oracle=True, index=k)
        finally:
            self.in_comprehension -= 1
            oracle_consts = self.comp_oracle_stack.pop()
        # facts learned about the element (callee ensures), universally quantified over k
        facts = sub.pc[base_pc + (1 if conds else 0) :]
        if elt.kind in (NONE, FN):
            raise Unsupported("comprehension element kind", e)
        ek = elt.kind
        et = self.to_term(elt, ek)
        if not sub.top.eq(st.top):
            # the element expression allocated (one symbolic evaluation stands for every index)
            from .solve import _mentions

            def consts_of(t):
                out, todo, seen = [], [t], set()
                while todo:
                    x = todo.pop()
                    if x.get_id() in seen:
                        continue
                    seen.add(x.get_id())
                    if z3.is_const(x) and x.decl().kind() == z3.Z3_OP_UNINTERPRETED:
                        out.append(x)
                    todo.extend(x.children())
                return out

            tops = consts_of(st.top) + consts_of(sub.top)
            if any(_mentions(et, c_) for c_ in tops):
                # the element IS an object allocated by the element expression: every index would get the same address
                raise Unsupported("comprehension over a symbolic range whose element expression constructs objects", e)
            # allocations by callees: nobody holds their addresses; advance the allocation pointer past all of them
            ntop = fresh("ctop", I)
            st.assume(ntop >= st.top)
            if z3.is_const(sub.top):
                facts = [z3.substitute(f, (sub.top, ntop)) for f in facts]
            st.top = ntop
        et = self.to_term(elt, ek)
        guard = z3.And(0 <= k, k < n)
        # adopt heap changes made by oracle calls (e.g. rng ghost) -- only ghost havoc is allowed
        if sub.sig() != base_sig:
            st.heap = sub.heap
            st.draws = sub.draws
        if not gen.ifs:
            if oracle_consts:
                # element depends on per-index oracle results: skolemise as arrays indexed by k
                subst = []
                for c in oracle_consts:
                    arr = fresh("orc", z3.ArraySort(I, c.sort()))
                    subst.append((c, arr[k]))
                et = z3.substitute(et, *subst)
                facts = [z3.substitute(f, *subst) for f in facts]
            arr = z3.Lambda([k], et)
            res = self.new_list(st, ek, n, arr, oneshot=oneshot)
            for f in facts:
                st.assume(z3.ForAll([k], z3.Implies(guard, f)))
            view.consume(st)
            return res
        # filter comprehension: order-preserving sub-sequence, characterised through skolem index maps
        if oracle_consts:
            raise Unsupported("oracle call in filtered comprehension", e)
        cond = z3.And(conds)
        m = fresh("flen", I)
        idx = z3.Function(f"fidx!{m}", I, I)
        pos = z3.Function(f"fpos!{m}", I, I)
        j, j2 = z3.Ints("fj fj2")

        def at(t):
            return z3.substitute(et, (k, t))

        def cond_at(t):
            return z3.substitute(cond, (k, t))

        outarr = z3.Lambda([j], at(idx(j)))
        res = self.new_list(st, ek, m, outarr, oneshot=oneshot)
        st.assume(z3.And(m >= 0, m <= n))
        for f in cond_facts:
            st.assume(z3.ForAll([k], z3.Implies(guard, f)))
        st.assume(z3.ForAll([j], z3.Implies(z3.And(0 <= j, j < m), z3.And(0 <= idx(j), idx(j) < n, cond_at(idx(j)), pos(idx(j)) == j))))
        st.assume(z3.ForAll([j, j2], z3.Implies(z3.And(0 <= j, j < j2, j2 < m), idx(j) < idx(j2))))
        st.assume(z3.ForAll([k], z3.Implies(z3.And(guard, cond), z3.And(0 <= pos(k), pos(k) < m, idx(pos(k)) == k))))
        for f in facts:
            st.assume(z3.ForAll([k], z3.Implies(z3.And(guard, cond), f)))
        for nm, old in saved.items():
            if old is None:
                st.env.pop(nm, None)
            else:
                st.env[nm] = old
        view.consume(st)
        return res

    def ev_pure(self, e, st, allow_oracle=False, index=None) -> V:
        """Evaluate e on st, merging forks into ite-terms; the evaluation must not change the heap (except
        ghost effects of oracle calls when allow_oracle)."""
        sig = st.sig()
        base = len(st.pc)  # BEFORE the evaluation: a fork may continue in `st` itself and append its branch condition there
        outs = list(self.ev(e, st))
        if len(outs) == 1 and outs[0][1] is st:
            if st.sig() != sig and not allow_oracle:
                raise Unsupported("impure expression where a pure one is required", e)
            return outs[0][0]
        # merge forks: each outcome is guarded by the facts its path added (branch conditions and what was learned on it)
        conds = []
        branches = []
        for v, s in outs:
            delta = s.pc[base:]
            branches.append((z3.And(delta) if delta else z3.BoolVal(True), v, s))
        if sum(1 for c_, _v, _s in branches if z3.is_true(c_)) > 1:
            raise Unsupported("cannot merge forked outcomes of a pure expression (no distinguishing path facts)", e)
        kinds = [v.kind for _, v, _ in branches]
        k0 = kinds[0]
        for kk in kinds[1:]:
            k0 = self.join_kind(k0, kk)
        t = self.to_term(branches[-1][1], k0)
        for c, v, _ in reversed(branches[:-1]):
            t = z3.If(c, self.to_term(v, k0), t)
        return V(k0, t)

    # ------------------------------------------------------------------ feasibility
    def feasible(self, st: State) -> bool:
        """False only if the path condition is certainly unsatisfiable.  Uses the quantifier-free facts first
        (cheap, decides almost every branch); the full context is consulted only with a tiny budget."""
        s = z3.Solver()
        s.set("timeout", 250)
        s.add(*self.qf_pc(st))
        r = s.check()
        if r == z3.unsat:
            return False
        return True
