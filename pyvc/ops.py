"""Python operator semantics over symbolic values (ints mathematical, floats as reals)."""
from __future__ import annotations

import ast
import z3

from .kinds import V, INT, BOOL, REAL, NONE, Opaque, Ref, Tup, Kind, is_ref
from .state import Unsupported

STR = Opaque("Str")
_str_consts: dict[str, z3.ExprRef] = {}


def str_const(s: str) -> V:
    if s not in _str_consts:
        _str_consts[s] = z3.Const("str_" + "".join(ch if ch.isalnum() else "_" for ch in s)[:40] + f"_{len(_str_consts)}", STR.sort())
    return V(STR, _str_consts[s])


def str_distinct_axioms():
    cs = list(_str_consts.values())
    return [z3.Distinct(*cs)] if len(cs) > 1 else []


def const(v) -> V:
    if isinstance(v, bool):
        return V(BOOL, z3.BoolVal(v))
    if isinstance(v, int):
        return V(INT, z3.IntVal(v))
    if isinstance(v, float):
        return V(REAL, z3.RealVal(repr(v)) if v == v and abs(v) != float("inf") else None)
    if v is None:
        return V(NONE, None)
    if isinstance(v, str):
        return str_const(v)
    raise Unsupported(f"constant {v!r}")


def to_int_term(v: V):
    if v.kind == INT:
        return v.term
    if v.kind == BOOL:
        return z3.If(v.term, z3.IntVal(1), z3.IntVal(0))
    raise Unsupported(f"not an int: {v.kind}")


def to_real_term(v: V):
    if v.kind == REAL:
        return v.term
    if v.kind == INT:
        return z3.ToReal(v.term)
    if v.kind == BOOL:
        return z3.If(v.term, z3.RealVal(1), z3.RealVal(0))
    raise Unsupported(f"not a number: {v.kind}")


def is_num(v: V) -> bool:
    return v.kind in (INT, BOOL, REAL)


def num_join(a: V, b: V):
    """Returns (kind, ta, tb) after numeric coercion."""
    if not (is_num(a) and is_num(b)):
        raise Unsupported(f"arithmetic on {a.kind} and {b.kind}")
    if a.kind == REAL or b.kind == REAL:
        return REAL, to_real_term(a), to_real_term(b)
    return INT, to_int_term(a), to_int_term(b)


def py_floordiv(a, b):
    """Python // on ints (floor); z3 div rounds so that remainder is non-negative."""
    # z3: a div b  with  a = b*(a div b) + (a mod b), 0 <= a mod b < |b|
    # b > 0: floor(a/b) = a div b.   b < 0: floor(a/b) = -((-a) div (-b)) adjusted: use a div b when exact else (a div b) - 1?
    # For b<0: z3 a div b = -(a div -b) rounding toward +inf of the true quotient when inexact => floor = (a div b) - (a mod b != 0 ? 1 : 0)
    return z3.If(b > 0, a / b, z3.If(a % b == 0, a / b, a / b - 1))


def py_mod(a, b):
    """Python % on ints: result has the sign of the divisor."""
    # b>0: z3 mod (non-negative).  b<0: r = a mod |b| in [0,|b|); python result = r == 0 ? 0 : r + b
    return z3.If(b > 0, a % b, z3.If(a % b == 0, z3.IntVal(0), (a % b) + b))


def real_trunc(x):
    """int(x) for a real x: truncation toward zero."""
    return z3.If(x >= 0, z3.ToInt(x), -z3.ToInt(-x))


def real_floor(x):
    return z3.ToInt(x)


def real_round_half_even(x):
    """round(x) for real x (banker's rounding), as an integer term."""
    f = z3.ToInt(x)  # floor
    d = x - z3.ToReal(f)
    return z3.If(d < z3.RealVal("1/2"), f, z3.If(d > z3.RealVal("1/2"), f + 1, z3.If(f % 2 == 0, f, f + 1)))


def truthy(v: V, lenf=None):
    """z3 Bool for Python truthiness.  lenf(addr) gives list length for list refs."""
    k = v.kind
    if k == BOOL:
        return v.term
    if k == INT:
        return v.term != 0
    if k == REAL:
        return v.term != 0
    if k == NONE:
        return z3.BoolVal(False)
    if isinstance(k, Tup):
        return z3.BoolVal(len(v.term) > 0)
    if isinstance(k, Ref):
        from .kinds import ListT, DictT

        if isinstance(k.target, ListT) and lenf is not None:
            return z3.And(v.term != 0, lenf(v) > 0)
        if isinstance(k.target, DictT) and lenf is not None:
            return z3.And(v.term != 0, lenf(v) > 0)
        return v.term != 0
    if isinstance(k, Opaque):
        return z3.BoolVal(True)
    raise Unsupported(f"truthiness of {k}")


def is_none(v: V):
    if v.kind == NONE:
        return z3.BoolVal(True)
    if isinstance(v.kind, Ref):
        return v.term == 0
    return z3.BoolVal(False)


def same_value(a: V, b: V):
    """`is` / identity-style equality (also == for scalars and opaque values)."""
    if a.kind == NONE or b.kind == NONE:
        other = b if a.kind == NONE else a
        return is_none(other)
    if is_num(a) and is_num(b):
        if a.kind == BOOL and b.kind == BOOL:
            return a.term == b.term
        _, ta, tb = num_join(a, b)
        return ta == tb
    if isinstance(a.kind, Ref) and isinstance(b.kind, Ref):
        return a.term == b.term
    if isinstance(a.kind, Opaque) and isinstance(b.kind, Opaque):
        if a.kind.sname != b.kind.sname:
            return z3.BoolVal(False)
        return a.term == b.term
    if isinstance(a.kind, Tup) and isinstance(b.kind, Tup):
        if len(a.term) != len(b.term):
            return z3.BoolVal(False)
        return z3.And([same_value(x, y) for x, y in zip(a.term, b.term)]) if a.term else z3.BoolVal(True)
    return z3.BoolVal(False)


CMP = {
    ast.Lt: lambda a, b: a < b,
    ast.LtE: lambda a, b: a <= b,
    ast.Gt: lambda a, b: a > b,
    ast.GtE: lambda a, b: a >= b,
}
