"""Statements, loops (cut by invariants), exceptions, generators."""
from __future__ import annotations

import ast
import z3

from . import ops
from .kinds import V, INT, BOOL, REAL, NONE, FN, Opaque, Ref, Tup, ListT, DictT, ObjT, Kind, parse_kind, is_list, is_dict, is_obj
from .state import State, Unsupported, fresh, I
from .engine_expr import FuncRef
from .engine_contract import parse_spec


def assigned_names(stmts) -> set[str]:
    out = set()

    class Vis(ast.NodeVisitor):
        def visit_Name(self, n):
            if isinstance(n.ctx, (ast.Store, ast.Del)):
                out.add(n.id)

        def visit_FunctionDef(self, n):
            out.add(n.name)

        def visit_Lambda(self, n):
            pass

        def visit_ListComp(self, n):
            pass

        def visit_GeneratorExp(self, n):
            pass

        def visit_DictComp(self, n):
            pass

        def visit_SetComp(self, n):
            pass

    v = Vis()
    for s in stmts:
        v.visit(s)
    return out


class StmtMixin:
    # ------------------------------------------------------------------ targets
    def target_names(self, t) -> list[str]:
        if isinstance(t, ast.Name):
            return [t.id]
        if isinstance(t, (ast.Tuple, ast.List)):
            return [n for x in t.elts for n in self.target_names(x)]
        return []

    def bind_target(self, t, v: V, st: State, node):
        if isinstance(t, ast.Name):
            hint = None
            cc = self.reg.contracts.get(self.cur_qual)
            if cc is not None and t.id in cc.locals:
                hint = parse_kind(cc.locals[t.id], self.reg.opaque)
                v = self.coerce_arg(v, hint, st, f"local {t.id}")
            st.env[t.id] = v
        elif isinstance(t, (ast.Tuple, ast.List)):
            if not isinstance(v.kind, Tup):
                if is_list(v.kind):
                    n = self.llen(st, v)
                    self.oblige(st, "safe", "unpack-arity", n == len(t.elts), node, exc="ValueError")
                    for i, x in enumerate(t.elts):
                        self.bind_target(x, self.lget(st, v, z3.IntVal(i)), st, node)
                    return
                raise Unsupported(f"unpacking {v.kind}", node)
            if len(v.term) != len(t.elts):
                raise Unsupported("unpack arity mismatch", node)
            for x, xv in zip(t.elts, v.term):
                self.bind_target(x, xv, st, node)
        elif isinstance(t, ast.Subscript):
            objs = list(self.ev(t.value, st))
            if len(objs) != 1:
                raise Unsupported("forking store target", node)
            obj = objs[0][0]
            if isinstance(t.slice, ast.Slice):
                raise Unsupported("slice assignment", node)
            idx = self.ev1(t.slice, st)
            if is_list(obj.kind):
                i = self.norm_index(st, obj, idx, node)
                self.lstore(st, obj, i, v, node)
            elif is_dict(obj.kind):
                self.dset(st, obj, idx, v, node)
            else:
                c = self.method_contract(obj, "__setitem__")
                if c is None:
                    raise Unsupported(f"item store on {obj.kind}", node)
                list(self.apply_contract(c, [obj, idx, v], {}, st, node))
        elif isinstance(t, ast.Attribute):
            obj = self.ev1(t.value, st)
            if not is_obj(obj.kind):
                raise Unsupported(f"attribute store on {obj.kind}", node)
            cls = obj.kind.target.cls
            fk = self.field_kind(cls, t.attr)
            if fk is None:
                if isinstance(v.kind, Ref) or v.kind in (INT, BOOL, REAL):
                    fk = v.kind if not isinstance(v.kind, Ref) else Ref(ObjT("object"), optional=True)
                    self.note_assumption(f"store to the undeclared field {cls}.{t.attr}")
                else:
                    raise Unsupported(f"store to undeclared field {cls}.{t.attr}", node)
            self.oblige(st, "safe", f"notnone:{t.attr}", obj.term != 0, node, exc="AttributeError")
            if fk == FN:
                raise Unsupported("function-valued field store", node)
            self.fset(st, obj, t.attr, fk, self.coerce_arg(v, fk, st, f"{cls}.{t.attr}"), node)
        elif isinstance(t, ast.Starred):
            raise Unsupported("starred target", node)
        else:
            raise Unsupported("assignment target", node)

    def unbind_target(self, t, st):
        for n in self.target_names(t):
            st.env.pop(n, None)

    # ------------------------------------------------------------------ blocks
    def drain_raises(self):
        buf, self.raise_buffer = self.raise_buffer, []
        return buf

    def exec_block(self, stmts, st: State):
        states = [st]
        for s in stmts:
            nxt = []
            for cur in states:
                outs = list(self.exec_stmt(s, cur))
                for exc, s2, node, origin in self.drain_raises():
                    outs.append(("raise", (exc, node, origin), s2))
                for kind, val, s2 in outs:
                    if kind == "next":
                        nxt.append(s2)
                    else:
                        yield kind, val, s2
            states = nxt
            if len(states) > self.max_paths:
                raise Unsupported(f"path explosion ({len(states)} paths)", s)
        for cur in states:
            yield "next", None, cur

    def exec_stmt(self, s, st: State):
        m = getattr(self, "st_" + type(s).__name__, None)
        if m is None:
            raise Unsupported(f"statement {type(s).__name__}", s)
        self.cur_state = st
        yield from m(s, st)

    # ------------------------------------------------------------------ simple statements
    def st_Pass(self, s, st):
        yield "next", None, st

    def st_Import(self, s, st):
        yield "next", None, st

    st_ImportFrom = st_Import

    def st_Global(self, s, st):
        raise Unsupported("global statement", s)

    def st_Expr(self, s, st):
        e = s.value
        if isinstance(e, ast.Constant):
            yield "next", None, st
            return
        if isinstance(e, ast.Yield):
            if e.value is None:
                raise Unsupported("bare yield", s)
            for v, s2 in self.ev(e.value, st):
                self.do_yield(s2, v, s)
                yield "next", None, s2
            return
        if isinstance(e, ast.YieldFrom):
            for v, s2 in self.ev(e.value, st):
                view = self.iter_view(v, s2, s)
                self.cur_state = s2
                self.extend_list(s2, s2.out, view, None)
                yield "next", None, s2
            return
        if self.is_logging_call(e):
            self.dropped.add("logger call")
            yield "next", None, st
            return
        for _v, s2 in self.ev(e, st):
            yield "next", None, s2

    def is_logging_call(self, e):
        return (
            isinstance(e, ast.Call)
            and isinstance(e.func, ast.Attribute)
            and isinstance(e.func.value, ast.Name)
            and e.func.value.id in ("logger", "logging", "warnings")
        )

    def do_yield(self, st: State, v: V, node):
        if st.out is None:
            raise Unsupported("yield outside generator unit", node)
        if self.inline_depth == 0 and self.c.yield_asserts:
            env = dict(st.env)
            env["yielded"] = v
            env["OUT"] = st.out
            for lab, txt in self.c.yield_asserts.items():
                g = self.spec_goal(txt, env, st, self.entry_state)
                self.oblige(st, "yield", lab, g, node, note=txt)
        nf = self.no_frame
        self.no_frame = True
        try:
            self.lappend(st, st.out, v, node)
        finally:
            self.no_frame = nf

    def st_Assign(self, s, st):
        for v, s2 in self.ev(s.value, st):
            for t in s.targets:
                self.cur_state = s2
                self.bind_target(t, v, s2, s)
            yield "next", None, s2

    def st_AnnAssign(self, s, st):
        if s.value is None:
            yield "next", None, st
            return
        for v, s2 in self.ev(s.value, st):
            self.bind_target(s.target, v, s2, s)
            yield "next", None, s2

    def st_AugAssign(self, s, st):
        load = ast.copy_location(self._as_load(s.target), s)
        for cur, s1 in self.ev(load, st):
            for v, s2 in self.ev(s.value, s1):
                if is_list(cur.kind) and isinstance(s.op, ast.Add):
                    view = self.iter_view(v, s2, s)
                    self.extend_list(s2, cur, view, s)
                else:
                    self.bind_target(s.target, self.binop(s.op, cur, v, s2, s), s2, s)
                yield "next", None, s2

    def _as_load(self, t):
        t2 = ast.parse(ast.unparse(t), mode="eval").body
        return ast.fix_missing_locations(t2)

    def st_Return(self, s, st):
        if s.value is None:
            yield "return", V(NONE, None), st
            return
        for v, s2 in self.ev(s.value, st):
            yield "return", v, s2

    def st_Assert(self, s, st):
        for v, s2 in self.ev(s.test, st):
            self.oblige(s2, "safe", "assert", self.truth(v, s2), s, exc="AssertionError", note=ast.unparse(s.test))
            yield "next", None, s2

    def st_Raise(self, s, st):
        if s.exc is None:
            raise Unsupported("re-raise", s)
        e = s.exc
        name = None
        if isinstance(e, ast.Call) and isinstance(e.func, ast.Name):
            name = e.func.id
        elif isinstance(e, ast.Name):
            name = e.id
        if name is None or name not in self.reg.exc_bases:
            raise Unsupported(f"raise of unknown exception {ast.unparse(e)}", s)
        yield "raise", (name, s, None), st

    def st_Delete(self, s, st):
        raise Unsupported("del statement", s)

    def st_FunctionDef(self, s, st):
        self.local_funcs[s.name] = s
        st.env.pop(s.name, None)
        yield "next", None, st

    def st_Break(self, s, st):
        yield "break", None, st

    def st_Continue(self, s, st):
        yield "continue", None, st

    # ------------------------------------------------------------------ branching
    def st_If(self, s, st):
        for t, s1 in self.ev(s.test, st):
            c = z3.simplify(self.truth(t, s1))
            src = ast.unparse(s.test)[:60]
            if z3.is_true(c):
                yield from self.exec_block(s.body, s1)
                continue
            if z3.is_false(c):
                yield from self.exec_block(s.orelse, s1)
                continue
            sT, sF = s1.fork(), s1
            sT.assume(c)
            sT.trace.append(f"if({src})")
            sF.assume(z3.Not(c))
            sF.trace.append(f"else({src})")
            if self.feasible(sT):
                yield from self.exec_block(s.body, sT)
            if self.feasible(sF):
                yield from self.exec_block(s.orelse, sF)

    def st_Match(self, s, st):
        raise Unsupported("match statement", s)

    def st_With(self, s, st):
        if len(s.items) != 1:
            raise Unsupported("multi-item with", s)
        item = s.items[0]
        for v, s1 in self.ev(item.context_expr, st):
            if item.optional_vars is not None:
                self.bind_target(item.optional_vars, v, s1, s)
            self.note_assumption("with-statement: __enter__ returns the context object, __exit__ has no effect on the modelled state")
            yield from self.exec_block(s.body, s1)

    # ------------------------------------------------------------------ exceptions
    def st_Try(self, s, st):
        if s.finalbody:
            raise Unsupported("try/finally", s)
        caught = []
        for h in s.handlers:
            if h.type is None:
                caught.append("Exception")
            elif isinstance(h.type, ast.Name):
                caught.append(h.type.id)
            elif isinstance(h.type, ast.Tuple):
                caught.extend(x.id for x in h.type.elts if isinstance(x, ast.Name))
            else:
                raise Unsupported("except clause form", s)
        st.handlers.append(caught)
        outs = list(self.exec_block(s.body, st))
        for kind, val, s2 in outs:
            if s2.handlers:
                s2.handlers.pop()
            if kind == "raise":
                exc = val[0]
                handler = None
                for h in s.handlers:
                    names = ["Exception"] if h.type is None else ([h.type.id] if isinstance(h.type, ast.Name) else [x.id for x in h.type.elts])
                    if any(self.reg.exc_is(exc, n) for n in names):
                        handler = h
                        break
                if handler is not None:
                    s2.trace.append(f"except-{exc}")
                    if handler.name:
                        s2.env[handler.name] = V(FN, FuncRef("excinst", cls=exc))
                    yield from self.exec_block(handler.body, s2)
                    continue
                yield kind, val, s2
            elif kind == "next":
                if s.orelse:
                    yield from self.exec_block(s.orelse, s2)
                else:
                    yield kind, val, s2
            else:
                yield kind, val, s2

    # ------------------------------------------------------------------ loops
    def loop_spec(self, node):
        if id(node) in self.synthetic_loops:
            return self.synthetic_loops[id(node)]
        ordinal = self.loop_ordinals.get(id(node))
        c = self.reg.contracts.get(self.cur_qual)
        if ordinal is None:
            # loop in an inlined function: ordinals computed on demand
            return None, None
        if c is None:
            return ordinal, None
        return ordinal, c.loops.get(ordinal)

    def st_For(self, s, st):
        if s.orelse:
            raise Unsupported("for/else", s)
        ordinal, spec = self.loop_spec(s)
        for itv, st1 in self.ev(s.iter, st):
            view = self.iter_view(itv, st1, s)
            n = z3.simplify(view.n)
            if spec is None:
                if z3.is_int_value(n) and n.as_long() <= self.unroll_limit:
                    yield from self.unroll_for(s, view, n.as_long(), st1)
                    continue
                raise Unsupported(f"loop #{ordinal} of {self.cur_qual} has no invariant", s)
            yield from self.cut_loop(s, spec, ordinal, st1, view=view)

    def unroll_for(self, s, view, n, st):
        states = [st]
        for i in range(n):
            nxt = []
            for cur in states:
                self.cur_state = cur
                self.bind_target(s.target, view.get(z3.IntVal(i)), cur, s)
                for kind, val, s2 in self.exec_block(s.body, cur):
                    if kind in ("next", "continue"):
                        nxt.append(s2)
                    elif kind == "break":
                        yield "next", None, s2
                    else:
                        yield kind, val, s2
            states = nxt
        for cur in states:
            view.consume(cur)
            yield "next", None, cur

    def st_While(self, s, st):
        if s.orelse:
            raise Unsupported("while/else", s)
        ordinal, spec = self.loop_spec(s)
        if spec is None:
            raise Unsupported(f"loop #{ordinal} of {self.cur_qual} has no invariant", s)
        yield from self.cut_loop(s, spec, ordinal, st, view=None)

    def ghost_exec(self, code: str, st: State):
        """Execute ghost statements (spec-side Python) on st; must not fork."""
        if not code:
            return
        tree = ast.parse(code)
        nf = self.no_frame
        self.no_frame = True
        try:
            outs = list(self.exec_block(tree.body, st))
        finally:
            self.no_frame = nf
        if len(outs) != 1 or outs[0][0] != "next" or outs[0][2] is not st:
            raise Unsupported("ghost code must be straight-line")

    def cut_loop(self, s, spec, ordinal, st: State, view):
        is_for = view is not None
        n = view.n if is_for else None
        lab = f"loop{ordinal}"
        ghost_init = spec.ghost_init.get("init", "") if spec.ghost_init else ""
        ghost_step = spec.ghost_init.get("step", "") if spec.ghost_init else ""
        self.ghost_exec(ghost_init, st)
        body_assigned = assigned_names(s.body) | (set(self.target_names(s.target)) if is_for else set())
        if ghost_step:
            body_assigned |= assigned_names(ast.parse(ghost_step).body)

        def inv_env(state, k):
            env = dict(state.env)
            if state.out is not None:
                env["OUT"] = state.out
            if is_for:
                env["_k"] = V(INT, k)
                env["_n"] = V(INT, n)
                if getattr(view, "src", None) is not None:
                    env["_seq"] = view.src  # the sequence being iterated (when it is a list cell)
            return env

        # 1. invariants hold on entry
        for name, txt in spec.invariants.items():
            g = self.spec_goal(txt, inv_env(st, z3.IntVal(0)), st, self.entry_state)
            self.oblige(st, "inv-init", f"{lab}.{name}", g, s, note=txt)

        top_entry = st.top
        loop_allowed = []
        menv = dict(st.env)
        if st.out is not None:
            menv["OUT"] = st.out
        for entry in spec.modifies:
            if entry == "fresh":
                continue
            loop_allowed.append(self.resolve_mod(entry, menv, st))

        def havoced(allocates: bool) -> State:
            h = st.fork()
            for nm in sorted(body_assigned):
                if nm in h.env:
                    old = h.env[nm]
                    if old.kind == FN:
                        continue
                    if old.kind == NONE:
                        raise Unsupported(f"loop variable `{nm}` is None at loop entry and assigned in the body: give it a kind in the contract's `locals`", s)
                    h.env[nm] = self.fresh_value(f"lv_{nm}", old.kind)
                    if isinstance(old.kind, Ref):
                        pass
            for region, addr in loop_allowed:
                self.havoc_region(h, region, addr)
                if region == "dict" and addr is not None and not callable(addr) and addr.get_id() in self._mod_values:
                    dv = self._mod_values[addr.get_id()]
                    if dv.kind.target.k is not None:
                        h.assume(self.dict_wf(h, dv))
            if allocates:
                t = fresh("ltop", I)
                h.assume(t >= top_entry)
                self.havoc_fresh(h, top_entry)
                h.top = t
            for nm in sorted(body_assigned):
                if nm in h.env and isinstance(h.env[nm].kind, Ref):
                    h.assume(z3.And(h.env[nm].term >= 0, h.env[nm].term < h.top))
            return h

        def run(allocates: bool):
            """One symbolic iteration from the havoced state.  Returns (outcomes to propagate, exit states,
            allocation detected, kinds of variables first assigned in the body)."""
            propagate, breaks = [], []
            h = havoced(allocates)
            k = fresh("k", I) if is_for else None
            if is_for:
                h.assume(z3.And(0 <= k, k < n))
            for name, txt in spec.invariants.items():
                h.assume(self.spec_assume(txt, inv_env(h, k), h, self.entry_state))
            new_kinds = {}
            alloc_seen = False
            heads = []
            if is_for:
                self.cur_state = h
                self.bind_target(s.target, view.get(k), h, s)
                heads = [h]
            else:
                for tv, hs in self.ev(s.test, h):
                    c = self.truth(tv, hs)
                    hx = hs.fork()
                    hx.assume(z3.Not(c))
                    hx.trace.append(f"{lab}-exit")
                    if self.feasible(hx):
                        breaks.append(("exit", hx))
                    hs.assume(c)
                    hs.trace.append(f"{lab}-iter")
                    heads.append(hs)
                for exc, s2, node, origin in self.drain_raises():
                    propagate.append(("raise", (exc, node, origin), s2))
            for hb in heads:
                if not self.feasible(hb):
                    continue
                dec0 = None
                if spec.decreases:
                    dec0 = ops.to_int_term(self.spec_eval(spec.decreases, inv_env(hb, k), hb, self.entry_state))
                    self.oblige(hb, "variant", f"{lab}.bounded", dec0 >= 0, s, note=spec.decreases)
                hb.loop_frames.append((top_entry, loop_allowed, ordinal))
                for kind, val, s2 in self.exec_block(s.body, hb):
                    if s2.loop_frames:
                        s2.loop_frames.pop()
                    if s2.top is not hb.top and not s2.top.eq(h.top):
                        alloc_seen = True
                    if kind in ("next", "continue"):
                        self.ghost_exec(ghost_step, s2)
                        kk = (k + 1) if is_for else None
                        for name, txt in spec.invariants.items():
                            g = self.spec_goal(txt, inv_env(s2, kk), s2, self.entry_state)
                            self.oblige(s2, "inv-step", f"{lab}.{name}", g, s, note=txt)
                        if dec0 is not None:
                            d1 = ops.to_int_term(self.spec_eval(spec.decreases, inv_env(s2, kk), s2, self.entry_state))
                            self.oblige(s2, "variant", f"{lab}.decreases", d1 < dec0, s, note=spec.decreases)
                        for nm in body_assigned:
                            if nm in s2.env and nm not in st.env and s2.env[nm].kind != FN:
                                new_kinds.setdefault(nm, s2.env[nm].kind)
                    elif kind == "break":
                        breaks.append(("break", s2))
                    else:
                        propagate.append((kind, val, s2))
            return propagate, breaks, alloc_seen, new_kinds, k

        mark = len(self.obligations)
        propagate, breaks, alloc_seen, new_kinds, k = run(False)
        if alloc_seen:
            del self.obligations[mark:]
            propagate, breaks, alloc_seen2, new_kinds, k = run(True)
        for kind, val, s2 in propagate:
            s2.trace.append(f"{lab}-body")
            yield kind, val, s2
        # 2. normal exit
        if is_for:
            e = havoced(alloc_seen)
            for name, txt in spec.invariants.items():
                e.assume(self.spec_assume(txt, inv_env(e, n), e, self.entry_state))
            e.trace.append(f"{lab}-done")
            # loop target after the loop
            tn = self.target_names(s.target)
            self.cur_state = e
            try:
                last = view.get(n - 1)
                tmp = e.fork()
                self.bind_target(s.target, last, tmp, s)
                for nm in tn:
                    lv = tmp.env[nm]
                    if nm in st.env and st.env[nm].kind == lv.kind and lv.kind not in (FN,) and not isinstance(lv.kind, Tup):
                        e.env[nm] = V(lv.kind, z3.If(n > 0, lv.term, st.env[nm].term))
                    elif isinstance(lv.kind, Tup) or lv.kind == FN:
                        e.env[nm] = V(lv.kind, lv.term, bound=(n > 0))
                    else:
                        e.env[nm] = V(lv.kind, lv.term, bound=(n > 0))
            except Unsupported:
                for nm in tn:
                    e.env.pop(nm, None)
            for nm, kd in new_kinds.items():
                if nm not in e.env and nm not in tn:
                    fv = self.fresh_value(f"post_{nm}", kd)
                    e.env[nm] = V(fv.kind, fv.term, bound=(n > 0))
            view.consume(e)
            if self.feasible(e):
                yield "next", None, e
        for tag, b in breaks:
            if tag == "exit":
                for nm, kd in new_kinds.items():
                    if nm not in b.env:
                        fv = self.fresh_value(f"post_{nm}", kd)
                        b.env[nm] = V(fv.kind, fv.term, bound=z3.BoolVal(False))
            yield "next", None, b
