"""Symbolic state: environment, z3-level heap, path condition; obligations."""
from __future__ import annotations

import itertools
import z3

from .kinds import V, Kind, sortname


class Unsupported(Exception):
    """The unit leaves the supported subset: every obligation of the unit becomes *undecided*."""

    def __init__(self, msg, node=None):
        self.node = node
        line = getattr(node, "lineno", None)
        super().__init__(f"{msg}" + (f" (line {line})" if line else ""))


class Obligation:
    __slots__ = ("id", "unit", "kind", "label", "assumptions", "goal", "lineno", "note", "path", "draws")

    def __init__(self, unit, kind, label, assumptions, goal, lineno=None, note="", path=""):
        self.unit, self.kind, self.label = unit, kind, label
        self.assumptions, self.goal = list(assumptions), goal
        self.lineno, self.note, self.path = lineno, note, path
        self.id = f"{unit}#{kind}:{label}"
        self.draws = []

    def __repr__(self):
        return f"<Obl {self.id} @{self.lineno}>"


_counter = itertools.count()


def fresh(name: str, sort) -> z3.ExprRef:
    return z3.Const(f"{name}!{next(_counter)}", sort)


I = z3.IntSort()


class State:
    """Mutable symbolic state; fork() gives an independent copy (z3 terms are immutable, so shallow)."""

    def __init__(self):
        self.env: dict[str, V] = {}
        self.heap: dict[str, z3.ExprRef] = {}
        self.pc: list = []
        self.top = None
        self.trace: list[str] = []  # branch-condition texts (for stable path ids)
        self.draws: list = []  # effect log of oracle draws: (receiver term, lo, hi, value)
        self.calls: list = []  # ghost log of contract calls (name, args)
        self.ghost: dict = {}
        self.handlers: list[list[str]] = []  # stack of exception class lists caught by enclosing try
        self.loop_frames: list = []  # stack of (top_at_entry, allowed write descriptors)
        self.out = None  # V of the ghost yield list for generator units
        self.hbase = None  # HeapModel.base (shared): arrays still equal to their entry value do not count as changes

    def fork(self) -> "State":
        s = State.__new__(State)
        s.env = dict(self.env)
        s.heap = dict(self.heap)
        s.pc = list(self.pc)
        s.top = self.top
        s.trace = list(self.trace)
        s.draws = list(self.draws)
        s.calls = list(self.calls)
        s.ghost = dict(self.ghost)
        s.handlers = [list(h) for h in self.handlers]
        s.loop_frames = list(self.loop_frames)
        s.out = self.out
        s.hbase = self.hbase
        s.spec = getattr(self, "spec", False)
        return s

    def assume(self, c):
        if z3.is_true(c):
            return
        # skip exact duplicates (the term is pinned by the path condition, so its id stays valid)
        ids = self.ghost.get("__pcids__")
        if ids is None or ids[0] is not self.pc:
            ids = (self.pc, {x.get_id() for x in self.pc})
            self.ghost["__pcids__"] = ids
        i = c.get_id()
        if i in ids[1]:
            return
        ids[1].add(i)
        self.pc.append(c)

    def sig(self):
        hb = self.hbase or {}
        return (tuple(sorted((k, v.get_id()) for k, v in self.heap.items() if not (k in hb and hb[k].get_id() == v.get_id()))), self.top.get_id(), len(self.draws))


class HeapModel:
    """Names and sorts of the heap arrays.  One instance per executor; holds the *base* (entry) arrays so
    that lazily-touched arrays are shared between the entry heap (for old()) and the current heap."""

    def __init__(self):
        self.base: dict[str, z3.ExprRef] = {}

    def arr(self, st: State, name: str, sort_factory) -> z3.ExprRef:
        if name not in st.heap:
            if name not in self.base:
                self.base[name] = z3.Const("H0_" + name, sort_factory())
            st.heap[name] = self.base[name]
        return st.heap[name]

    # names
    @staticmethod
    def n_len():
        return "len"

    @staticmethod
    def n_el(s):
        return "el_" + sortname(s)

    @staticmethod
    def n_fld(f, s):
        return f"f_{f}_{sortname(s)}"

    @staticmethod
    def n_dom(ks):
        return "dom_" + sortname(ks)

    @staticmethod
    def n_map(ks, vs):
        return f"map_{sortname(ks)}_{sortname(vs)}"

    # typed accessors -------------------------------------------------------------------------
    def len_arr(self, st):
        return self.arr(st, "len", lambda: z3.ArraySort(I, I))

    def el_arr(self, st, s):
        return self.arr(st, self.n_el(s), lambda: z3.ArraySort(I, z3.ArraySort(I, s)))

    def fld_arr(self, st, f, s):
        return self.arr(st, self.n_fld(f, s), lambda: z3.ArraySort(I, s))

    def dom_arr(self, st, ks):
        return self.arr(st, self.n_dom(ks), lambda: z3.ArraySort(I, z3.ArraySort(ks, z3.BoolSort())))

    def map_arr(self, st, ks, vs):
        return self.arr(st, self.n_map(ks, vs), lambda: z3.ArraySort(I, z3.ArraySort(ks, vs)))

    # ghost key list of a dict (insertion order), stored at the dict's own address
    @staticmethod
    def n_dklen(s):
        return "dklen_" + sortname(s)

    def dklen_arr(self, st, s):
        return self.arr(st, self.n_dklen(s), lambda: z3.ArraySort(I, I))

    @staticmethod
    def n_dkel(s):
        return "dkel_" + sortname(s)

    def dkel_arr(self, st, s):
        return self.arr(st, self.n_dkel(s), lambda: z3.ArraySort(I, z3.ArraySort(I, s)))
