"""Kinds (static descriptors of symbolic values) and the symbolic value wrapper.

Every symbolic Python value manipulated by the executor carries a *kind*, which fixes the z3 sort of
its term.  References (lists, dicts, objects) are integers = heap addresses; address 0 is None.
"""
from __future__ import annotations

import re
import z3


class Kind:
    name = "?"

    def sort(self):
        raise NotImplementedError

    def __repr__(self):
        return self.name

    def __eq__(self, o):
        return isinstance(o, Kind) and self.name == o.name

    def __hash__(self):
        return hash(self.name)


class _Int(Kind):
    name = "int"

    def sort(self):
        return z3.IntSort()


class _Bool(Kind):
    name = "bool"

    def sort(self):
        return z3.BoolSort()


class _Real(Kind):
    name = "float"

    def sort(self):
        return z3.RealSort()


class _NoneK(Kind):
    name = "None"

    def sort(self):
        return z3.IntSort()


INT, BOOL, REAL, NONE = _Int(), _Bool(), _Real(), _NoneK()

_opaque_sorts: dict[str, z3.SortRef] = {}


class Opaque(Kind):
    """A value of an uninterpreted sort (generic element, type object, string id ...)."""

    def __init__(self, sname: str):
        self.sname = sname
        self.name = sname

    def sort(self):
        if self.sname not in _opaque_sorts:
            _opaque_sorts[self.sname] = z3.DeclareSort(self.sname)
        return _opaque_sorts[self.sname]


class Ref(Kind):
    """Heap reference.  target is one of ListT(elem), DictT(k, v), ObjT(cls), IterT(elem)."""

    optional = False

    def __init__(self, target, optional=False):
        self.target = target
        self.name = target.name
        self.optional = optional

    def sort(self):
        return z3.IntSort()


class ListT:
    def __init__(self, elem: Kind, oneshot_possible: bool = False):
        self.elem = elem
        self.oneshot_possible = oneshot_possible
        self.name = ("iter[" if oneshot_possible else "list[") + (elem.name if elem is not None else "?") + "]"


class DictT:
    def __init__(self, k: Kind, v: Kind):
        self.k, self.v = k, v
        self.name = f"dict[{k.name},{v.name}]"


class ObjT:
    def __init__(self, cls: str):
        self.cls = cls
        self.name = cls


_tuple_sorts: dict[str, tuple] = {}


class Tup(Kind):
    def __init__(self, items: list[Kind]):
        self.items = list(items)
        self.name = "tuple[" + ",".join(i.name for i in items) + "]"

    def sort(self):
        key = self.name
        if key not in _tuple_sorts:
            sname = "T_" + re.sub(r"[^A-Za-z0-9]", "_", key)
            s, mk, accs = z3.TupleSort(sname, [i.sort() for i in self.items])
            _tuple_sorts[key] = (s, mk, accs)
        return _tuple_sorts[key][0]

    def mk(self):
        self.sort()
        return _tuple_sorts[self.name][1]

    def accs(self):
        self.sort()
        return _tuple_sorts[self.name][2]


class Fn(Kind):
    name = "fn"

    def sort(self):
        raise TypeError("function values have no sort")


FN = Fn()


class V:
    """Symbolic value: kind + z3 term (python tuple of V for Tup, python object for Fn, None for NONE)."""

    __slots__ = ("kind", "term", "bound")

    def __init__(self, kind: Kind, term, bound=None):
        self.kind = kind
        self.term = term
        self.bound = bound  # z3 Bool: variable is bound only under this condition (None = always)

    def __repr__(self):
        return f"V({self.kind},{self.term})"


def is_ref(k: Kind) -> bool:
    return isinstance(k, Ref)


def is_list(k: Kind) -> bool:
    return isinstance(k, Ref) and isinstance(k.target, ListT)


def is_dict(k: Kind) -> bool:
    return isinstance(k, Ref) and isinstance(k.target, DictT)


def is_obj(k: Kind) -> bool:
    return isinstance(k, Ref) and isinstance(k.target, ObjT)


def sortname(s: z3.SortRef) -> str:
    return re.sub(r"[^A-Za-z0-9]", "_", str(s))


# ------------------------------------------------------------------------------------------------
# parsing of kind strings used in specs:  int, float, bool, list[int], dict[Str,list[int]],
# tuple[int,bool], iter[Ind], ClassName, ~Name (opaque sort)

_PRIMS = {"int": INT, "float": REAL, "bool": BOOL, "None": NONE, "real": REAL}


def _split_top(s: str) -> list[str]:
    out, depth, cur = [], 0, ""
    for ch in s:
        if ch == "[":
            depth += 1
        elif ch == "]":
            depth -= 1
        if ch == "," and depth == 0:
            out.append(cur.strip())
            cur = ""
        else:
            cur += ch
    if cur.strip():
        out.append(cur.strip())
    return out


def parse_kind(s: str, opaque_names: set[str] | None = None) -> Kind:
    s = s.strip()
    if s.endswith("?"):
        k = parse_kind(s[:-1], opaque_names)
        if isinstance(k, Ref):
            k.optional = True
        return k
    if s in _PRIMS:
        return _PRIMS[s]
    if s.startswith("~"):
        if opaque_names is not None:
            opaque_names.add(s[1:])
        return Opaque(s[1:])
    m = re.match(r"^(\w+)\[(.*)\]$", s)
    if m:
        head, inner = m.group(1), m.group(2)
        parts = _split_top(inner)
        if head == "list":
            return Ref(ListT(parse_kind(parts[0], opaque_names)))
        if head == "iter":
            return Ref(ListT(parse_kind(parts[0], opaque_names), oneshot_possible=True))
        if head == "dict":
            return Ref(DictT(parse_kind(parts[0], opaque_names), parse_kind(parts[1], opaque_names)))
        if head == "tuple":
            return Tup([parse_kind(p, opaque_names) for p in parts])
        raise ValueError(f"unknown kind head {head}")
    if opaque_names and s in opaque_names:
        return Opaque(s)
    return Ref(ObjT(s))
