"""Calls: builtins, contracts (modular), inlining, constructors, list/dict methods, spec functions."""
from __future__ import annotations

import ast
import z3

from . import ops
from .kinds import V, INT, BOOL, REAL, NONE, FN, Opaque, Ref, Tup, ListT, DictT, ObjT, Kind, parse_kind, is_list, is_dict, is_obj
from .state import State, Unsupported, fresh, I
from .engine_expr import FuncRef


class View:
    """Lazy iteration space: n items, get(k) -> V."""

    def __init__(self, n, get, consume=None, src=None):
        self.n, self.get = n, get
        self._consume = consume
        self.src = src

    def consume(self, st):
        if self._consume:
            self._consume(st)


SPEC_FUNCS: dict = {}


def specfunc(name):
    def deco(f):
        SPEC_FUNCS[name] = f
        return f

    return deco


class CallMixin:
    # ------------------------------------------------------------------ iteration views
    def iter_view(self, v: V, st: State, node=None) -> View:
        if v.kind == FN and v.term.tag == "view":
            return v.term.view
        if is_list(v.kind):
            n = self.iter_len(st, v)
            if v.kind.target.elem is None:
                return View(z3.IntVal(0), lambda k: V(NONE, None), src=v)
            snap = st  # elements are read at the time of get() from the state passed by the loop

            def get(k, v=v):
                return self.lget(self.cur_state, v, k)

            return View(n, get, consume=lambda s, v=v: self.mark_consumed(s, v), src=v)
        if is_dict(v.kind):
            kl = self.dkeys(st, v)
            return self.iter_view(kl, st, node)
        if isinstance(v.kind, Tup):
            items = v.term
            if not items:
                return View(z3.IntVal(0), lambda k: V(NONE, None))

            def get(k, items=items):
                ks = z3.simplify(k)
                if z3.is_int_value(ks):
                    return items[ks.as_long()]
                k0 = items[0].kind
                for it in items[1:]:
                    k0 = self.join_kind(k0, it.kind)
                t = self.to_term(items[-1], k0)
                for i in range(len(items) - 2, -1, -1):
                    t = z3.If(k == i, self.to_term(items[i], k0), t)
                return self.from_term(k0, t)

            return View(z3.IntVal(len(items)), get)
        raise Unsupported(f"iteration over {v.kind}", node)

    def mk_view(self, view: View) -> V:
        return V(FN, FuncRef("view", view=view))

    def view_to_list(self, view: View, st: State, oneshot=False) -> V:
        ns = z3.simplify(view.n)
        if z3.is_int_value(ns) and ns.as_long() <= 8:
            self.cur_state = st
            vals = [view.get(z3.IntVal(i)) for i in range(ns.as_long())]
            view.consume(st)
            return self.list_from_values(st, vals) if vals else self.new_list(st, None)
        k = z3.Int("vl_k")
        self.cur_state = st
        sample = view.get(k)
        if sample.kind in (NONE, FN):
            raise Unsupported("cannot materialise view")
        arr = z3.Lambda([k], self.to_term(sample, sample.kind))
        res = self.new_list(st, sample.kind, view.n, arr, oneshot=oneshot)
        view.consume(st)
        return res

    # ------------------------------------------------------------------ call dispatch
    def ev_Call(self, e, st):
        if any(isinstance(a, ast.Starred) for a in e.args) or any(k.arg is None for k in e.keywords):
            yield from self.ev_call_starred(e, st)
            return
        # spec-only forms are handled before argument evaluation
        if isinstance(e.func, ast.Name) and getattr(st, "spec", False) and e.func.id in ("old", "forall", "exists"):
            yield self.spec_form(e, st), st
            return
        if isinstance(e.func, ast.Name) and getattr(st, "spec", False) and e.func.id in ("implies", "iff", "ite") and e.func.id not in st.env:
            p = st.ghost.get("__pol__", 0)
            try:
                if e.func.id == "implies":
                    st.ghost["__pol__"] = -p
                    a = self.ev1(e.args[0], st)
                    st.ghost["__pol__"] = p
                    b = self.ev1(e.args[1], st)
                    yield V(BOOL, z3.Implies(self.truth(a, st), self.truth(b, st))), st
                else:
                    st.ghost["__pol__"] = 0
                    args = [self.ev1(x, st) for x in e.args]
                    yield getattr(self, "bi_" + e.func.id)(args, {}, st, e), st
            finally:
                st.ghost["__pol__"] = p
            return
        if isinstance(e.func, ast.Name) and e.func.id == "super":
            raise Unsupported("bare super()", e)
        # super().__init__(...)
        if isinstance(e.func, ast.Attribute) and isinstance(e.func.value, ast.Call) and isinstance(e.func.value.func, ast.Name) and e.func.value.func.id == "super":
            for args, s in self.ev_list(list(e.args), st):
                for kw, s2 in self.ev_kwargs(e.keywords, s):
                    yield from self.call_super(e.func.attr, args, kw, s2, e)
            return
        for f, s in self.ev(e.func, st):
            for args, s2 in self.ev_list(list(e.args), s):
                for kw, s3 in self.ev_kwargs(e.keywords, s2):
                    yield from self.call_value(f, args, kw, s3, e)

    def ev_call_starred(self, e, st):
        # f(*args) where args is an executor-level tuple / **kwargs with empty or known dict only
        for f, s in self.ev(e.func, st):
            pos = []
            states = [(pos, s)]
            for a in e.args:
                new = []
                for p, sx in states:
                    if isinstance(a, ast.Starred):
                        for v, sy in self.ev(a.value, sx):
                            if not isinstance(v.kind, Tup):
                                raise Unsupported("*args of non-tuple", e)
                            new.append((p + list(v.term), sy))
                    else:
                        for v, sy in self.ev(a, sx):
                            new.append((p + [v], sy))
                states = new
            for p, sx in states:
                kws = [k for k in e.keywords if k.arg is not None]
                stars = [k for k in e.keywords if k.arg is None]
                for k in stars:
                    if not (isinstance(k.value, ast.Name) and sx.env.get(k.value.id) is not None and sx.env[k.value.id].kind == FN and sx.env[k.value.id].term.tag == "kwargs"):
                        raise Unsupported("**kwargs", e)
                for kw, sy in self.ev_kwargs(kws, sx):
                    for k in stars:
                        kw.update(sx.env[k.value.id].term.items)
                    yield from self.call_value(f, p, kw, sy, e)

    def ev_kwargs(self, keywords, st):
        if not keywords:
            yield {}, st
            return
        for vals, s in self.ev_list([k.value for k in keywords], st):
            yield {k.arg: v for k, v in zip(keywords, vals)}, s

    def call_value(self, f: V, args, kw, st: State, node):
        if f.kind != FN:
            c = self.method_contract(f, "__call__")
            if c is not None:
                yield from self.apply_contract(c, [f] + args, kw, st, node)
                return
            raise Unsupported(f"call of non-function {f.kind}", node)
        r = f.term
        tag = r.tag
        if tag == "builtin":
            yield from self.call_builtin(r.name, args, kw, st, node)
        elif tag == "contract":
            yield from self.call_contract_or_inline(r.c, args, kw, st, node)
        elif tag == "modfunc":
            yield from self.call_module_function(r.name, args, kw, st, node)
        elif tag == "modattr":
            yield from self.call_external(f"{r.mod}.{r.name}", args, kw, st, node)
        elif tag == "class":
            yield from self.construct(r.cls, args, kw, st, node)
        elif tag == "classattr":
            c = self.reg.lookup_method(r.cls, r.name)
            if c is None:
                raise Unsupported(f"{r.cls}.{r.name}", node)
            yield from self.call_contract_or_inline(c, args, kw, st, node)
        elif tag == "bound":
            yield from self.call_method(r.obj, r.name, args, kw, st, node)
        elif tag in ("local", "lambda"):
            yield from self.call_closure(r, args, kw, st, node)
        elif tag == "exc":
            yield V(FN, FuncRef("excinst", cls=r.cls)), st
        elif tag == "specfn":
            yield r.fn(self, st, *args), st
        else:
            raise Unsupported(f"call of {tag}", node)

    # ------------------------------------------------------------------ methods
    def method_contract(self, obj: V, name: str):
        if is_obj(obj.kind):
            return self.reg.lookup_method(obj.kind.target.cls, name)
        if isinstance(obj.kind, Opaque):
            return self.reg.lookup_method(obj.kind.sname, name)
        return None

    def call_method(self, obj: V, name: str, args, kw, st, node):
        if is_list(obj.kind):
            yield from self.list_method(obj, name, args, kw, st, node)
            return
        if is_dict(obj.kind):
            yield from self.dict_method(obj, name, args, kw, st, node)
            return
        if is_obj(obj.kind) and name == "map" and obj.kind.target.cls in self.reg.maplike:
            yield from self.pool_map(args, kw, st, node)
            return
        c = self.method_contract(obj, name)
        if c is not None:
            if is_obj(obj.kind):
                self.oblige(st, "safe", f"notnone:{name}", obj.term != 0, node, exc="AttributeError")
            yield from self.call_contract_or_inline(c, [obj] + args, kw, st, node)
            return
        if is_obj(obj.kind):
            fd = self.find_method_def(obj.kind.target.cls, name)
            if fd is not None:
                yield from self.inline_call(fd[1], fd[0], [obj] + args, kw, st, node)
                return
        raise Unsupported(f"method {name} of {obj.kind} has no contract", node)

    def pool_map(self, args, kw, st, node):
        """pool.map(f, xs): assumed to be [f(x) for x in xs] -- in order, f applied once per element.  Executed
        as a loop whose invariant the unit's contract supplies under the key 'map<n>'."""
        self.note_assumption("pool.map(f, xs) == [f(x) for x in xs]: order-preserving, f applied exactly once per element (assumed contract of pathos ProcessingPool.map)")
        self.externals_used.add("pathos.ProcessingPool.map")
        n = self.map_counter = getattr(self, "map_counter", -1) + 1
        cc = self.reg.contracts.get(self.cur_qual)
        spec = cc.loops.get(f"map{n}") if cc is not None else None
        if spec is None:
            raise Unsupported(f"pool.map #{n} in {self.cur_qual} has no invariant (loops['map{n}'])", node)
        tree = ast.parse("for __x in __xs:\n    __res.append(__f(__x))").body[0]
        ast.fix_missing_locations(tree)
        self._synthetic_keep.append(tree)
        self.synthetic_loops[id(tree)] = (f"map{n}", spec)
        st.env["__f"], st.env["__xs"] = args[0], args[1]
        st.env["__res"] = self.new_list(st, None)
        if cc is not None and "__res" in cc.locals:
            st.env["__res"] = self.coerce_arg(st.env["__res"], parse_kind(cc.locals["__res"], self.reg.opaque), st, "pool.map result")
        outs = list(self.st_For(tree, st))
        for kind, val, s in outs:
            if kind != "next":
                raise Unsupported("non-local exit from pool.map", node)
            r = s.env.pop("__res")
            for nm in ("__f", "__xs", "__x"):
                s.env.pop(nm, None)
            yield r, s

    def list_method(self, lst: V, name, args, kw, st, node):
        if name == "append":
            self.lappend(st, lst, args[0], node)
            yield V(NONE, None), st
        elif name == "extend":
            view = self.iter_view(args[0], st, node)
            self.extend_list(st, lst, view, node)
            yield V(NONE, None), st
        elif name == "copy":
            n = self.llen(st, lst)
            if lst.kind.target.elem is None:
                yield self.new_list(st, None), st
            else:
                yield self.new_list(st, self.elem_kind(lst), n, self.larr(st, lst)), st
        elif name == "pop":
            n = self.llen(st, lst)
            self.oblige(st, "safe", "pop-nonempty", n > 0, node, exc="IndexError")
            if lst.kind.target.elem is None:
                raise Unsupported("pop from list of unknown kind", node)
            ek = self.elem_kind(lst)
            arr = self.larr(st, lst)
            if not args:
                v = self.lget(st, lst, n - 1)
                self.lset_all(st, lst, n - 1, arr, node)
                yield v, st
            else:
                i = self.norm_index(st, lst, args[0], node)
                v = self.lget(st, lst, i)
                j = z3.Int("pop_j")
                narr = z3.Lambda([j], z3.If(j < i, arr[j], arr[j + 1]))
                self.lset_all(st, lst, n - 1, narr, node)
                yield v, st
        elif name == "remove":
            n = self.llen(st, lst)
            ek = self.elem_kind(lst)
            arr = self.larr(st, lst)
            xt = self.to_term(args[0], ek)
            p = fresh("rm_pos", I)
            jj = z3.Int("rm_j")
            present = z3.Exists([jj], z3.And(0 <= jj, jj < n, arr[jj] == xt))
            self.oblige(st, "safe", "remove-present", present, node, exc="ValueError")
            st.assume(z3.And(0 <= p, p < n, arr[p] == xt, z3.ForAll([jj], z3.Implies(z3.And(0 <= jj, jj < p), arr[jj] != xt))))
            narr = z3.Lambda([jj], z3.If(jj < p, arr[jj], arr[jj + 1]))
            self.lset_all(st, lst, n - 1, narr, node)
            st.ghost["last_remove_pos"] = p
            yield V(NONE, None), st
        elif name == "insert":
            n = self.llen(st, lst)
            ek = self.resolve_elem(lst, args[1], st)
            arr = self.larr(st, lst)
            it = ops.to_int_term(args[0])
            i = z3.If(it < 0, z3.If(it + n < 0, 0, it + n), z3.If(it > n, n, it))
            jj = z3.Int("ins_j")
            narr = z3.Lambda([jj], z3.If(jj < i, arr[jj], z3.If(jj == i, self.to_term(args[1], ek), arr[jj - 1])))
            self.lset_all(st, lst, n + 1, narr, node)
            yield V(NONE, None), st
        elif name == "clear":
            ek = lst.kind.target.elem
            if ek is not None:
                self.lset_all(st, lst, z3.IntVal(0), self.larr(st, lst), node)
            yield V(NONE, None), st
        elif name == "index":
            n = self.llen(st, lst)
            ek = self.elem_kind(lst)
            arr = self.larr(st, lst)
            xt = self.to_term(args[0], ek)
            p = fresh("idx_pos", I)
            jj = z3.Int("ix_j")
            self.oblige(st, "safe", "index-present", z3.Exists([jj], z3.And(0 <= jj, jj < n, arr[jj] == xt)), node, exc="ValueError")
            st.assume(z3.And(0 <= p, p < n, arr[p] == xt, z3.ForAll([jj], z3.Implies(z3.And(0 <= jj, jj < p), arr[jj] != xt))))
            yield V(INT, p), st
        else:
            raise Unsupported(f"list.{name}", node)

    def extend_list(self, st, lst: V, view: View, node=None):
        self.cur_state = st
        m = view.n
        n = self.llen(st, lst)
        k = z3.Int("ext_k")
        sample = view.get(k)
        if sample.kind in (NONE,):
            # empty source of unknown kind: nothing to add (n items == 0)
            view.consume(st)
            return
        ek = self.resolve_elem(lst, sample, st)
        arr = self.larr(st, lst)
        sterm = self.to_term(sample, ek)
        narr = z3.Lambda([k], z3.If(k < n, arr[k], z3.substitute(sterm, (k, k - n))))
        self.lset_all(st, lst, n + m, narr, node)
        view.consume(st)

    def dict_method(self, d: V, name, args, kw, st, node):
        if name == "keys":
            if d.kind.target.k is None:
                yield self.new_list(st, None), st
            else:
                yield self.dkeys(st, d), st
        elif name == "get":
            if d.kind.target.k is None:
                yield (args[1] if len(args) > 1 else V(NONE, None)), st
                return
            has = self.dhas(st, d, args[0])
            dflt = args[1] if len(args) > 1 else V(NONE, None)
            s1, s2 = st.fork(), st.fork()
            s1.assume(has)
            s2.assume(z3.Not(has))
            v1 = self.dget(s1, d, args[0])
            merged = self.try_merge(st, [(has, [(v1, s1)]), (z3.Not(has), [(dflt, s2)])])
            if merged is not None:
                yield merged, st
            else:
                s1.trace.append("get-hit")
                s2.trace.append("get-miss")
                if self.feasible(s1):
                    yield v1, s1
                if self.feasible(s2):
                    yield dflt, s2
        elif name == "items":
            kl = self.dkeys(st, d)
            n = self.llen(st, kl)

            def get(k, kl=kl, d=d):
                s = self.cur_state
                key = self.lget(s, kl, k)
                val = self.dget(s, d, key)
                return V(Tup([key.kind, val.kind]), (key, val))

            yield self.mk_view(View(n, get)), st
        elif name == "values":
            kl = self.dkeys(st, d)
            n = self.llen(st, kl)

            def get(k, kl=kl, d=d):
                s = self.cur_state
                return self.dget(s, d, self.lget(s, kl, k))

            yield self.mk_view(View(n, get)), st
        else:
            raise Unsupported(f"dict.{name}", node)

    # ------------------------------------------------------------------ builtins
    def call_builtin(self, name, args, kw, st, node):
        if name in SPEC_FUNCS:
            yield SPEC_FUNCS[name](self, st, *args), st
            return
        m = getattr(self, "bi_" + name, None)
        if m is None:
            c = self.reg.contracts.get(name)
            if c is not None:
                yield from self.call_contract_or_inline(c, args, kw, st, node)
                return
            raise Unsupported(f"unknown function {name}", node)
        r = m(args, kw, st, node)
        if hasattr(r, "__next__"):
            yield from r
        else:
            yield r, st

    def bi_len(self, args, kw, st, node):
        v = args[0]
        if is_list(v.kind):
            return V(INT, self.llen(st, v))
        if is_dict(v.kind):
            if v.kind.target.k is None:
                return V(INT, z3.IntVal(0))
            return V(INT, self.llen(st, self.dkeys(st, v)))
        if isinstance(v.kind, Tup):
            return V(INT, z3.IntVal(len(v.term)))
        if v.kind == FN and v.term.tag == "view":
            return V(INT, v.term.view.n)
        c = self.method_contract(v, "__len__")
        if c is not None:
            outs = list(self.apply_contract(c, [v], {}, st, node))
            return outs[0][0]
        raise Unsupported(f"len of {v.kind}", node)

    def bi_range(self, args, kw, st, node):
        a = [ops.to_int_term(x) for x in args]
        if len(a) == 1:
            lo, hi = z3.IntVal(0), a[0]
        elif len(a) == 2:
            lo, hi = a
        else:
            raise Unsupported("range with step", node)
        n = z3.If(hi - lo > 0, hi - lo, z3.IntVal(0))
        v = self.mk_view(View(n, lambda k, lo=lo: V(INT, lo + k)))
        v.term.range = (lo, hi)
        return v

    def bi_reversed(self, args, kw, st, node):
        view = self.iter_view(args[0], st, node)
        return self.mk_view(View(view.n, lambda k, view=view: view.get(view.n - 1 - k), consume=view._consume))

    def bi_enumerate(self, args, kw, st, node):
        view = self.iter_view(args[0], st, node)

        def get(k, view=view):
            x = view.get(k)
            return V(Tup([INT, x.kind]), (V(INT, k), x))

        return self.mk_view(View(view.n, get, consume=view._consume))

    def bi_zip(self, args, kw, st, node):
        views = [self.iter_view(a, st, node) for a in args]
        n = views[0].n
        for w in views[1:]:
            n = z3.If(w.n < n, w.n, n)

        def get(k, views=views):
            xs = [w.get(k) for w in views]
            return V(Tup([x.kind for x in xs]), tuple(xs))

        def consume(s, views=views):
            for w in views:
                w.consume(s)

        return self.mk_view(View(n, get, consume=consume))

    def bi_list(self, args, kw, st, node):
        if not args:
            return self.new_list(st, None)
        v = args[0]
        if is_list(v.kind) and v.kind.target.elem is None:
            return self.new_list(st, None)
        view = self.iter_view(v, st, node)
        return self.view_to_list(view, st)

    def bi_iter(self, args, kw, st, node):
        v = args[0]
        view = self.iter_view(v, st, node)
        res = self.view_to_list(view, st, oneshot=True)
        res = V(Ref(ListT(res.kind.target.elem, True)), res.term)
        self.set_ghost_flag(st, res.term, "oneshot", z3.BoolVal(True))
        self.set_ghost_flag(st, res.term, "consumed", z3.BoolVal(False))
        st.heap[self.H.n_fld("itercursor", I)] = z3.Store(self.H.fld_arr(st, "itercursor", I), res.term, z3.IntVal(0))
        return res

    def bi_next(self, args, kw, st, node):
        """next(it[, default]) on an iterator created by iter(): reads the item at the iterator's cursor and
        advances it.  The cursor is a field of the iterator object, so loops that advance it must declare it."""
        it = args[0]
        if not (is_list(it.kind) and it.kind.target.oneshot_possible):
            raise Unsupported("next() on something that is not an iterator created by iter()", node)
        pos_arr = self.H.fld_arr(st, "itercursor", I)
        pos = self.sel(st, pos_arr, it.term)
        n = self.llen(st, it)
        self.check_frame(st, "field:itercursor", it.term, node)
        has = z3.And(pos >= 0, pos < n)
        if len(args) < 2:
            self.oblige(st, "safe", "next-not-exhausted", has, node, exc="StopIteration")
            val = self.lget(st, it, pos)
            st.heap[self.H.n_fld("itercursor", I)] = z3.Store(pos_arr, it.term, pos + 1)
            return val
        s1, s2 = st.fork(), st.fork()
        s1.assume(has)
        s2.assume(z3.Not(has))
        v1 = self.lget(s1, it, pos)
        s1.heap[self.H.n_fld("itercursor", I)] = z3.Store(self.H.fld_arr(s1, "itercursor", I), it.term, pos + 1)
        s1.trace.append("next-item")
        s2.trace.append("next-default")
        def gen():
            if self.feasible(s1):
                yield v1, s1
            if self.feasible(s2):
                yield args[1], s2
        return gen()

    def bi_tuple(self, args, kw, st, node):
        if not args:
            return V(Tup([]), ())
        v = args[0]
        if isinstance(v.kind, Tup):
            return v
        view = self.iter_view(v, st, node)
        ns = z3.simplify(view.n)
        if not z3.is_int_value(ns):
            # tuple of symbolic length: an immutable sequence object (a list cell flagged as a tuple)
            res = self.view_to_list(view, st)
            lt = ListT(res.kind.target.elem)
            lt.is_tuple = True
            return V(Ref(lt), res.term)
        if z3.is_int_value(ns):
            self.cur_state = st
            vals = [view.get(z3.IntVal(i)) for i in range(ns.as_long())]
            view.consume(st)
            return V(Tup([x.kind for x in vals]), tuple(vals))
        raise Unsupported("tuple() of symbolic length", node)

    def bi_dict(self, args, kw, st, node):
        if args or kw:
            raise Unsupported("dict(...) with arguments", node)
        return self.new_dict(st, None, None)

    def bi_int(self, args, kw, st, node):
        v = args[0]
        if v.kind == REAL:
            return V(INT, ops.real_trunc(v.term))
        return V(INT, ops.to_int_term(v))

    def bi_float(self, args, kw, st, node):
        return V(REAL, ops.to_real_term(args[0]))

    def bi_bool(self, args, kw, st, node):
        return V(BOOL, self.truth(args[0], st))

    def bi_abs(self, args, kw, st, node):
        v = args[0]
        t = v.term if v.kind == REAL else ops.to_int_term(v)
        return V(REAL if v.kind == REAL else INT, z3.If(t >= 0, t, -t))

    def bi_round(self, args, kw, st, node):
        v = args[0]
        if len(args) > 1:
            nd = args[1]
            if not (z3.is_int_value(nd.term) and nd.term.as_long() == 0):
                raise Unsupported("round with ndigits != 0", node)
            if v.kind == REAL:
                return V(REAL, z3.ToReal(ops.real_round_half_even(v.term)))
            return V(INT, ops.to_int_term(v))
        if v.kind == REAL:
            return V(INT, ops.real_round_half_even(v.term))
        return V(INT, ops.to_int_term(v))

    def bi_pow(self, args, kw, st, node):
        return self.pow(args[0], args[1], st, node)

    def _minmax(self, args, kw, st, node, is_max):
        if "key" in kw and len(args) == 1:
            # max(xs, key=f): assumed contract -- the first element whose key bounds all keys
            self.externals_used.add("max/min with key")
            src = args[0]
            if not is_list(src.kind):
                src = self.view_to_list(self.iter_view(src, st, node), st)
            ek = self.elem_kind(src)
            n = self.llen(st, src)
            self.oblige(st, "safe", "max-nonempty", n > 0, node, exc="ValueError")
            A = self.larr(st, src)
            p = fresh("argmax", I)
            i = z3.Int("mx_i")
            st.assume(z3.And(0 <= p, p < n))
            res = self.from_term(ek, A[p])
            self.assume_wf(st, res)
            ki = self.key_term(kw["key"], self.from_term(ek, A[i]), st, node, z3.And(0 <= i, i < n), i)
            kp = V(ki.kind, z3.substitute(ki.term, (i, p)))
            _, tp, ti = ops.num_join(kp, ki)
            st.assume(z3.ForAll([i], z3.Implies(z3.And(0 <= i, i < n), (tp >= ti) if is_max else (tp <= ti))))
            cnt = self.max_counter = getattr(self, "max_counter", -1) + 1
            st.env[f"MAXARG{cnt}"] = V(INT, p)
            return res
        if len(args) == 1 and "key" not in kw:
            # max(xs) / min(xs) over a sequence of numbers: assumed contract -- bounds every element, attained
            self.externals_used.add("max/min over a sequence")
            src = args[0]
            if not is_list(src.kind):
                src = self.view_to_list(self.iter_view(src, st, node), st)
            ek = self.elem_kind(src)
            if ek not in (INT, REAL):
                raise Unsupported("min/max over non-numeric sequence", node)
            n = self.llen(st, src)
            self.oblige(st, "safe", "minmax-nonempty", n > 0, node, exc="ValueError")
            A = self.larr(st, src)
            p = fresh("argext", I)
            i = z3.Int("mm_i")
            m = A[p]
            st.assume(z3.And(0 <= p, p < n))
            st.assume(z3.ForAll([i], z3.Implies(z3.And(0 <= i, i < n), (m >= A[i]) if is_max else (m <= A[i]))))
            cnt = self.mm_counter = getattr(self, "mm_counter", -1) + 1
            st.env[f"EXTARG{cnt}"] = V(INT, p)
            st.env[f"EXTSEQ{cnt}"] = src
            return V(ek, m)
        if "key" in kw or len(args) == 1:
            c = self.reg.contracts.get("max" if is_max else "min")
            if c is None:
                raise Unsupported("min/max over iterable needs an external contract", node)
            a = list(args)
            if len(a) == 1 and not is_list(a[0].kind):
                a = [self.view_to_list(self.iter_view(a[0], st, node), st)]
            return self.apply_contract(c, a, kw, st, node)
        acc = args[0]
        for x in args[1:]:
            k, ta, tb = ops.num_join(acc, x)
            acc = V(k, z3.If((tb > ta) if is_max else (tb < ta), tb, ta))
        return acc

    def bi_max(self, args, kw, st, node):
        return self._minmax(args, kw, st, node, True)

    def bi_min(self, args, kw, st, node):
        return self._minmax(args, kw, st, node, False)

    def bi_isinstance(self, args, kw, st, node):
        v, c = args
        if isinstance(v.kind, Opaque) and v.kind.sname == "Val" and c.kind == FN and c.term.tag in ("class", "builtin"):
            nm = c.term.cls if c.term.tag == "class" else c.term.name
            return V(BOOL, z3.Function("val_isinstance_" + nm, v.kind.sort(), z3.BoolSort())(v.term))
        if c.kind == FN and c.term.tag == "class":
            cls = c.term.cls
            if is_obj(v.kind):
                if self.reg.is_subclass(v.kind.target.cls, cls):
                    return V(BOOL, v.term != 0)
                for a_, b_ in self.reg.disjoint:
                    for x_, y_ in ((a_, b_), (b_, a_)):
                        if self.reg.is_subclass(v.kind.target.cls, x_) and self.reg.is_subclass(cls, y_):
                            return V(BOOL, z3.BoolVal(False))
                dyn = z3.Function(f"isinst_{cls}", I, z3.BoolSort())
                return V(BOOL, dyn(v.term))
            if cls == "list" or cls == "GengyList":
                return V(BOOL, z3.BoolVal(is_list(v.kind)))
            return V(BOOL, z3.BoolVal(False))
        if c.kind == FN and c.term.tag == "builtin":
            nm = c.term.name
            table = {"int": (INT, BOOL), "bool": (BOOL,), "float": (REAL,)}
            if nm in table:
                return V(BOOL, z3.BoolVal(v.kind in table[nm]))
            if nm == "list":
                return V(BOOL, z3.BoolVal(is_list(v.kind)))
            if nm == "dict":
                return V(BOOL, z3.BoolVal(is_dict(v.kind)))
            if nm == "tuple":
                return V(BOOL, z3.BoolVal(isinstance(v.kind, Tup)))
        raise Unsupported("isinstance form", node)

    def bi_print(self, args, kw, st, node):
        return V(NONE, None)

    def bi_str(self, args, kw, st, node):
        return V(ops.STR, fresh("str", ops.STR.sort()))

    def bi_id(self, args, kw, st, node):
        return V(INT, fresh("id", I))

    def bi_sum(self, args, kw, st, node):
        c = self.reg.contracts.get("sum")
        if c is None:
            raise Unsupported("sum needs an external contract", node)
        a = list(args)
        if not is_list(a[0].kind):
            a[0] = self.view_to_list(self.iter_view(a[0], st, node), st)
        n = self.sum_counter = getattr(self, "sum_counter", -1) + 1
        st.env[f"SUMARG{n}"] = a[0]  # ghost handle on the summed sequence (for post_lemmas)
        if a[0].kind.target.elem == INT:
            c = self.reg.contracts.get("sum_int", c)
        return self.apply_contract(c, a, kw, st, node)

    def key_term(self, keyfn: V, elem: V, st, node, guard=None, bound=None):
        """Value of key(elem) as a pure term (the key function must not change the heap).  Evaluated on a
        fork under `guard` (the element's index is in range), so obligations raised inside the key function
        are obligations for every element.  Results of contract calls made by the key function are lifted to
        functions of the bound index `bound`, and what their contracts promise is assumed for every index."""
        s2 = st.fork()
        if guard is not None:
            s2.assume(guard)
        base = len(s2.pc)
        sig = s2.sig()
        self.comp_oracle_stack.append([])
        try:
            outs = list(self.call_value(keyfn, [elem], {}, s2, node))
        finally:
            consts = self.comp_oracle_stack.pop()
        if len(outs) != 1 or outs[0][1].sig() != sig:
            raise Unsupported("key function is not a pure, non-forking expression", node)
        val, s3 = outs[0]
        facts = list(s3.pc[base:])
        if val.kind not in (INT, REAL, BOOL):
            raise Unsupported("non-numeric sort key", node)
        t = val.term
        if bound is None:
            for f in facts:
                st.assume(z3.Implies(guard, f) if guard is not None else f)
            return val
        subst = []
        for c in consts:
            arr = fresh("keyres", z3.ArraySort(I, c.sort()))
            subst.append((c, arr[bound]))
        if subst:
            t = z3.substitute(t, *subst)
            facts = [z3.substitute(f, *subst) for f in facts]
        for f in facts:
            st.assume(z3.ForAll([bound], z3.Implies(guard, f) if guard is not None else f))
        return V(val.kind, t)

    def bi_sorted(self, args, kw, st, node):
        """sorted(xs, key=f, reverse=b): assumed contract -- a fresh list that is a permutation of xs (explicit
        permutation and inverse arrays, exposed to specs as SORTPERM<n> / SORTINV<n>) ordered by the key."""
        self.externals_used.add("sorted")
        src = args[0]
        if not is_list(src.kind):
            src = self.view_to_list(self.iter_view(src, st, node), st)
        keyfn = kw.get("key")
        rev = kw.get("reverse")
        reverse = False
        if rev is not None:
            rs = z3.simplify(rev.term)
            if not (z3.is_true(rs) or z3.is_false(rs)):
                raise Unsupported("sorted with symbolic reverse", node)
            reverse = z3.is_true(rs)
        ek = self.elem_kind(src)
        n = self.llen(st, src)
        A = self.larr(st, src)
        Rr = fresh("sorted", z3.ArraySort(I, ek.sort()))
        res = self.new_list(st, ek, n, Rr)
        P = self.new_list(st, INT, n, fresh("sperm", z3.ArraySort(I, I)))
        Q = self.new_list(st, INT, n, fresh("sinv", z3.ArraySort(I, I)))
        Pa, Qa = self.larr(st, P), self.larr(st, Q)
        i, j = z3.Ints("so_i so_j")
        rng = lambda v: z3.And(0 <= v, v < n)
        st.assume(z3.ForAll([i], z3.Implies(rng(i), z3.And(rng(Pa[i]), Rr[i] == A[Pa[i]], Qa[Pa[i]] == i))))
        st.assume(z3.ForAll([i], z3.Implies(rng(i), z3.And(rng(Qa[i]), Pa[Qa[i]] == i, Rr[Qa[i]] == A[i]))))
        if keyfn is not None:
            ki = self.key_term(keyfn, self.from_term(ek, Rr[i]), st, node, rng(i), i)
            kj = V(ki.kind, z3.substitute(ki.term, (i, j)))
            _, ti, tj = ops.num_join(ki, kj)
        else:
            ti, tj = Rr[i], Rr[j]
        order = (ti >= tj) if reverse else (ti <= tj)
        st.assume(z3.ForAll([i, j], z3.Implies(z3.And(0 <= i, i < j, j < n), order)))
        cnt = self.sort_counter = getattr(self, "sort_counter", -1) + 1
        st.env[f"SORTPERM{cnt}"], st.env[f"SORTINV{cnt}"], st.env[f"SORTSRC{cnt}"] = P, Q, src
        return res

    def bi_copy(self, args, kw, st, node):
        """copy.copy: shallow copy.  Objects: a new object of the same dynamic class whose fields hold the same
        values (same referenced objects); lists / dicts of scalars: as deepcopy."""
        v = args[0]
        self.externals_used.add("copy.copy")
        if is_obj(v.kind):
            a = self.alloc(st)
            new = V(Ref(ObjT(v.kind.target.cls)), a)
            cls = v.kind.target.cls
            related = [c for c in self.reg.classes if self.reg.is_subclass(c, cls) or self.reg.is_subclass(cls, c)]
            for c in related:
                for f, ks in self.reg.classes[c].fields.items():
                    fk = parse_kind(ks, self.reg.opaque)
                    if fk in (FN, NONE):
                        continue
                    self.H.fld_arr(st, f, fk.sort())
            for name in list(set(st.heap) | set(self.H.base)):
                if name.startswith("f_"):
                    arr = st.heap.get(name, self.H.base.get(name))
                    st.heap[name] = z3.Store(arr, a, self.sel(st, arr, v.term))
            return new
        if is_list(v.kind):
            if v.kind.target.elem is None:
                return self.new_list(st, None)
            return self.new_list(st, self.elem_kind(v), self.llen(st, v), self.larr(st, v))
        raise Unsupported(f"copy of {v.kind}", node)

    def bi_deepcopy(self, args, kw, st, node):
        """copy.deepcopy on the container shapes met in the units (assumed contract: fresh, disjoint, isomorphic)."""
        v = args[0]
        self.externals_used.add("copy.deepcopy")
        prim = (INT, BOOL, REAL)
        if is_list(v.kind):
            if v.kind.target.elem is None:
                return self.new_list(st, None)
            ek = self.elem_kind(v)
            if ek in prim or isinstance(ek, Opaque):
                return self.new_list(st, ek, self.llen(st, v), self.larr(st, v))
            raise Unsupported(f"deepcopy of {v.kind}", node)
        if is_dict(v.kind):
            if v.kind.target.k is None:
                return self.new_dict(st, None, None)
            k, vk = self.dict_kinds(v)
            if vk in prim or isinstance(vk, Opaque):
                d = self.new_dict(st, k, vk)
                self._copy_dict_shell(st, v, d)
                mn = self.H.n_map(k.sort(), vk.sort())
                ma = self.H.map_arr(st, k.sort(), vk.sort())
                st.heap[mn] = z3.Store(ma, d.term, ma[v.term])
                return d
            if is_list(vk) and (vk.target.elem in prim or isinstance(vk.target.elem, Opaque)):
                ek = vk.target.elem
                d = self.new_dict(st, k, vk)
                self._copy_dict_shell(st, v, d)
                # the copied gene lists occupy a fresh block [t0, t0+n): the list for key k sits at
                # t0 + (position of k in the key list) -- injective on the domain, quantifier-free
                skl = self.dkeys(st, v)
                n = self.llen(st, skl)
                karr = self.larr(st, skl)
                t0 = st.top
                st.top = t0 + n
                M = self.H.map_arr(st, k.sort(), vk.sort())[v.term]
                pos = z3.Function(f"kpos_{k.name}", I, k.sort(), I)
                kk = z3.Const("dc_k", k.sort())
                M2 = z3.Lambda([kk], t0 + pos(v.term, kk))
                mn = self.H.n_map(k.sort(), vk.sort())
                st.heap[mn] = z3.Store(self.H.map_arr(st, k.sort(), vk.sort()), d.term, M2)
                aa = z3.Int("dc_a")
                inblk = z3.And(aa >= t0, aa < t0 + n)
                ln, el, tg = self.H.len_arr(st), self.H.el_arr(st, ek.sort()), self.cls_arr(st)
                st.heap["len"] = z3.Lambda([aa], z3.If(inblk, ln[M[karr[aa - t0]]], ln[aa]))
                st.heap[self.H.n_el(ek.sort())] = z3.Lambda([aa], z3.If(inblk, el[M[karr[aa - t0]]], el[aa]))
                st.heap["f___cls_Int"] = z3.Lambda([aa], z3.If(inblk, z3.IntVal(self.container_tag(vk.target)), tg[aa]))
                return d
        raise Unsupported(f"deepcopy of {v.kind}", node)

    def _copy_dict_shell(self, st, src, dst):
        k = src.kind.target.k
        dn = self.H.n_dom(k.sort())
        da = self.H.dom_arr(st, k.sort())
        st.heap[dn] = z3.Store(da, dst.term, da[src.term])
        skl = self.dkeys(st, src)
        st.heap[self.H.n_dklen(k.sort())] = z3.Store(self.H.dklen_arr(st, k.sort()), dst.term, self.llen(st, skl))
        en = self.H.n_dkel(k.sort())
        st.heap[en] = z3.Store(self.H.dkel_arr(st, k.sort()), dst.term, self.larr(st, skl))
        # the copy's key positions coincide with the source's
        pos = z3.Function(f"kpos_{k.name}", I, k.sort(), I)
        kk = z3.Const("dcs_k", k.sort())
        st.assume(z3.ForAll([kk], pos(dst.term, kk) == pos(src.term, kk), patterns=[pos(dst.term, kk)]))

    def bi_fitval(self, args, kw, st, node):
        """spec: the value the user's fitness function returns for a phenotype (a function of both)"""
        f = z3.Function("fitval", I, I, z3.RealSort())
        return V(REAL, f(args[0].term, args[1].term))

    def bi_emptydict(self, args, kw, st, node):
        d = args[0]
        k, _ = self.dict_kinds(d)
        return V(BOOL, self.sel(st, self.H.dom_arr(st, k.sort()), d.term) == z3.K(k.sort(), z3.BoolVal(False)))

    def bi_dicts_monotone(self, args, kw, st, node):
        """two-state spec: every dict of the sample's kind only grows -- old keys keep their position and value"""
        old = st.ghost.get("__old__")
        if old is None:
            raise Unsupported("dicts_monotone outside a two-state clause", node)
        k, vk = self.dict_kinds(args[0])
        a = z3.Int("dm_a")
        kk = z3.Const("dm_k", k.sort())
        i = z3.Int("dm_i")
        dom0, dom1 = self.H.dom_arr(old, k.sort()), self.H.dom_arr(st, k.sort())
        map0, map1 = self.H.map_arr(old, k.sort(), vk.sort()), self.H.map_arr(st, k.sort(), vk.sort())
        ln0, ln1 = self.H.dklen_arr(old, k.sort()), self.H.dklen_arr(st, k.sort())
        ke0, ke1 = self.H.dkel_arr(old, k.sort()), self.H.dkel_arr(st, k.sort())
        live = z3.And(a >= 1, a < old.top)  # objects that existed in the old state
        return V(
            BOOL,
            z3.And(
                self.forall_p([a, kk], z3.Implies(z3.And(live, dom0[a][kk]), z3.And(dom1[a][kk], map1[a][kk] == map0[a][kk])), [dom1[a][kk], map1[a][kk]]),
                self.forall_p([a], z3.Implies(live, ln1[a] >= ln0[a]), [ln1[a]]),
                self.forall_p([a, i], z3.Implies(z3.And(live, 0 <= i, i < ln0[a]), ke1[a][i] == ke0[a][i]), [ke1[a][i]]),
            ),
        )

    def bi_fitness_stores_monotone(self, args, kw, st, node):
        """two-state spec: every Individual.fitness_store only grows (no sample object needed)"""
        from .kinds import parse_kind as pk

        d = V(pk("dict[Problem,Fitness]", self.reg.opaque), z3.IntVal(0))
        return self.bi_dicts_monotone([d], kw, st, node)

    def bi_phenotypes_sticky(self, args, kw, st, node):
        from .kinds import parse_kind as pk

        o = V(pk("Individual", self.reg.opaque), z3.IntVal(0))
        return self.bi_field_sticky([o, ops.const("phenotype")], kw, st, node)

    def bi_field_sticky(self, args, kw, st, node):
        """two-state spec: field f (given by name) of every object keeps its value once it is not None"""
        old = st.ghost.get("__old__")
        if old is None:
            raise Unsupported("field_sticky outside a two-state clause", node)
        obj, name = args
        f = self.const_str(name)
        fk = self.field_kind(obj.kind.target.cls, f)
        a = z3.Int("fs_a")
        f0, f1 = self.H.fld_arr(old, f, fk.sort()), self.H.fld_arr(st, f, fk.sort())
        # only objects of the class that declares the field (the untyped field arrays have entries for every address)
        base = obj.kind.target.cls
        ids = [self.class_id(c_) for c_ in self.reg.classes if self.reg.is_subclass(c_, base)] or [self.class_id(base)]
        tag = self.cls_arr(old)[a]
        is_inst = z3.Or(*[tag == i_ for i_ in ids])
        return V(BOOL, self.forall_p([a], z3.Implies(z3.And(a >= 1, a < old.top, is_inst, f0[a] != 0), f1[a] == f0[a]), [f1[a]]))

    def bi_avail(self, args, kw, st, node):
        """spec: number of items iterating the argument would yield now (0 for an exhausted one-shot iterator)"""
        v = args[0]
        if is_obj(v.kind) and self.field_kind(v.kind.target.cls, "individuals") is not None:
            v = self.fget(st, v, "individuals", self.field_kind(v.kind.target.cls, "individuals"))
        return V(INT, self.iter_len(st, v))

    def bi_item(self, args, kw, st, node):
        """spec: k-th item of an iterable (list or Population)"""
        v = args[0]
        if is_obj(v.kind) and self.field_kind(v.kind.target.cls, "individuals") is not None:
            v = self.fget(st, v, "individuals", self.field_kind(v.kind.target.cls, "individuals"))
        return self.lget(st, v, ops.to_int_term(args[1]))

    def bi_keysof(self, args, kw, st, node):
        """spec: keysof(d) = the dict's key list in insertion order"""
        return self.dkeys(st, args[0])

    def bi_eqlist(self, args, kw, st, node):
        """spec: two lists have the same length and the same contents"""
        a, b = args
        ek = self.elem_kind(a)
        return V(BOOL, z3.And(self.llen(st, a) == self.llen(st, b), self.larr(st, a) == self.larr(st, b)))

    def bi_any(self, args, kw, st, node):
        return self._anyall(args, st, node, True)

    def bi_all(self, args, kw, st, node):
        return self._anyall(args, st, node, False)

    def _anyall(self, args, st, node, is_any):
        v = args[0]
        if not is_list(v.kind):
            v = self.view_to_list(self.iter_view(v, st, node), st)
        n = self.llen(st, v)
        if v.kind.target.elem is None:
            return V(BOOL, z3.BoolVal(not is_any))
        k = z3.Int("aa_k")
        el = self.from_term(self.elem_kind(v), self.larr(st, v)[k])
        t = self.truth(el, st)
        if is_any:
            return V(BOOL, z3.Exists([k], z3.And(0 <= k, k < n, t)))
        return V(BOOL, z3.ForAll([k], z3.Implies(z3.And(0 <= k, k < n), t)))

    def bi_hasattr(self, args, kw, st, node):
        obj, name = args
        nm = self.const_str(name)
        if nm is None:
            raise Unsupported("hasattr with symbolic name", node)
        if is_obj(obj.kind):
            cls = obj.kind.target.cls
            fk = self.field_kind(cls, nm)
            if fk is not None and not self.reg.classes.get(cls, None) is None and nm not in self.optional_attrs(cls):
                return V(BOOL, z3.BoolVal(True))
            if self.reg.lookup_method(cls, nm) is not None or self.find_method_def(cls, nm) is not None:
                return V(BOOL, z3.BoolVal(True))
        if isinstance(obj.kind, Ref):
            return V(BOOL, self.ghost_flag(st, obj.term, "has_" + nm))
        return V(BOOL, z3.BoolVal(False))

    def optional_attrs(self, cls):
        out = set()
        for c in self.reg.mro(cls):
            ci = self.reg.classes.get(c)
            if ci is not None:
                out |= set(getattr(ci, "optional", ()) or ())
        return out

    def const_str(self, v: V):
        if v.kind == ops.STR:
            for s, t in ops._str_consts.items():
                if t.eq(v.term):
                    return s
        return None

    # ------------------------------------------------------------------ spec-only forms
    def spec_form(self, e, st) -> V:
        name = e.func.id
        if name == "old":
            old = st.ghost.get("__old__")
            if old is None:
                raise Unsupported("old() outside a two-state clause", e)
            s2 = old.fork()
            s2.spec = True
            s2.env = dict(st.env)
            s2.ghost = dict(st.ghost)
            s2.ghost["__old__"] = None
            s2.pc = st.pc
            return self.ev1(e.args[0], s2)
        pol = st.ghost.get("__pol__", 0)
        st.ghost["__pol__"] = 0
        lo = ops.to_int_term(self.ev1(e.args[0], st))
        hi = ops.to_int_term(self.ev1(e.args[1], st))
        st.ghost["__pol__"] = pol
        skolem = (name == "forall" and pol == 1) or (name == "exists" and pol == -1)
        lam = e.args[2]
        if not isinstance(lam, ast.Lambda) or len(lam.args.args) != 1:
            raise Unsupported("quantifier body must be a one-argument lambda", e)
        vn = lam.args.args[0].arg
        k = fresh("sk_" + vn, I) if skolem else z3.Int(f"q_{vn}_{e.lineno}_{e.col_offset}")
        saved = st.env.get(vn)
        st.env[vn] = V(INT, k)
        outer_facts = st.ghost.get("__facts__", [])
        st.ghost["__facts__"] = []
        if not skolem:
            # below a quantifier that stays a quantifier nothing may be replaced by a constant: the inner
            # variable may depend on this one (quantifier alternation)
            st.ghost["__pol__"] = 0
        try:
            body = self.ev1(lam.body, st)
        finally:
            st.ghost["__pol__"] = pol
        inner = st.ghost.get("__facts__", [])
        from .solve import _mentions

        mine = [f for f in inner if _mentions(f[0], k)]
        st.ghost["__facts__"] = outer_facts + [f for f in inner if not _mentions(f[0], k)]
        if saved is None:
            st.env.pop(vn, None)
        else:
            st.env[vn] = saved
        bt = self.truth(body, st)
        rng = z3.And(lo <= k, k < hi)
        if skolem:
            st.ghost["__facts__"] = st.ghost["__facts__"] + mine
            return V(BOOL, z3.Implies(rng, bt) if name == "forall" else z3.And(rng, bt))
        if mine:
            # invariant instances at the access terms of the body, carried by a quantifier over the same
            # bound variable (valid in every reachable heap; queued for the enclosing level)
            for fact, trig in mine:
                q = z3.ForAll([k], z3.Implies(rng, fact))
                st.ghost["__facts__"].append((q, None))
        if name == "forall":
            return V(BOOL, z3.ForAll([k], z3.Implies(rng, bt)))
        return V(BOOL, z3.Exists([k], z3.And(rng, bt)))

    def bi_implies(self, args, kw, st, node):
        return V(BOOL, z3.Implies(self.truth(args[0], st), self.truth(args[1], st)))

    def bi_iff(self, args, kw, st, node):
        return V(BOOL, self.truth(args[0], st) == self.truth(args[1], st))

    def bi_same(self, args, kw, st, node):
        return V(BOOL, ops.same_value(args[0], args[1]))

    def bi_ite(self, args, kw, st, node):
        c = self.truth(args[0], st)
        k = self.join_kind(args[1].kind, args[2].kind)
        return V(k, z3.If(c, self.to_term(args[1], k), self.to_term(args[2], k)))

    def bi_fresh(self, args, kw, st, node):
        """fresh(x): x was allocated during this call (address >= top at entry)."""
        base = st.ghost.get("__top0__", self.top0)
        return V(BOOL, args[0].term >= base)

    def bi_allocated(self, args, kw, st, node):
        return V(BOOL, z3.And(args[0].term >= 1, args[0].term < st.top))
