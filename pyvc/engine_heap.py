"""Heap operations of the executor: allocation, lists, dicts, object fields, frame obligations."""
from __future__ import annotations

import z3

from .kinds import V, INT, BOOL, REAL, NONE, Opaque, Ref, Tup, ListT, DictT, ObjT, Kind, FN, parse_kind, is_list, is_obj
from .state import State, Unsupported, fresh, I


class HeapMixin:
    @staticmethod
    def forall_p(vs, body, pats=()):
        """ForAll with the given patterns when they are usable as E-matching triggers, plain ForAll otherwise."""
        from .solve import _mentions

        def ok(t):
            todo = [t]
            while todo:
                x = todo.pop()
                if z3.is_quantifier(x):
                    return False
                if z3.is_app(x) and x.decl().kind() in (z3.Z3_OP_ITE, z3.Z3_OP_AND, z3.Z3_OP_OR, z3.Z3_OP_NOT, z3.Z3_OP_EQ, z3.Z3_OP_LE, z3.Z3_OP_GE, z3.Z3_OP_LT, z3.Z3_OP_GT, z3.Z3_OP_IMPLIES):
                    return False
                todo.extend(x.children())
            return all(_mentions(t, v) for v in vs)

        good = [p for p in pats if ok(p)]
        if good:
            try:
                return z3.ForAll(list(vs), body, patterns=good)
            except z3.Z3Exception:
                pass
        return z3.ForAll(list(vs), body)

    # ---------------------------------------------------------------- smart select
    def qf_pc(self, st: State):
        """Quantifier-free part of the path condition (cached incrementally on the state)."""
        cache = st.ghost.get("__qfpc__")
        if cache is None or cache[0] > len(st.pc) or (cache[0] and cache[2] is not st.pc[cache[0] - 1]):
            cache = (0, [], None)
        n, qf, _ = cache
        if n < len(st.pc):
            from .solve import _has_quant

            qf = list(qf)
            for a in st.pc[n:]:
                if not _has_quant(a):
                    qf.append(a)
            st.ghost["__qfpc__"] = (len(st.pc), qf, st.pc[-1])
        return qf

    def proves(self, st: State, c) -> bool:
        """Cheap entailment test pc |= c using only quantifier-free facts (sound: fewer assumptions)."""
        cs = z3.simplify(c)
        if z3.is_true(cs):
            return True
        if z3.is_false(cs):
            return False
        key = cs.get_id()
        memo = st.ghost.get("__proved__")
        if memo is None:
            memo = st.ghost["__proved__"] = {}
        hit = memo.get(key)
        if hit is not None and (hit[0] or hit[1] == len(st.pc)):
            return hit[0]
        s = z3.Solver()
        s.set("timeout", 150)
        s.add(*self.qf_pc(st))
        s.add(z3.Not(cs))
        self.n_alias_queries = getattr(self, "n_alias_queries", 0) + 1
        r = s.check() == z3.unsat
        memo = dict(memo)
        memo[key] = (r, len(st.pc), cs)  # cs pinned: z3 recycles ids of dead terms
        st.ghost["__proved__"] = memo
        return r

    def sel(self, st: State, arr, idx):
        """Select with store/lambda layers peeled off whenever the path condition decides the aliasing."""
        if getattr(self, "plain_select", False):
            return arr[idx]
        for _ in range(64):
            if z3.is_store(arr):
                A, x, v = arr.children()
                if x.eq(idx):
                    return v
                if self.proves(st, x != idx):
                    arr = A
                    continue
                if self.proves(st, x == idx):
                    return v
                break
            if z3.is_quantifier(arr) and arr.is_lambda() and arr.num_vars() == 1:
                body = z3.substitute_vars(arr.body(), idx)
                if z3.is_app_of(body, z3.Z3_OP_ITE):
                    c, X, Y = body.children()
                    if self.proves(st, c):
                        body = X
                    elif self.proves(st, z3.Not(c)):
                        body = Y
                    else:
                        break
                if z3.is_select(body) and body.arg(1).eq(idx):
                    arr = body.arg(0)
                    continue
                if z3.is_select(body):
                    return self.sel(st, body.arg(0), body.arg(1))
                return body
            break
        return arr[idx]
    # ---------------------------------------------------------------- conversions
    def to_term(self, v: V, kind: Kind):
        """z3 term of sort kind.sort() for storing v into a heap cell of that kind."""
        from . import ops

        if isinstance(kind, Tup):
            if not isinstance(v.kind, Tup) or len(v.kind.items) != len(kind.items):
                raise Unsupported(f"cannot store {v.kind} as {kind}")
            return kind.mk()(*[self.to_term(x, k) for x, k in zip(v.term, kind.items)])
        if kind == REAL:
            return ops.to_real_term(v)
        if kind == INT:
            if v.kind == NONE:
                return z3.IntVal(0)
            if isinstance(v.kind, Ref):
                return v.term
            return ops.to_int_term(v)
        if kind == BOOL:
            if v.kind != BOOL:
                raise Unsupported(f"cannot store {v.kind} as bool")
            return v.term
        if isinstance(kind, Ref):
            if v.kind == NONE:
                return z3.IntVal(0)
            if isinstance(v.kind, Ref):
                return v.term
            raise Unsupported(f"cannot store {v.kind} as {kind}")
        if isinstance(kind, Opaque):
            if isinstance(v.kind, Opaque) and v.kind.sname == kind.sname:
                return v.term
            raise Unsupported(f"cannot store {v.kind} as {kind}")
        raise Unsupported(f"to_term {kind}")

    def from_term(self, kind: Kind, term) -> V:
        if isinstance(kind, Tup):
            return V(kind, tuple(self.from_term(k, acc(term)) for k, acc in zip(kind.items, kind.accs())))
        return V(kind, term)

    def fresh_value(self, name: str, kind: Kind, st: State | None = None) -> V:
        if isinstance(kind, Tup):
            return V(kind, tuple(self.fresh_value(f"{name}_{i}", k, st) for i, k in enumerate(kind.items)))
        if kind == NONE:
            return V(NONE, None)
        if kind == FN:
            raise Unsupported("fresh function value")
        v = V(kind, fresh(name, kind.sort()))
        if st is not None and isinstance(kind, Ref):
            st.assume(self.ref_wf(st, v))
        return v

    # ---------------------------------------------------------------- allocation
    def alloc(self, st: State) -> z3.ExprRef:
        a = st.top
        st.top = st.top + 1
        return a

    def new_list(self, st: State, elem: Kind | None, n=None, arr=None, oneshot=False) -> V:
        a = self.alloc(st)
        lt = ListT(elem, oneshot_possible=oneshot)
        v = V(Ref(lt), a)
        la = self.H.len_arr(st)
        st.heap["len"] = z3.Store(la, a, n if n is not None else z3.IntVal(0))
        if elem is not None:
            st.heap["f___cls_Int"] = z3.Store(self.cls_arr(st), a, z3.IntVal(self.container_tag(lt)))
        if elem is not None and arr is not None:
            ea = self.H.el_arr(st, elem.sort())
            st.heap[self.H.n_el(elem.sort())] = z3.Store(ea, a, arr)
        if oneshot:
            self.set_ghost_flag(st, a, "oneshot", z3.BoolVal(True))
            self.set_ghost_flag(st, a, "consumed", z3.BoolVal(False))
        return v

    # ---------------------------------------------------------------- ghost flags
    def ghost_flag(self, st, a, name):
        arr = self.H.fld_arr(st, "__" + name, z3.BoolSort())
        return self.sel(st, arr, a)

    def set_ghost_flag(self, st, a, name, val):
        arr = self.H.fld_arr(st, "__" + name, z3.BoolSort())
        st.heap[self.H.n_fld("__" + name, z3.BoolSort())] = z3.Store(arr, a, val)

    # ---------------------------------------------------------------- lists
    def elem_kind(self, v: V) -> Kind:
        t = v.kind.target
        if t.elem is None:
            raise Unsupported("element kind of list not yet known")
        return t.elem

    def is_keylist(self, v: V) -> bool:
        return getattr(v.kind.target, "keys_of", None) is not None

    def llen(self, st: State, v: V):
        t = self.sel(st, self.H.dklen_arr(st, v.kind.target.elem.sort()) if self.is_keylist(v) else self.H.len_arr(st), v.term)
        c = t >= 0
        if getattr(st, "spec", False):
            self.add_fact(st, c)
        elif not any(c.eq(x) for x in st.pc[-8:]):
            st.assume(c)
        return t

    def larr(self, st: State, v: V):
        ek = self.elem_kind(v)
        if self.is_keylist(v):
            return self.sel(st, self.H.dkel_arr(st, ek.sort()), v.term)
        return self.sel(st, self.H.el_arr(st, ek.sort()), v.term)

    def lget(self, st: State, v: V, i) -> V:
        ek = self.elem_kind(v)
        val = self.from_term(ek, self.sel(st, self.larr(st, v), i))
        self.assume_wf(st, val)
        self.assume_entry_wf(st, ek, self.H.n_dkel(ek.sort()) if self.is_keylist(v) else self.H.n_el(ek.sort()), v.term, i)
        d = getattr(v.kind.target, "keys_of", None)
        if d is not None:
            # instance of the dict representation invariant at this access
            n = self.llen(st, v)
            kt = self.sel(st, self.larr(st, v), i)
            pos = z3.Function(f"kpos_{ek.name}", I, ek.sort(), I)
            self.add_fact(st, z3.Implies(z3.And(0 <= i, i < n), z3.And(self.sel(st, self.sel(st, self.H.dom_arr(st, ek.sort()), d.term), kt), pos(d.term, kt) == i)), kt)
        return val

    def add_fact(self, st: State, fact, trigger=None):
        """A valid instance of a heap invariant.  In code mode it is assumed; in spec mode it is queued so that
        the enclosing quantifier (if the instance mentions its bound variable) can carry it."""
        if getattr(st, "spec", False):
            st.ghost.setdefault("__facts__", []).append((fact, trigger))
        else:
            st.assume(fact)

    def key_instance(self, st: State, d: V, key_t):
        k = d.kind.target.k
        n = self.sel(st, self.H.dklen_arr(st, k.sort()), d.term)
        arr = self.sel(st, self.H.dkel_arr(st, k.sort()), d.term)
        pos = z3.Function(f"kpos_{k.name}", I, k.sort(), I)
        p = pos(d.term, key_t)
        dm = self.sel(st, self.sel(st, self.H.dom_arr(st, k.sort()), d.term), key_t)
        self.add_fact(st, z3.Implies(dm, z3.And(0 <= p, p < n, self.sel(st, arr, p) == key_t)), dm)

    def assume_entry_wf(self, st: State, kind: Kind, arrname: str, addr, idx=None):
        """Instance of the entry-heap invariant: a reference stored (at entry) in an object that existed at
        entry points to an object that existed at entry."""
        if not isinstance(kind, Ref):
            return
        base = self.H.base.get(arrname)
        if base is None:
            return
        cell = base[addr] if idx is None else base[addr][idx]
        self.add_fact(st, z3.Implies(addr < self.top0, z3.And(cell >= 0, cell < self.top0)))

    def assume_wf(self, st: State, val: V):
        """Type invariant of values read from the heap: references point to allocated objects."""
        if isinstance(val.kind, Ref):
            self.add_fact(st, self.ref_wf(st, val))
            if getattr(st, "spec", False):
                return
            if isinstance(val.kind.target, DictT) and val.kind.target.k is not None:
                key = (val.term.get_id(), st.heap.get("len", self.H.base.get("len")).get_id() if ("len" in st.heap or "len" in self.H.base) else 0)
                seen = st.ghost.setdefault("__dictwf__", {})
                if key not in seen:
                    st.ghost["__dictwf__"] = {**seen, key: val.term}
                    st.assume(z3.Implies(val.term != 0, self.dict_wf(st, val)))
        elif isinstance(val.kind, Tup):
            for x in val.term:
                self.assume_wf(st, x)

    _ctags: dict = {}

    def container_tag(self, t) -> int:
        """Distinct static container kinds get distinct dynamic tags (documented assumption: containers of
        different static kinds never alias).  Lists/dicts whose kind is not yet known get the generic tag."""
        if isinstance(t, ListT):
            name = "list[" + (t.elem.name if t.elem is not None else "?") + "]"
        else:
            name = "dict[" + (t.k.name if t.k is not None else "?") + "," + (t.v.name if t.v is not None else "?") + "]"
        if name not in HeapMixin._ctags:
            HeapMixin._ctags[name] = -(len(HeapMixin._ctags) + 1)
        return HeapMixin._ctags[name]

    def cls_arr(self, st):
        return self.H.fld_arr(st, "__cls", I)

    def ref_wf(self, st: State, v: V, top=None):
        """Type invariant of a reference: allocated, non-null unless optional, of a compatible dynamic class."""
        top = st.top if top is None else top
        k = v.kind
        lo = 0 if k.optional else 1
        conj = [v.term >= lo, v.term < top]
        tag = self.sel(st, self.cls_arr(st), v.term)
        t = k.target
        if isinstance(t, ListT):
            c = tag == self.container_tag(t)
        elif isinstance(t, DictT):
            c = tag == self.container_tag(t)
        elif t.cls == "object":
            return z3.And(conj)  # unknown class: no constraint on the dynamic tag
        else:
            subs = [s for s in self.reg.classes if self.reg.is_subclass(s, t.cls)] or [t.cls]
            c = z3.Or([tag == self.class_id(s) for s in subs]) if len(subs) > 1 else tag == self.class_id(subs[0])
        conj.append(z3.Implies(v.term != 0, c) if k.optional else c)
        return z3.And(conj)

    def lset_all(self, st: State, v: V, n, arr, frame_node=None):
        """Replace the whole contents of list v."""
        if self.is_keylist(v):
            raise Unsupported("mutation of a dict key view")
        self.check_frame(st, "list", v.term, frame_node)
        ek = self.elem_kind(v)
        st.heap["len"] = z3.Store(self.H.len_arr(st), v.term, n)
        name = self.H.n_el(ek.sort())
        st.heap[name] = z3.Store(self.H.el_arr(st, ek.sort()), v.term, arr)

    def lstore(self, st: State, v: V, i, x: V, node=None):
        self.check_frame(st, "list", v.term, node)
        ek = self.resolve_elem(v, x, st)
        name = self.H.n_el(ek.sort())
        ea = self.H.el_arr(st, ek.sort())
        st.heap[name] = z3.Store(ea, v.term, z3.Store(ea[v.term], i, self.to_term(x, ek)))

    def resolve_elem(self, v: V, x: V, st: State | None = None) -> Kind:
        t = v.kind.target
        if t.elem is None:
            k = x.kind
            if k == NONE or k == FN:
                raise Unsupported(f"list element kind {k}")
            t.elem = k
            t.name = ("iter[" if t.oneshot_possible else "list[") + k.name + "]"
            if st is not None:
                self.set_tag(st, v)
        return t.elem

    def set_tag(self, st: State, v: V):
        st.heap["f___cls_Int"] = z3.Store(self.cls_arr(st), v.term, z3.IntVal(self.container_tag(v.kind.target)))

    def lappend(self, st: State, v: V, x: V, node=None):
        self.check_frame(st, "list", v.term, node)
        ek = self.resolve_elem(v, x, st)
        n = self.llen(st, v)
        name = self.H.n_el(ek.sort())
        ea = self.H.el_arr(st, ek.sort())
        st.heap[name] = z3.Store(ea, v.term, z3.Store(ea[v.term], n, self.to_term(x, ek)))
        st.heap["len"] = z3.Store(self.H.len_arr(st), v.term, n + 1)

    def list_from_values(self, st: State, vals: list[V]) -> V:
        ek = None
        for x in vals:
            if x.kind not in (NONE, FN):
                ek = x.kind if ek is None else self.join_kind(ek, x.kind)
        if vals and ek is None:
            raise Unsupported("list literal of None/functions")
        v = self.new_list(st, ek)
        if ek is not None:
            arr = fresh("lit", z3.ArraySort(I, ek.sort()))
            for i, x in enumerate(vals):
                arr = z3.Store(arr, i, self.to_term(x, ek))
            self.lset_all(st, v, z3.IntVal(len(vals)), arr)
        return v

    def join_kind(self, a: Kind, b: Kind) -> Kind:
        if a == b:
            return a
        nums = (INT, BOOL, REAL)
        if a in nums and b in nums:
            return REAL if REAL in (a, b) else INT
        if isinstance(a, Ref) and isinstance(b, Ref):
            return a
        raise Unsupported(f"heterogeneous kinds {a} / {b}")

    def iter_len(self, st: State, v: V):
        """Effective number of items obtained by iterating v now (one-shot iterables yield nothing twice)."""
        n = self.llen(st, v)
        if v.kind.target.oneshot_possible:
            os_, cons = self.ghost_flag(st, v.term, "oneshot"), self.ghost_flag(st, v.term, "consumed")
            return z3.If(z3.And(os_, cons), z3.IntVal(0), n)
        return n

    def mark_consumed(self, st: State, v: V):
        if v.kind.target.oneshot_possible:
            os_ = self.ghost_flag(st, v.term, "oneshot")
            cons = self.ghost_flag(st, v.term, "consumed")
            self.set_ghost_flag(st, v.term, "consumed", z3.Or(cons, os_))

    # ---------------------------------------------------------------- dicts
    def dict_kinds(self, v: V):
        t = v.kind.target
        if t.k is None or t.v is None:
            raise Unsupported("dict kinds not yet known")
        return t.k, t.v

    def new_dict(self, st: State, k: Kind | None, vk: Kind | None) -> V:
        a = self.alloc(st)
        dt = DictT.__new__(DictT)
        dt.k, dt.v = k, vk
        dt.name = f"dict[{k.name if k else '?'},{vk.name if vk else '?'}]"
        d = V(Ref(dt), a)
        if k is not None:
            st.heap["f___cls_Int"] = z3.Store(self.cls_arr(st), a, z3.IntVal(self.container_tag(dt)))
        if k is not None:
            st.heap[self.H.n_dklen(k.sort())] = z3.Store(self.H.dklen_arr(st, k.sort()), a, z3.IntVal(0))
        if k is not None:
            self._dict_clear_dom(st, d)
        else:
            st.ghost[("emptydict", str(a))] = True
        return d

    def _dict_clear_dom(self, st, d):
        k, _ = d.kind.target.k, d.kind.target.v
        st.heap[self.H.n_dklen(k.sort())] = z3.Store(self.H.dklen_arr(st, k.sort()), d.term, z3.IntVal(0))
        name = self.H.n_dom(k.sort())
        st.heap[name] = z3.Store(self.H.dom_arr(st, k.sort()), d.term, z3.K(k.sort(), z3.BoolVal(False)))

    def dkeys(self, st: State, d: V) -> V:
        k = d.kind.target.k
        lt = ListT(k)
        lt.keys_of = d
        return V(Ref(lt), d.term)

    def dhas(self, st: State, d: V, key: V):
        k, _ = self.dict_kinds(d)
        kt = self.to_term(key, k)
        self.key_instance(st, d, kt)
        return self.sel(st, self.sel(st, self.H.dom_arr(st, k.sort()), d.term), kt)

    def dget(self, st: State, d: V, key: V) -> V:
        k, vk = self.dict_kinds(d)
        self.key_instance(st, d, self.to_term(key, k))
        val = self.from_term(vk, self.sel(st, self.sel(st, self.H.map_arr(st, k.sort(), vk.sort()), d.term), self.to_term(key, k)))
        self.assume_wf(st, val)
        self.assume_entry_wf(st, vk, self.H.n_map(k.sort(), vk.sort()), d.term, self.to_term(key, k))
        return val

    def dset(self, st: State, d: V, key: V, val: V, node=None):
        self.check_frame(st, "dict", d.term, node)
        t = d.kind.target
        if t.k is None:
            if key.kind in (NONE, FN) or val.kind in (NONE, FN):
                raise Unsupported("dict of None/functions")
            t.k, t.v = key.kind, val.kind
            t.name = f"dict[{t.k.name},{t.v.name}]"
            self._dict_clear_dom(st, d)
            self.set_tag(st, d)
        k, vk = t.k, t.v
        kt = self.to_term(key, k)
        had = self.sel(st, self.sel(st, self.H.dom_arr(st, k.sort()), d.term), kt)
        # key list (insertion order): append when the key is new
        n = self.sel(st, self.H.dklen_arr(st, k.sort()), d.term)
        ea = self.H.dkel_arr(st, k.sort())
        cur = self.sel(st, ea, d.term)
        st.heap[self.H.n_dkel(k.sort())] = z3.Store(ea, d.term, z3.If(had, cur, z3.Store(cur, n, kt)))
        st.heap[self.H.n_dklen(k.sort())] = z3.Store(self.H.dklen_arr(st, k.sort()), d.term, z3.If(had, n, n + 1))
        dn = self.H.n_dom(k.sort())
        da = self.H.dom_arr(st, k.sort())
        st.heap[dn] = z3.Store(da, d.term, z3.Store(self.sel(st, da, d.term), kt, z3.BoolVal(True)))
        mn = self.H.n_map(k.sort(), vk.sort())
        ma = self.H.map_arr(st, k.sort(), vk.sort())
        st.heap[mn] = z3.Store(ma, d.term, z3.Store(self.sel(st, ma, d.term), kt, self.to_term(val, vk)))

    def dict_wf(self, st: State, d: V):
        """Representation invariant linking a dict's domain with its ghost key list (assumed for inputs,
        maintained by dset): keys are distinct and dom(k) <=> k occurs in the key list."""
        k, _ = self.dict_kinds(d)
        n = self.sel(st, self.H.dklen_arr(st, k.sort()), d.term)
        arr = self.sel(st, self.H.dkel_arr(st, k.sort()), d.term)
        dom = self.sel(st, self.H.dom_arr(st, k.sort()), d.term)
        i, j = z3.Ints("wf_i wf_j")
        kk = z3.Const("wf_k", k.sort())
        pos = z3.Function(f"kpos_{k.name}", I, k.sort(), I)
        b1 = z3.Implies(z3.And(0 <= i, i < n), z3.And(dom[arr[i]], pos(d.term, arr[i]) == i))
        b2 = z3.Implies(dom[kk], z3.And(0 <= pos(d.term, kk), pos(d.term, kk) < n, arr[pos(d.term, kk)] == kk))
        def pat_ok(t):
            todo = [t]
            while todo:
                x = todo.pop()
                if z3.is_quantifier(x):
                    return False
                if z3.is_app(x) and x.decl().kind() in (z3.Z3_OP_ITE, z3.Z3_OP_AND, z3.Z3_OP_OR, z3.Z3_OP_NOT, z3.Z3_OP_EQ, z3.Z3_OP_LE, z3.Z3_OP_GE, z3.Z3_OP_LT, z3.Z3_OP_GT):
                    return False
                todo.extend(x.children())
            return True

        q1 = z3.ForAll([i], b1, patterns=[arr[i]]) if pat_ok(arr[i]) else z3.ForAll([i], b1)
        pats = [p_ for p_ in (pos(d.term, kk), dom[kk]) if pat_ok(p_)]
        q2 = z3.ForAll([kk], b2, patterns=pats) if pats else z3.ForAll([kk], b2)
        return z3.And(n >= 0, q1, q2)

    # ---------------------------------------------------------------- object fields
    def field_kind(self, cls: str, f: str) -> Kind | None:
        ks = self.reg.field_kind(cls, f)
        if ks is None:
            return None
        return parse_kind(ks, self.reg.opaque)

    def fget(self, st: State, obj: V, f: str, kind: Kind) -> V:
        if kind == FN:
            raise Unsupported(f"function-valued field {f}")
        if kind == NONE:
            return V(NONE, None)
        val = self.from_term(kind, self.sel(st, self.H.fld_arr(st, f, kind.sort()), obj.term))
        self.assume_wf(st, val)
        if isinstance(kind, Ref) and is_obj(obj.kind) and self.is_owned_field(obj.kind.target.cls, f):
            # ownership invariant of the class: the object stored here belongs to exactly this instance
            own = z3.Function("owner_" + f, I, I)
            self.add_fact(st, z3.Implies(obj.term != 0, own(val.term) == obj.term))
        self.assume_entry_wf(st, kind, self.H.n_fld(f, kind.sort()), obj.term)
        return val

    def is_owned_field(self, cls: str, f: str) -> bool:
        for c in self.reg.mro(cls):
            ci = self.reg.classes.get(c)
            if ci is not None and f in ci.owned:
                return True
        return False

    def fset(self, st: State, obj: V, f: str, kind: Kind, val: V, node=None, ghost=False):
        if not ghost:
            self.check_frame(st, "field:" + f, obj.term, node)
        if is_obj(obj.kind) and self.is_owned_field(obj.kind.target.cls, f) and isinstance(val.kind, Ref):
            # an owned field may only receive an object allocated by the current unit and not stored elsewhere
            self.oblige(st, "safe", f"owned-field:{f}", val.term >= self.top0, node, note="owned field must receive a freshly allocated object")
            own = z3.Function("owner_" + f, I, I)
            st.assume(own(val.term) == obj.term)
        name = self.H.n_fld(f, kind.sort())
        st.heap[name] = z3.Store(self.H.fld_arr(st, f, kind.sort()), obj.term, self.to_term(val, kind))

    # ---------------------------------------------------------------- frames
    def check_frame(self, st: State, region: str, addr, node=None):
        """Emit the frame obligation for a write to `addr` in `region` ('list', 'dict', 'field:<f>')."""
        if getattr(self, "no_frame", False):
            return
        allowed = [addr >= self.top0]
        for reg, a in self.allowed_writes:
            if reg == region or reg == "*" or (reg == "field:*" and region.startswith("field:")):
                if a is None:
                    return
                allowed.append(a(addr, st) if callable(a) else addr == a)
        goal = z3.Or(allowed) if len(allowed) > 1 else allowed[0]
        goal_s = z3.simplify(goal)
        if not z3.is_true(goal_s):
            self.oblige(st, "frame", f"{region}", goal, node)
        # loop-level frames
        for (ltop, lallowed, lid) in st.loop_frames:
            al = [addr >= ltop]
            for reg, a in lallowed:
                if reg == region or reg == "*" or (reg == "field:*" and region.startswith("field:")):
                    al.append(z3.BoolVal(True) if a is None else (a(addr, st) if callable(a) else addr == a))
            g = z3.simplify(z3.Or(al) if len(al) > 1 else al[0])
            if not z3.is_true(g):
                self.oblige(st, "frame", f"loop{lid}:{region}", g, node)

    def check_frame_class(self, st: State, region: str, pred, node=None):
        """A callee may write all objects of a class: the caller must hold a class region covering it."""
        def covered(entries):
            if getattr(pred, "dict_kind", None) is not None:
                return any(reg == "dict" and (a is None or (callable(a) and getattr(a, "dict_kind", None) == pred.dict_kind)) for reg, a in entries)
            return any(reg == region and (a is None or (callable(a) and getattr(a, "class_name", None) is not None and self.reg.is_subclass(pred.class_name, a.class_name))) for reg, a in entries)

        if not covered(self.allowed_writes):
            self.oblige(st, "frame", f"class:{pred.class_name}" if getattr(pred, "dict_kind", None) is None else f"all:{pred.dict_kind}", z3.BoolVal(False), node)
        for (ltop, lallowed, lid) in st.loop_frames:
            if not covered(lallowed):
                self.oblige(st, "frame", f"loop{lid}:class:{pred.class_name}" if getattr(pred, "dict_kind", None) is None else f"loop{lid}:all:{pred.dict_kind}", z3.BoolVal(False), node)

    def check_frame_wildcard(self, st: State, region: str, node=None):
        """A callee may write `region` of arbitrary objects: the caller must hold the same wildcard."""
        ok = any(reg == region and a is None for reg, a in self.allowed_writes)
        if not ok:
            self.oblige(st, "frame", f"all:{region}", z3.BoolVal(False), node)
        for (ltop, lallowed, lid) in st.loop_frames:
            if not any(reg == region and a is None for reg, a in lallowed):
                self.oblige(st, "frame", f"loop{lid}:all:{region}", z3.BoolVal(False), node)

    def havoc_all(self, st: State, region: str):
        """Wildcard havoc: the region of *every* object (all dicts / field f of all objects)."""
        if region == "dict":
            prefs = ("dom_", "map_", "dkel_", "dklen_")
        elif region.startswith("field:"):
            prefs = (f"f_{region[6:]}_",)
        else:
            raise Unsupported(f"wildcard havoc of {region}")
        for name in list(set(st.heap) | set(self.H.base)):
            if name.startswith(prefs) and not name.startswith("f___"):
                arr = st.heap.get(name, self.H.base.get(name))
                st.heap[name] = fresh("hall_" + name, arr.sort())

    def havoc_region(self, st: State, region: str, addr):
        """Forget everything about `region` at `addr` (used for loop cuts and callee modifies)."""
        if addr is None:
            return self.havoc_all(st, region)
        if callable(addr) and getattr(addr, "dict_kind", None) is not None:
            a = z3.Int("hc_a")
            cond = addr(a, st)
            ks, vs = addr.dict_sorts
            names = [self.H.n_dom(ks), self.H.n_map(ks, vs), self.H.n_dkel(ks), self.H.n_dklen(ks)]
            for name in names:
                arr = st.heap.get(name, self.H.base.get(name))
                if arr is None:
                    continue
                f = fresh("hdk_" + name, arr.sort())
                st.heap[name] = z3.Lambda([a], z3.If(cond, f[a], arr[a]))
            return
        if callable(addr):
            a = z3.Int("hc_a")
            cond = addr(a, st)
            for name in list(set(st.heap) | set(self.H.base)):
                if name.startswith("f_") and not name.startswith("f___"):
                    arr = st.heap.get(name, self.H.base.get(name))
                    f = fresh("hcls_" + name, arr.sort())
                    st.heap[name] = z3.Lambda([a], z3.If(cond, f[a], arr[a]))
            return
        if region == "list":
            st.heap["len"] = z3.Store(self.H.len_arr(st), addr, fresh("hlen", I))
            for name in list(st.heap):
                if name.startswith("el_"):
                    arr = st.heap[name]
                    st.heap[name] = z3.Store(arr, addr, fresh("hel", arr.sort().range()))
            for name in list(self.H.base):
                if name.startswith("el_") and name not in st.heap:
                    arr = self.H.base[name]
                    st.heap[name] = z3.Store(arr, addr, fresh("hel", arr.sort().range()))
        elif region == "dict":
            for name in list(st.heap):
                if name.startswith("dom_") or name.startswith("map_") or name.startswith("dkel_") or name.startswith("dklen_"):
                    arr = st.heap[name]
                    st.heap[name] = z3.Store(arr, addr, fresh("hd", arr.sort().range()))
            for name in list(self.H.base):
                if (name.startswith("dom_") or name.startswith("map_") or name.startswith("dkel_") or name.startswith("dklen_")) and name not in st.heap:
                    arr = self.H.base[name]
                    st.heap[name] = z3.Store(arr, addr, fresh("hd", arr.sort().range()))

        elif region.startswith("field:"):
            f = region[6:]
            pref = f"f_{f}_" if f != "*" else "f_"
            for name in list(set(st.heap) | set(self.H.base)):
                if name.startswith(pref) and not name.startswith("f___"):
                    arr = st.heap.get(name, self.H.base.get(name))
                    st.heap[name] = z3.Store(arr, addr, fresh("hf", arr.sort().range()))
        else:
            raise Unsupported(f"havoc region {region}")

    def havoc_fresh(self, st: State, since):
        """Everything allocated at addresses >= `since` becomes unknown (loop cut / callee allocation)."""
        a = z3.Int("hv_a")
        for name in list(set(st.heap) | set(self.H.base)):
            arr = st.heap.get(name, self.H.base.get(name))
            f = fresh("hfr_" + name, arr.sort())
            st.heap[name] = z3.Lambda([a], z3.If(a < since, arr[a], f[a]))
