"""Sidecar contract records and the registry the executor consults.

Contracts are keyed by qualified name (``Class.method`` or ``function``), never by line number.
Clause texts are Python expressions in the spec language (see engine.SpecEval): parameters by name,
``result``, ``old(e)``, ``forall(lo, hi, lambda k: e)``, ``exists(lo, hi, lambda k: e)``,
``implies(a, b)``, ``iff(a, b)`` and the spec functions registered in engine.SPEC_FUNCS.
The same text is evaluated symbolically by the prover and natively by pyvc.native.
"""
from __future__ import annotations

from dataclasses import dataclass, field


@dataclass
class Loop:
    invariants: dict[str, str] = field(default_factory=dict)
    modifies: list[str] = field(default_factory=list)
    decreases: str | None = None
    ghost_init: dict[str, str] = field(default_factory=dict)


@dataclass
class Lemma:
    """Induction lemma: forall n in [lo, hi]: body(n).  Proved as base + step, then assumed."""

    var: str
    lo: str
    hi: str
    body: str


@dataclass
class Contract:
    qualname: str
    file: str | None = None  # repo-relative path; None = external (assumed, never verified)
    src: str | None = None  # name inside the source file when it differs from the registry key
    params: dict[str, str] = field(default_factory=dict)
    returns: str | None = None
    requires: dict[str, str] = field(default_factory=dict)
    ensures: dict[str, str] = field(default_factory=dict)
    raises: dict[str, str] = field(default_factory=dict)  # exception class -> condition (spec text over entry state)
    modifies: list[str] = field(default_factory=list)
    loops: dict[int, Loop] = field(default_factory=dict)
    lemmas: dict[str, Lemma] = field(default_factory=dict)
    caller_env: list[str] = field(default_factory=list)  # ghost parameters: names of the CALLER's scope the clauses may mention (higher-order interfaces)
    pure: bool = False  # result is an (uninterpreted) function of the arguments: equal arguments give equal results
    captures_only: bool = False  # only the closure-cell (late binding) obligations are generated for this unit
    ghost_entry: str = ""  # ghost statements executed on entry (after the preconditions are assumed)
    yield_asserts: dict[str, str] = field(default_factory=dict)  # goals at every `yield` of the unit (`yielded` = the value; locals visible)
    proves: dict[str, str] = field(default_factory=dict)  # extra goals at every return point; may mention locals/ghosts; not exported to callers
    post_lemmas: dict[str, Lemma] = field(default_factory=dict)  # induction lemmas proved at each return point (may mention locals)
    props: list[str] = field(default_factory=list)
    inline: bool = False
    fresh_result: bool = False  # result (and what it owns) is allocated by the call
    defaults: dict[str, str] = field(default_factory=dict)
    verify: bool = True  # False: interface contract only (abstract method)
    note: str = ""
    assumes: dict[str, str] = field(default_factory=dict)  # extra assumptions (listed in evidence)
    allocates: bool = True  # may allocate (top may grow)
    overrides: str | None = None  # qualname of the interface contract this unit must also satisfy
    witness: str | None = None  # name of a native witness builder in specs (optional)
    consumes: list[str] = field(default_factory=list)  # iterable parameters the call iterates (one-shot ones are exhausted)
    typevars: list[str] = field(default_factory=list)  # generic kind variables (instantiated per call site)
    witnesses: dict[str, tuple] = field(default_factory=dict)  # name -> (ghost variable, kind): existential ghost lists
    native_ensures: dict[str, str | None] = field(default_factory=dict)  # label -> native variant of a clause (None: skip)
    locals: dict[str, str] = field(default_factory=dict)  # kind hints for locals initialised with empty containers

    @property
    def srcname(self) -> str:
        return self.src or self.qualname

    @property
    def external(self) -> bool:
        return self.file is None

    @property
    def clsname(self) -> str | None:
        return self.qualname.rsplit(".", 1)[0] if "." in self.qualname else None

    @property
    def fname(self) -> str:
        return self.qualname.rsplit(".", 1)[-1]


@dataclass
class ClassInfo:
    name: str
    bases: list[str] = field(default_factory=list)
    fields: dict[str, str] = field(default_factory=dict)  # field -> kind text
    file: str | None = None
    init_fields: list[str] | None = None  # dataclass positional order (None: use __init__ contract / inline)
    src: str | None = None  # class name in the source file when it differs from the registry key
    field_defaults: dict[str, str] = field(default_factory=dict)
    optional: tuple = ()  # attributes that may be absent (hasattr is symbolic)
    owned: tuple = ()  # fields holding an object owned exclusively by this instance (never shared, never reassigned)

    @property
    def srcname(self) -> str:
        return self.src or self.name


class Registry:
    def __init__(self):
        self.contracts: dict[str, Contract] = {}
        self.classes: dict[str, ClassInfo] = {}
        self.opaque: set[str] = set()
        self.consts: dict[str, object] = {}
        self.maplike: set[str] = set()  # classes whose .map(f, xs) is assumed to be [f(x) for x in xs]
        self.disjoint: set[tuple[str, str]] = set()  # pairs of classes declared to have no common instance (no class inherits from both)
        self.hooks: dict[str, object] = {}  # vocabulary hooks (e.g. "box_tuple": definition facts of a boxed tuple)
        self.exc_bases: dict[str, list[str]] = {
            "Exception": [],
            "AssertionError": ["Exception"],
            "IndexError": ["Exception"],
            "KeyError": ["Exception"],
            "ValueError": ["Exception"],
            "ZeroDivisionError": ["Exception"],
            "UnboundLocalError": ["Exception"],
            "NotImplementedError": ["Exception"],
            "TypeError": ["Exception"],
            "AttributeError": ["Exception"],
            "StopIteration": ["Exception"],
            "GeneticEngineError": ["Exception"],
            "SynthesisException": ["Exception"],
            "IndividualNotEvaluatedException": ["Exception"],
        }

    # -- declaration helpers ------------------------------------------------------------------
    def contract(self, qualname: str, **kw) -> Contract:
        loops = kw.pop("loops", {})
        loops2 = {}
        for k, v in loops.items():
            loops2[k] = v if isinstance(v, Loop) else Loop(**v)
        lem = {k: (v if isinstance(v, Lemma) else Lemma(*v)) for k, v in kw.pop("lemmas", {}).items()}
        kw["post_lemmas"] = {k: (v if isinstance(v, Lemma) else Lemma(*v)) for k, v in kw.pop("post_lemmas", {}).items()}
        for key in ("requires", "ensures", "raises", "assumes"):
            if key in kw and isinstance(kw[key], (list, tuple)):
                kw[key] = {f"{key[0]}{i}": t for i, t in enumerate(kw[key])}
        c = Contract(qualname=qualname, loops=loops2, lemmas=lem, **kw)
        self.opaque |= set(c.typevars)
        if qualname in self.contracts:
            raise ValueError(f"duplicate contract {qualname}")
        self.contracts[qualname] = c
        return c

    def cls(self, name: str, bases=(), fields=None, file=None, init_fields=None, src=None, field_defaults=None, optional=(), owned=()) -> ClassInfo:
        ci = ClassInfo(name, list(bases), dict(fields or {}), file, init_fields, src, dict(field_defaults or {}), tuple(optional), tuple(owned))
        self.classes[name] = ci
        return ci

    # -- lookups --------------------------------------------------------------------------------
    def class_for(self, file: str | None, name: str) -> str | None:
        """Registry key of the class called `name` in source file `file`."""
        for key, ci in self.classes.items():
            if ci.file == file and ci.srcname == name:
                return key
        if name in self.classes and self.classes[name].src is None:
            return name
        return None

    def mro(self, cls: str) -> list[str]:
        out, todo = [], [cls]
        while todo:
            c = todo.pop(0)
            if c in out:
                continue
            out.append(c)
            if c in self.classes:
                todo.extend(self.classes[c].bases)
        return out

    def is_subclass(self, c: str, base: str) -> bool:
        return base in self.mro(c)

    def lookup_method(self, cls: str, m: str) -> Contract | None:
        for c in self.mro(cls):
            q = f"{c}.{m}"
            if q in self.contracts:
                return self.contracts[q]
        return None

    def field_kind(self, cls: str, f: str) -> str | None:
        for c in self.mro(cls):
            ci = self.classes.get(c)
            if ci and f in ci.fields:
                return ci.fields[f]
        return None

    def exc_is(self, e: str, base: str) -> bool:
        if e == base:
            return True
        return any(self.exc_is(b, base) for b in self.exc_bases.get(e, []))


REG = Registry()
