"""Re-execute a replay file (written by a check on VIOLATION) against the real code in /repo."""
from __future__ import annotations

import json
import sys

from pyvc.run import load_specs


def main():
    path = sys.argv[1]
    d = json.load(open(path))
    print(f"property {d.get('property')}  obligation {d.get('key')}  unit {d.get('unit')}  ({d.get('file')}:{d.get('line')})")
    rp = d.get("replay") or {}
    recipe = rp.get("recipe")
    if not recipe:
        print("no input recipe recorded (no-failing-input-found); solver output / note:")
        print(json.dumps({k: v for k, v in d.items() if k != "replay"}, indent=1)[:4000])
        print(json.dumps(rp, indent=1)[:4000])
        sys.exit(2)
    from pyvc import witness, native

    reg = load_specs()
    c = reg.contracts[d["unit"]]
    args = {n: witness.RecipeLoader().load(v) for n, v in recipe.items()}
    out = native.run_native(c, reg, args)
    print("arguments:", {n: repr(v)[:200] for n, v in args.items()})
    print("raised:", out.raised, "(allowed)" if out.raise_allowed else "(not allowed by the contract)")
    print("result:", repr(out.result)[:300])
    print("failed clauses:", out.failed_clauses)
    if out.traceback:
        print(out.traceback)
    sys.exit(1 if out.violated else 0)


if __name__ == "__main__":
    main()
