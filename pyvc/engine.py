"""pyvc executor: verifies one unit (a real function of /repo, re-read from source) against its contract."""
from __future__ import annotations

import ast
import hashlib
import os
import sys
import time
import z3

from . import ops
from .kinds import V, INT, BOOL, REAL, NONE, FN, Opaque, Ref, Tup, ListT, DictT, ObjT, Kind, parse_kind, is_list, is_dict, is_obj
from .state import State, Unsupported, Obligation, HeapModel, fresh, I
from .engine_heap import HeapMixin
from .engine_expr import ExprMixin, FuncRef
from .engine_call import CallMixin, SPEC_FUNCS
from .engine_contract import ContractMixin, parse_spec
from .engine_stmt import StmtMixin

REPO = os.environ.get("PYVC_REPO", "/repo")

_module_cache: dict[str, dict] = {}


def load_module_file(file: str) -> dict:
    """Parse a repository source file (fresh on every process run) into defs / consts / imports."""
    key = os.path.join(REPO, file)
    if key in _module_cache:
        return _module_cache[key]
    src = open(key).read()
    tree = ast.parse(src)
    defs, consts, funcs, imports, classes = {}, {}, set(), set(), {}
    for node in tree.body:
        if isinstance(node, ast.FunctionDef):
            defs[node.name] = node
            funcs.add(node.name)
        elif isinstance(node, ast.ClassDef):
            classes[node.name] = node
            for sub in node.body:
                if isinstance(sub, ast.FunctionDef):
                    defs[f"{node.name}.{sub.name}"] = sub
        elif isinstance(node, ast.Assign) and len(node.targets) == 1 and isinstance(node.targets[0], ast.Name):
            if isinstance(node.value, ast.Constant) and isinstance(node.value.value, (int, float, str, bool)):
                consts[node.targets[0].id] = node.value.value
        elif isinstance(node, ast.Import):
            for a in node.names:
                imports.add((a.asname or a.name).split(".")[0])
        elif isinstance(node, ast.ImportFrom):
            for a in node.names:
                imports.add(a.asname or a.name)
    # nested functions: "outer.<locals>.inner"
    def index_nested(prefix, fn):
        for sub_ in ast.walk(fn):
            if isinstance(sub_, ast.FunctionDef) and sub_ is not fn:
                defs.setdefault(f"{prefix}.<locals>.{sub_.name}", sub_)

    for key, fn in list(defs.items()):
        index_nested(key, fn)
    m = {"src": src, "tree": tree, "defs": defs, "consts": consts, "funcs": funcs, "imports": imports, "classes": classes}
    _module_cache[key] = m
    return m


def unit_source_hash(file: str, qualname: str) -> tuple[str, int, int]:
    m = load_module_file(file)
    fd = m["defs"][qualname]
    seg = ast.get_source_segment(m["src"], fd)
    return hashlib.sha256(seg.encode()).hexdigest(), fd.lineno, fd.end_lineno


class _CapturesOnly(Exception):
    pass


class UnitResult:
    def __init__(self, contract):
        self.contract = contract
        self.obligations: list[Obligation] = []
        self.unsupported: str | None = None
        self.error: str | None = None
        self.inlined: set[str] = set()
        self.externals: set[str] = set()
        self.used_contracts: set[str] = set()
        self.assumptions: set[str] = set()
        self.dropped: set[str] = set()
        self.axioms: list = []
        self.sha = None
        self.lines = None
        self.paths = 0
        self.gen_s = 0.0
        self.vacuous = False
        self.canary = None
        self.witness_info = None


class Executor(HeapMixin, ExprMixin, CallMixin, ContractMixin, StmtMixin):
    max_paths = 400
    unroll_limit = 6

    def __init__(self, reg, contract):
        self.reg = reg
        self.c = contract
        self.H = HeapModel()
        self.obligations: list[Obligation] = []
        self.raise_buffer = []
        self.inlined, self.externals_used, self.used_contracts = set(), set(), set()
        self.assumptions_noted, self.dropped = set(), set()
        self.axioms = []
        self.recdefs = {}
        self._mod_values = {}
        self.synthetic_loops = {}
        self._synthetic_keep = []
        self.inline_depth = 0
        self.in_comprehension = 0
        self.comp_oracle_stack = []
        self.no_frame = False
        self.allowed_writes = []
        self.class_ids = {k: i + 1 for i, k in enumerate(sorted(reg.classes))}
        self.local_funcs = {}
        self.cur_state = None
        self.float_max = z3.RealVal(repr(sys.float_info.max))
        self._obl_ids = {}
        self.top0 = z3.Int("top0")
        self.loop_ordinals = {}
        self._solver = None

    # ------------------------------------------------------------------ infrastructure
    def load_module(self, file):
        return load_module_file(file)

    def note_assumption(self, text):
        self.assumptions_noted.add(text)

    def path_id(self, st: State) -> str:
        return hashlib.sha1("|".join(st.trace).encode()).hexdigest()[:8] if st.trace else "entry"

    def oblige(self, st: State, kind, label, goal, node=None, exc=None, note=""):
        if getattr(st, "spec", False):
            return
        if getattr(self, "ghost_mode", False):
            st.assume(goal)
            return
        gs = z3.simplify(goal)
        if z3.is_true(gs):
            return
        # implicit exception caught by an enclosing handler: fork instead of obliging
        if exc is not None and any(any(self.reg.exc_is(exc, h) for h in hs) for hs in st.handlers):
            s2 = st.fork()
            s2.assume(z3.Not(goal))
            if self.feasible(s2):
                s2.trace.append(f"implicit-{exc}")
                self.raise_buffer.append((exc, s2, node, "implicit"))
            st.assume(goal)
            return
        pid = self.path_id(st)
        base = f"{label}@{pid}"
        cnt = self._obl_ids.get((kind, base), 0)
        self._obl_ids[(kind, base)] = cnt + 1
        lab = base if cnt == 0 else f"{base}.{cnt}"
        ob = Obligation(self.c.qualname, kind, lab, st.pc, goal, getattr(node, "lineno", None), note=note or (exc or ""), path="|".join(st.trace))
        ob.draws = [r.term for (_q, _s, r) in st.draws]
        self.obligations.append(ob)
        st.assume(goal)

    def solver_quick(self, pc) -> bool:
        """False only when the path condition is certainly unsatisfiable."""
        s = z3.Solver()
        s.set("timeout", 400)
        for a in self.axioms:
            s.add(a)
        s.add(*pc)
        return s.check() != z3.unsat

    # ------------------------------------------------------------------ entry state
    def make_entry(self, fd: ast.FunctionDef) -> tuple[State, dict]:
        c = self.c
        st = State()
        st.spec = False
        st.hbase = self.H.base
        st.top = self.top0
        st.assume(self.top0 >= 1)
        pnames = [a.arg for a in fd.args.posonlyargs + fd.args.args + fd.args.kwonlyargs]
        env = {}
        for n in pnames:
            if n not in c.params:
                raise Unsupported(f"parameter {n} of {c.qualname} has no kind in its contract")
        # contract parameters that are not in the signature are closure variables of a nested function
        pnames = pnames + [n for n in c.params if n not in pnames]
        for n in pnames:
            ks = c.params[n]
            kind = parse_kind(ks, self.reg.opaque)
            v = self.fresh_value("p_" + n, kind)
            env[n] = v
            if isinstance(kind, Ref):
                st.assume(self.ref_wf(st, v, self.top0))
        if fd.args.kwarg is not None:
            env[fd.args.kwarg.arg] = V(FN, FuncRef("kwargs", items={}))
        if fd.args.vararg is not None:
            raise Unsupported("*args parameter")
        st.env = dict(env)
        # dict parameters: representation invariant of the ghost key list
        for n, v in env.items():
            if is_dict(v.kind) and v.kind.target.k is not None:
                st.assume(z3.Implies(v.term != 0, self.dict_wf(st, v)))
        return st, env

    # ------------------------------------------------------------------ main entry
    def verify(self) -> UnitResult:
        t0 = time.time()
        res = UnitResult(self.c)
        c = self.c
        try:
            mod = self.load_module(c.file)
            fd = mod["defs"].get(c.srcname)
            if fd is None:
                raise Unsupported(f"{c.qualname} not found in {c.file}")
            res.sha, a, b = unit_source_hash(c.file, c.srcname)
            res.lines = (a, b)
            self.file, self.module = c.file, mod
            self.module_consts, self.module_funcs, self.module_imports = mod["consts"], mod["funcs"], mod["imports"]
            self.cur_qual = c.qualname
            # loop ordinals in source order (nested functions excluded)
            loops = [n for n in ast.walk(fd) if isinstance(n, (ast.For, ast.While))]
            loops.sort(key=lambda n: (n.lineno, n.col_offset))
            self.loop_ordinals = {id(n): i for i, n in enumerate(loops)}
            from .capture import analyse as _capture

            for lab, holds, line, note in _capture(fd):
                fake = type("N", (), {"lineno": line})()
                st_c = State()
                st_c.top = self.top0
                st_c.hbase = self.H.base
                if holds:
                    self.obligations.append(Obligation(c.qualname, "capture", lab + "@entry", [], z3.BoolVal(True), line, note=note))
                else:
                    self.obligations.append(Obligation(c.qualname, "capture", lab + "@entry", [], z3.BoolVal(False), line, note=note))
            if c.captures_only:
                res.paths = 1
                raise _CapturesOnly()
            if ast.get_docstring(fd):
                self.dropped.add("docstring")
            self.dropped.add("type annotations")
            st, env = self.make_entry(fd)
            self.entry_env = dict(env)
            # preconditions
            for lab, txt in c.requires.items():
                st.assume(self.spec_assume(txt, env, st))
            for lab, txt in c.assumes.items():
                st.assume(self.spec_bool(txt, env, st))
                self.note_assumption(f"{c.qualname}: assumed `{txt}`")
            if c.overrides:
                ic = self.reg.contracts[c.overrides]
                s_if = st.fork()
                s_if.pc = [p for p in st.pc]
                # interface precondition must imply the unit's precondition
                ienv = {n: env[n] for n in ic.params if n in env}
                pre_if = [self.spec_bool(t, ienv, st) for t in ic.requires.values()]
            self.entry_state = st.fork()
            res.vacuous = not self.solver_quick(st.pc)
            # frame
            for entry in c.modifies:
                if entry == "fresh":
                    continue
                self.allowed_writes.append(self.resolve_mod(entry, env, st))
            if c.ghost_entry:
                self.ghost_exec(c.ghost_entry, st)
            # lemmas
            for name, lem in c.lemmas.items():
                self.prove_lemma(name, lem, env, st)
            is_gen = any(isinstance(n, (ast.Yield, ast.YieldFrom)) for n in self.own_nodes(fd))
            if is_gen:
                rk = parse_kind(c.returns, self.reg.opaque) if c.returns else None
                ek = rk.target.elem if rk is not None and is_list(rk) else None
                self.no_frame = True
                st.out = self.new_list(st, ek)
                self.no_frame = False
                self.note_assumption("generator modelled by its yield sequence; consumer assumed to exhaust it")
            outs = list(self.exec_block(fd.body, st))
            for exc, s2, node, origin in self.drain_raises():
                outs.append(("raise", (exc, node, origin), s2))
            res.paths = len(outs)
            n_ret = 0
            for kind, val, s in outs:
                if kind in ("next", "return"):
                    n_ret += 1
                    result = val if kind == "return" else V(NONE, None)
                    if is_gen:
                        result = s.out
                    self.check_post(s, env, result)
                elif kind == "raise":
                    self.check_raise(s, env, val)
                else:
                    raise Unsupported(f"{kind} outside loop")
            res.n_return_paths = n_ret
            if not outs and not res.vacuous:
                raise Unsupported("no feasible path reaches the end of the unit (inconsistent context: contracts or requires contradict each other)")
        except _CapturesOnly:
            pass
        except Unsupported as ex:
            res.unsupported = str(ex)
        except z3.Z3Exception as ex:
            res.unsupported = f"z3 error while generating VCs: {ex}"
        except RecursionError:
            res.unsupported = "recursion limit while generating VCs"
        res.obligations = self.obligations
        res.inlined, res.externals, res.used_contracts = self.inlined, self.externals_used, self.used_contracts
        res.assumptions, res.dropped = self.assumptions_noted, self.dropped
        res.axioms = list(self.axioms) + ops.str_distinct_axioms()
        res.gen_s = time.time() - t0
        res.recdefs = self.recdefs
        res.entry_env = getattr(self, "entry_env", {})
        res.heap_base = self.H.base
        res.cover = len(getattr(self, "cover_states", []))
        return res

    def own_nodes(self, fd):
        """AST nodes of fd excluding nested function bodies."""
        todo = list(fd.body)
        while todo:
            n = todo.pop()
            yield n
            for ch in ast.iter_child_nodes(n):
                if isinstance(ch, (ast.FunctionDef, ast.Lambda, ast.ClassDef)):
                    continue
                todo.append(ch)

    def check_post(self, s: State, env, result: V):
        c = self.c
        rk = None
        if c.returns and c.returns != "any":
            rk = parse_kind(c.returns, self.reg.opaque)
            try:
                if rk == NONE and result.kind == NONE:
                    pass
                else:
                    result = self.coerce_arg(result, rk, s, "result")
            except Unsupported:
                self.oblige(s, "post", "result-kind", z3.BoolVal(False), None, note=f"returns {result.kind}, contract says {rk}")
                return
        env2 = dict(env)
        for nm, val in s.env.items():
            if nm.startswith(("SUMARG", "SORT", "MAXARG")):
                env2[nm] = val
        env2["result"] = result
        if c.proves:
            lenv = dict(s.env)
            lenv.update(env2)
            for lab, txt in c.proves.items():
                if lab.startswith("pre_"):
                    g = self.spec_goal(txt, lenv, s, self.entry_state)
                    self.oblige(s, "post", "proves." + lab, g, None, note=txt)
        for name, lem in c.post_lemmas.items():
            lenv = dict(s.env)
            lenv.update(env2)
            self.prove_lemma(name, lem, lenv, s)
        for wname, (gv, wk) in c.witnesses.items():
            if gv not in s.env or s.env[gv].bound is not None:
                # the witness variable does not exist on this path: the clause must hold for every value
                env2[wname] = self.fresh_value("anywit_" + wname, parse_kind(wk, self.reg.opaque), s)
            else:
                env2[wname] = s.env[gv]
        if not c.allocates:
            self.oblige(s, "post", "no-allocation", s.top == self.top0, None, note="contract says the unit does not allocate")
        clauses = list(c.ensures.items())
        if c.proves:
            lenv = dict(s.env)
            lenv.update(env2)
            for lab, txt in c.proves.items():
                if lab.startswith("pre_"):
                    continue  # proved before the post-lemmas
                g = self.spec_goal(txt, lenv, s, self.entry_state)
                self.oblige(s, "post", "proves." + lab, g, None, note=txt)
        if c.overrides:
            ic = self.reg.contracts[c.overrides]
            clauses += [("iface." + k, v) for k, v in ic.ensures.items()]
        for lab, txt in clauses:
            g = self.spec_goal(txt, env2, s, self.entry_state)
            self.oblige(s, "post", lab, g, None, note=txt)
        self.cover_states = getattr(self, "cover_states", [])
        s.ghost["__result__"] = result
        self.cover_states.append(s)

    def check_raise(self, s: State, env, val):
        exc, node, origin = val
        c = self.c
        conds = []
        for e, cond in c.raises.items():
            if self.reg.exc_is(exc, e):
                conds.append(self.spec_bool(cond, env, self.entry_state))
        goal = z3.Or(conds) if conds else z3.BoolVal(False)
        self.oblige(s, "raise", f"{exc}", goal, node, note=f"raised by {origin or 'raise statement'}")

    # ------------------------------------------------------------------ lemmas
    def prove_lemma(self, name, lem, env, st: State):
        lo = ops.to_int_term(self.spec_eval(lem.lo, env, st))
        hi = ops.to_int_term(self.spec_eval(lem.hi, env, st))
        n = fresh("lem_" + lem.var, I)

        def body_at(t):
            e2 = dict(env)
            e2[lem.var] = V(INT, t)
            return self.spec_bool(lem.body, e2, st)

        base = st.fork()
        self.oblige(base, "lemma", f"{name}.base", z3.Implies(lo <= hi, body_at(lo)), None, note=lem.body)
        step = st.fork()
        step.assume(z3.And(lo <= n, n < hi))
        step.assume(body_at(n))
        self.oblige(step, "lemma", f"{name}.step", body_at(n + 1), None, note=lem.body)
        q = z3.Int("lemq_" + lem.var)
        e2 = dict(env)
        e2[lem.var] = V(INT, q)
        st.assume(z3.ForAll([q], z3.Implies(z3.And(lo <= q, q <= hi), self.spec_bool(lem.body, e2, st))))
