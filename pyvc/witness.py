"""From a solver model to a JSON input recipe, and from a recipe to real Python inputs."""
from __future__ import annotations

import importlib
import z3

from .kinds import INT, BOOL, REAL, NONE, FN, Opaque, Ref, Tup, ListT, DictT, ObjT, parse_kind, is_list
from .state import I

MAX_LEN = 40


class CannotBuild(Exception):
    pass


class RecipeBuilder:
    def __init__(self, reg, model, heap_base, draws):
        self.reg, self.m, self.base = reg, model, heap_base
        self.draws = draws
        self.memo = {}

    def ev(self, t):
        return self.m.eval(t, model_completion=True)

    def num(self, t):
        v = self.ev(t)
        if z3.is_int_value(v):
            return v.as_long()
        if z3.is_rational_value(v):
            return v.numerator_as_long() / v.denominator_as_long()
        if z3.is_algebraic_value(v):
            return float(v.approx(10).numerator_as_long()) / float(v.approx(10).denominator_as_long())
        raise CannotBuild(f"non-numeric model value {v}")

    def arr(self, name):
        if name not in self.base:
            return None
        return self.base[name]

    def build(self, kind, term):
        if kind == INT:
            return int(self.num(term))
        if kind == REAL:
            return float(self.num(term))
        if kind == BOOL:
            return bool(z3.is_true(self.ev(term)))
        if kind == NONE:
            return None
        if isinstance(kind, Tup):
            return {"__tuple__": [self.build(k, t.term) for k, t in zip(kind.items, term)]}
        if isinstance(kind, Opaque):
            return {"__tok__": f"{kind.sname}:{self.ev(term)}"}
        if isinstance(kind, Ref):
            addr = int(self.num(term))
            if addr == 0:
                return None
            key = (kind.name, addr)
            if key in self.memo:
                return {"__alias__": self.memo[key]}
            ident = f"o{len(self.memo)}"
            self.memo[key] = ident
            t = kind.target
            if isinstance(t, ListT):
                la = self.arr("len")
                n = int(self.num(la[addr])) if la is not None else 0
                if n < 0 or n > MAX_LEN:
                    raise CannotBuild(f"list length {n} out of replay range")
                items = []
                if n and t.elem is not None:
                    from .state import HeapModel

                    ea = self.arr(HeapModel.n_el(t.elem.sort()))
                    for i in range(n):
                        if ea is None:
                            items.append(self.default(t.elem))
                        else:
                            items.append(self.build_elem(t.elem, ea[addr][i]))
                r = {"__list__": items, "id": ident}
                if t.oneshot_possible:
                    from .state import HeapModel

                    fa = self.arr(HeapModel.n_fld("__oneshot", z3.BoolSort()))
                    r["oneshot"] = bool(z3.is_true(self.ev(fa[addr]))) if fa is not None else False
                return r
            if isinstance(t, DictT):
                from .state import HeapModel

                if t.k is None:
                    return {"__dict__": [], "id": ident}
                dl = self.arr(HeapModel.n_dklen(t.k.sort()))
                if dl is None:
                    return {"__dict__": [], "id": ident}
                n = int(self.num(dl[addr]))
                if n < 0 or n > MAX_LEN:
                    raise CannotBuild(f"dict size {n} out of replay range")
                ka = self.arr(HeapModel.n_dkel(t.k.sort()))
                ma = self.arr(HeapModel.n_map(t.k.sort(), t.v.sort()))
                pairs = []
                for i in range(n):
                    kt = ka[addr][i]
                    kj = self.build_elem(t.k, kt)
                    pairs.append([kj, self.build_elem(t.v, ma[addr][kt]) if ma is not None else self.default(t.v)])
                return {"__dict__": pairs, "id": ident}
            if isinstance(t, ObjT):
                return self.build_obj(t.cls, addr, ident)
        raise CannotBuild(f"kind {kind}")

    def build_elem(self, kind, term):
        if isinstance(kind, Tup):
            return {"__tuple__": [self.build_elem(k, acc(term)) for k, acc in zip(kind.items, kind.accs())]}
        return self.build(kind, term)

    def default(self, kind):
        if kind == INT:
            return 0
        if kind == REAL:
            return 0.0
        if kind == BOOL:
            return False
        return None

    def build_obj(self, cls, addr, ident):
        from .state import HeapModel

        if self.reg.is_subclass(cls, "RandomSource") and cls in ("RandomSource",):
            return {"__scripted__": [self.num(t) for t in self.draws], "id": ident}
        fields = {}
        for c in reversed(self.reg.mro(cls)):
            ci = self.reg.classes.get(c)
            if ci is None:
                continue
            for f, ks in ci.fields.items():
                fk = parse_kind(ks, self.reg.opaque)
                if fk in (FN, NONE):
                    continue
                fa = self.arr(HeapModel.n_fld(f, fk.sort()))
                if fa is None:
                    fields[f] = self.default(fk) if not isinstance(fk, Ref) else self.stub(fk)
                else:
                    fields[f] = self.build(fk, fa[addr])
        ci = self.reg.classes.get(cls)
        return {"__object__": ci.srcname if ci else cls, "file": ci.file if ci else None, "fields": fields, "id": ident}

    def stub(self, kind):
        t = kind.target
        if isinstance(t, ListT):
            return {"__list__": [], "id": f"stub{len(self.memo)}"}
        if isinstance(t, ObjT) and self.reg.is_subclass(t.cls, "RandomSource"):
            return {"__scripted__": [self.num(x) for x in self.draws], "id": f"stub{len(self.memo)}"}
        return None


class Token:
    def __init__(self, name):
        self.name = name

    def __repr__(self):
        return f"<{self.name}>"

    def __deepcopy__(self, memo):  # opaque values stand for immutable atoms (types, names)
        return self

    def __copy__(self):
        return self


class RecipeLoader:
    def __init__(self, native_classes=None):
        self.objs = {}
        self.tokens = {}
        self.native_classes = native_classes or {}

    def load(self, r):
        if isinstance(r, dict):
            if "__alias__" in r:
                return self.objs[r["__alias__"]]
            if "__tok__" in r:
                name = r["__tok__"]
                if name.startswith("Str:"):
                    return name
                return self.tokens.setdefault(name, Token(name))
            if "__tuple__" in r:
                return tuple(self.load(x) for x in r["__tuple__"])
            if "__list__" in r:
                lst = []
                self.objs[r["id"]] = lst
                lst.extend(self.load(x) for x in r["__list__"])
                if r.get("oneshot"):
                    it = iter(lst)
                    self.objs[r["id"]] = it
                    return it
                return lst
            if "__dict__" in r:
                d = {}
                self.objs[r["id"]] = d
                for k, v in r["__dict__"]:
                    d[self.load(k)] = self.load(v)
                return d
            if "__scripted__" in r:
                from .native import scripted_source_class

                s = scripted_source_class()(r["__scripted__"])
                self.objs[r["id"]] = s
                return s
            if "__object__" in r:
                cls = self.resolve_class(r["__object__"], r.get("file"))
                import inspect

                if inspect.isabstract(cls):
                    cls = type(cls.__name__ + "Stub", (cls,), {m: (lambda self, *a, **k: None) for m in cls.__abstractmethods__})
                o = object.__new__(cls)
                self.objs[r["id"]] = o
                for f, v in r["fields"].items():
                    try:
                        object.__setattr__(o, f, self.load(v))
                    except Exception:
                        pass
                return o
        return r

    def resolve_class(self, name, file):
        if name in self.native_classes:
            return self.native_classes[name]
        if file is None:
            import types

            return types.SimpleNamespace
        modname = file[:-3].replace("/", ".")
        if modname.endswith(".__init__"):
            modname = modname[: -len(".__init__")]
        mod = importlib.import_module(modname)
        return getattr(mod, name)


def recipe_from_model(reg, contract, entry_env, heap_base, model, draws) -> dict:
    b = RecipeBuilder(reg, model, heap_base, draws)
    out = {}
    for n, v in entry_env.items():
        if v.kind == FN:
            continue
        out[n] = b.build(v.kind, v.term)
    return out
