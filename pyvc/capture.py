"""Closure-cell obligations (late binding).  Python closures capture variables, not values: a lambda / nested
function / generator created inside a loop or comprehension that refers to a variable the loop re-binds, and
that outlives the iteration (stored in a container or attribute, returned, yielded), sees the LAST value.
For every such closure in a unit the obligation `capture:<name>` is generated; it holds iff the closure binds the
variable at creation time (default argument) or does not outlive the iteration (it is an argument of a call
that consumes it at once -- recorded as an assumption)."""
from __future__ import annotations

import ast


def _loads(node, bound):
    out = set()

    class V(ast.NodeVisitor):
        def visit_Name(self, n):
            if isinstance(n.ctx, ast.Load) and n.id not in bound:
                out.add(n.id)

        def visit_Lambda(self, n):
            inner = set(bound) | {a.arg for a in n.args.args + n.args.kwonlyargs}
            for d in n.args.defaults + [d for d in n.args.kw_defaults if d is not None]:
                self.visit(d)
            out.update(_loads(n.body, inner))

        def visit_ListComp(self, n):
            self._comp(n, [n.elt])

        def visit_SetComp(self, n):
            self._comp(n, [n.elt])

        def visit_GeneratorExp(self, n):
            self._comp(n, [n.elt])

        def visit_DictComp(self, n):
            self._comp(n, [n.key, n.value])

        def _comp(self, n, elts):
            inner = set(bound)
            for g in n.generators:
                out.update(_loads(g.iter, inner))
                inner |= {x.id for x in ast.walk(g.target) if isinstance(x, ast.Name)}
                for c in g.ifs:
                    out.update(_loads(c, inner))
            for e in elts:
                out.update(_loads(e, inner))

    V().visit(node)
    return out


def free_vars(closure) -> set[str]:
    if isinstance(closure, ast.Lambda):
        params = {a.arg for a in closure.args.args + closure.args.kwonlyargs}
        if closure.args.vararg:
            params.add(closure.args.vararg.arg)
        if closure.args.kwarg:
            params.add(closure.args.kwarg.arg)
        return _loads(closure.body, params)
    if isinstance(closure, ast.FunctionDef):
        params = {a.arg for a in closure.args.args + closure.args.kwonlyargs}
        assigned = {n.id for n in ast.walk(closure) if isinstance(n, ast.Name) and isinstance(n.ctx, ast.Store)}
        out = set()
        for s in closure.body:
            out |= _loads(s, params | assigned)
        return out
    if isinstance(closure, ast.GeneratorExp):
        return _loads(closure, set())
    return set()


def _rebinds(loop) -> set[str]:
    """Names (re)bound by each iteration of a loop / comprehension."""
    names = set()
    if isinstance(loop, (ast.For, ast.AsyncFor)):
        names |= {x.id for x in ast.walk(loop.target) if isinstance(x, ast.Name)}
        for s in loop.body:
            names |= {n.id for n in ast.walk(s) if isinstance(n, ast.Name) and isinstance(n.ctx, ast.Store)}
    elif isinstance(loop, ast.While):
        for s in loop.body:
            names |= {n.id for n in ast.walk(s) if isinstance(n, ast.Name) and isinstance(n.ctx, ast.Store)}
    elif isinstance(loop, (ast.ListComp, ast.SetComp, ast.DictComp, ast.GeneratorExp)):
        for g in loop.generators:
            names |= {x.id for x in ast.walk(g.target) if isinstance(x, ast.Name)}
    return names


def analyse(fd: ast.FunctionDef):
    """Yields (label, holds, lineno, note) for every closure created inside a loop/comprehension of fd."""
    parents = {}
    for n in ast.walk(fd):
        for c in ast.iter_child_nodes(n):
            parents[c] = n
    ordinal = 0
    for n in ast.walk(fd):
        if not isinstance(n, (ast.Lambda, ast.FunctionDef, ast.GeneratorExp)) or n is fd:
            continue
        # enclosing loops / comprehensions within fd (for a comprehension: only when n sits in its element, not its iterable)
        rebound = set()
        cur, child = parents.get(n), n
        while cur is not None and cur is not fd:
            if isinstance(cur, (ast.For, ast.While)) and child in cur.body:
                rebound |= _rebinds(cur)
            elif isinstance(cur, (ast.ListComp, ast.SetComp, ast.GeneratorExp)) and child is cur.elt:
                rebound |= _rebinds(cur)
            elif isinstance(cur, ast.DictComp) and (child is cur.key or child is cur.value):
                rebound |= _rebinds(cur)
            child, cur = cur, parents.get(cur)
        if not rebound:
            continue
        late = sorted(free_vars(n) & rebound)
        p = parents.get(n)
        consumed_at_once = isinstance(p, ast.Call) and (n in p.args or any(k.value is n for k in p.keywords))
        if isinstance(p, ast.keyword):
            pp = parents.get(p)
            consumed_at_once = isinstance(pp, ast.Call)
        name = getattr(n, "name", type(n).__name__.lower())
        label = f"{name}#{ordinal}"
        ordinal += 1
        if not late:
            yield label, True, n.lineno, "closure created in a loop binds no loop variable late"
        elif consumed_at_once:
            yield label, True, n.lineno, f"refers to loop variable(s) {late} but is an argument of a call (assumed to be consumed within the iteration)"
        else:
            yield label, False, n.lineno, f"closure outlives the iteration and reads loop variable(s) {late} at call time (late binding): every such closure sees the last value"
