"""Bounded stand-in for a single unit: used when the prover cannot decide a unit (unsupported construct or
solver unknown after a source change).  The SAME contract is evaluated natively on systematically enumerated
small inputs of the real function (all outcomes of the random oracle by DFS).  Never counted as proved."""
from __future__ import annotations

import itertools
import time

from .kinds import INT, BOOL, REAL, NONE, FN, Opaque, Ref, Tup, ListT, DictT, ObjT, parse_kind
from . import native, witness

INTS = [-2, 0, 1, 2, 3, 1001]
REALS = [0.0, 0.5, 1.0, 1.0 + 1e-12, 2.5, 100.0, 100.004]  # includes a near-tie: tolerances hidden in comparisons must show
MAXLEN = 3


def values(reg, kind, depth=0):
    """Small set of JSON recipes for a kind."""
    if kind == INT:
        return list(INTS)
    if kind == REAL:
        return list(REALS)
    if kind == BOOL:
        return [False, True]
    if kind == NONE:
        return [None]
    if isinstance(kind, Opaque):
        return [{"__tok__": f"{kind.sname}:v{i}"} for i in range(2)]
    if isinstance(kind, Tup):
        return [{"__tuple__": list(c)} for c in itertools.islice(itertools.product(*[values(reg, k, depth + 1)[:3] for k in kind.items]), 12)]
    if isinstance(kind, Ref):
        t = kind.target
        out = [None] if kind.optional else []
        if isinstance(t, ListT):
            el = values(reg, t.elem, depth + 1)[: (4 if depth == 0 else 2)] if t.elem is not None else [0]
            n = 0
            for ln in range(0, MAXLEN + 1 if depth == 0 else 2):
                for c in itertools.islice(itertools.product(el, repeat=ln), 40):
                    n += 1
                    out.append({"__list__": list(c), "id": f"l{depth}_{n}"})
            return out
        if isinstance(t, DictT):
            ks = values(reg, t.k, depth + 1)[:2]
            vs = [v for v in values(reg, t.v, depth + 1) if v is not None]
            # diverse shapes first: two keys in both insertion orders with different values, then smaller ones
            if len(ks) > 1 and len(vs) >= 2:
                out.append({"__dict__": [[ks[0], vs[-1]], [ks[1], vs[-2]]], "id": f"d{depth}_ab"})
                out.append({"__dict__": [[ks[1], vs[1 % len(vs)]], [ks[0], vs[2 % len(vs)]]], "id": f"d{depth}_ba"})
            out.append({"__dict__": [], "id": f"d{depth}_0"})
            for i, v in enumerate(vs[:3]):
                out.append({"__dict__": [[ks[0], v]], "id": f"d{depth}_{i + 1}"})
            return out
        if isinstance(t, ObjT):
            if reg.is_subclass(t.cls, "RandomSource") and t.cls == "RandomSource":
                return out + [{"__exhaustive__": True, "id": "src"}]
            ci = reg.classes.get(t.cls)
            if ci is None or depth > 2:
                return out + [None] if not out else out
            fields = {}
            for c in reversed(reg.mro(t.cls)):
                cc = reg.classes.get(c)
                if cc is None:
                    continue
                for f, ks in cc.fields.items():
                    fk = parse_kind(ks, reg.opaque)
                    if fk in (FN,):
                        continue
                    fields[f] = values(reg, fk, depth + 1)[:3]
            names = list(fields)
            combos = itertools.islice(itertools.product(*[fields[n] for n in names]), 30)
            for i, c in enumerate(combos):
                out.append({"__object__": ci.srcname, "file": ci.file, "fields": dict(zip(names, c)), "id": f"o{depth}_{i}"})
            return out
    return [None]


class _Loader(witness.RecipeLoader):
    def __init__(self, source):
        super().__init__()
        self.source = source

    def load(self, r):
        if isinstance(r, dict) and r.get("__exhaustive__"):
            return self.source
        return super().load(r)


def check_unit(reg, c, budget_s=20.0, max_runs=30000):
    """Returns dict(evaluations, violation | None)."""
    import sys, os

    verif = os.path.dirname(os.path.dirname(os.path.abspath(__file__)))
    if verif not in sys.path:
        sys.path.insert(0, verif)
    from rt.common import ExhaustiveSource, _Exhausted

    t0 = time.time()
    params = {n: parse_kind(k, reg.opaque) for n, k in c.params.items() if k not in ("any", "fn")}
    spaces = {n: values(reg, k) for n, k in params.items()}
    names = list(spaces)
    runs = 0
    for combo in itertools.product(*[spaces[n] for n in names]):
        recipe = dict(zip(names, combo))
        for n, k in c.params.items():
            if k in ("any", "fn"):
                recipe[n] = None
        prefix = []
        while True:
            if time.time() - t0 > budget_s or runs >= max_runs:
                return {"evaluations": runs, "violation": None, "exhaustive": False}
            src = ExhaustiveSource(prefix, 40)
            try:
                args = {n: _Loader(src).load(v) for n, v in recipe.items()}
            except Exception:
                break
            try:
                out = native.run_native(c, reg, args)
            except _Exhausted:
                break
            except Exception:
                break
            runs += 1
            semantic = ("AssertionError", "IndexError", "KeyError", "ZeroDivisionError", "ValueError", "UnboundLocalError", "StopIteration")
            bad = bool(out.failed_clauses) or (out.raised is not None and not out.raise_allowed and out.raised in semantic)
            if out.raised is not None and out.raised not in semantic and not out.raise_allowed:
                break  # the enumerated stand-in objects cannot drive this unit (e.g. abstract stubs): not applicable
            if not out.pre_failed and bad:
                return {
                    "evaluations": runs,
                    "exhaustive": False,
                    "violation": {
                        "recipe": {n: (v if not (isinstance(v, dict) and v.get("__exhaustive__")) else {"__scripted__": list(src.values), "id": "src"}) for n, v in recipe.items()},
                        "failed_clauses": out.failed_clauses,
                        "raised": out.raised,
                        "result_repr": repr(out.result)[:200],
                        "traceback": out.traceback[-800:],
                        "confirmed": True,
                    },
                }
            if out.pre_failed:
                break
            arity = src.arity
            chosen = (prefix + [0] * len(arity))[: len(arity)]
            j = len(arity) - 1
            while j >= 0 and chosen[j] + 1 >= arity[j]:
                j -= 1
            if j < 0:
                break
            prefix = chosen[:j] + [chosen[j] + 1]
    return {"evaluations": runs, "violation": None, "exhaustive": True}
