"""Modular calls: applying a callee's contract, inlining small bodies, constructors, closures."""
from __future__ import annotations

import ast
import z3

from . import ops
from .kinds import V, INT, BOOL, REAL, NONE, FN, Opaque, Ref, Tup, ListT, DictT, ObjT, Kind, parse_kind, is_list, is_dict, is_obj
from .state import State, Unsupported, fresh, I
from .engine_expr import FuncRef

_parse_cache: dict[str, ast.expr] = {}


def parse_spec(text: str) -> ast.expr:
    if text not in _parse_cache:
        _parse_cache[text] = ast.parse(text.strip(), mode="eval").body
    return _parse_cache[text]


class ContractMixin:
    # ------------------------------------------------------------------ spec evaluation
    def spec_eval(self, text: str, env: dict, st: State, old: State | None = None, pol: int = 0) -> V:
        """pol=+1: the clause is being proved (top-level foralls are replaced by fresh constants);
        pol=-1: the clause is being assumed (top-level exists are replaced by fresh constants); 0: neither."""
        s = st.fork()
        s.spec = True
        s.env = dict(env)
        s.ghost = dict(st.ghost)
        s.ghost["__old__"] = old
        s.ghost["__pol__"] = pol
        s.pc = st.pc  # share: spec evaluation adds only valid invariant instances
        s.ghost["__facts__"] = []
        try:
            v = self.ev1(parse_spec(text), s)
        except Unsupported as ex:
            raise Unsupported(f"in spec clause `{text}`: {ex}")
        for f, _trig in s.ghost.get("__facts__", []):
            st.assume(f)
        return v

    def spec_bool(self, text, env, st, old=None, pol=0):
        v = self.spec_eval(text, env, st, old, pol)
        return self.truth(v, st)

    def spec_goal(self, text, env, st, old=None):
        return self.spec_bool(text, env, st, old, +1)

    def spec_assume(self, text, env, st, old=None):
        return self.spec_bool(text, env, st, old, -1)

    # ------------------------------------------------------------------ parameter binding
    def bind_params(self, names: list[str], defaults: dict, args, kw, node, qual="?") -> dict:
        env = {}
        args = list(args)
        if len(args) > len(names):
            raise Unsupported(f"too many arguments for {qual}", node)
        for n, a in zip(names, args):
            env[n] = a
        for k, v in kw.items():
            if k in env:
                raise Unsupported(f"duplicate argument {k}", node)
            if k not in names:
                env.setdefault("__extra_kwargs__", {})
                env["__extra_kwargs__"][k] = v
                continue
            env[k] = v
        for n in names:
            if n not in env:
                if n in defaults:
                    env[n] = defaults[n]
                else:
                    raise Unsupported(f"missing argument {n} for {qual}", node)
        return env

    def coerce_arg(self, v: V, kind: Kind, st: State, what: str) -> V:
        if kind == REAL and v.kind in (INT, BOOL):
            return V(REAL, ops.to_real_term(v))
        if kind == INT and v.kind == BOOL:
            return V(INT, ops.to_int_term(v))
        if isinstance(kind, Ref) and v.kind == NONE:
            return V(kind, z3.IntVal(0))
        if isinstance(kind, Opaque) and kind.sname == "Val" and not (isinstance(v.kind, Opaque) and v.kind.sname == "Val"):
            return self.box_val(v, st)
        if isinstance(kind, Opaque) and kind.sname == "Type" and v.kind == FN:
            tv = self.as_type(v)
            if tv is not None:
                return tv
        if is_list(kind) and is_list(v.kind):
            if v.kind.target.elem is None:
                v.kind.target.elem = kind.target.elem
                v.kind.target.name = kind.target.name
                self.set_tag(st, v)
            elif kind.target.elem is not None and v.kind.target.elem != kind.target.elem:
                if not (isinstance(v.kind.target.elem, Ref) and isinstance(kind.target.elem, Ref)):
                    raise Unsupported(f"argument {what}: {v.kind} where {kind} expected")
            return v
        if is_obj(kind) and is_obj(v.kind):
            return v if v.kind.target.cls != "object" else V(kind, v.term)
        if is_list(kind) and is_obj(v.kind) and self.field_kind(v.kind.target.cls, "individuals") is not None:
            # a Population is iterable: iterating it iterates its `individuals` list (Population.__iter__)
            self.note_assumption("Population.__iter__ returns iter(self.individuals): a Population passed as an iterable is its individuals list")
            return self.fget(st, v, "individuals", self.field_kind(v.kind.target.cls, "individuals"))
        if is_dict(kind) and is_dict(v.kind):
            if v.kind.target.k is None:
                v.kind.target.k, v.kind.target.v = kind.target.k, kind.target.v
                self._dict_clear_dom(st, v)
                self.set_tag(st, v)
            return v
        if isinstance(kind, Tup) and isinstance(v.kind, Tup):
            return v
        if v.kind == kind:
            return v
        if v.kind == FN and kind == FN:
            return v
        raise Unsupported(f"argument {what}: {v.kind} where {kind} expected")

    # ------------------------------------------------------------------ contract application
    def call_contract_or_inline(self, c, args, kw, st, node):
        if c.inline and c.file is not None:
            fd = self.find_def(c.file, c.srcname)
            yield from self.inline_call(fd, c.file, args, kw, st, node, qual=c.qualname)
        else:
            yield from self.apply_contract(c, args, kw, st, node)

    def contract_defaults(self, c, st) -> dict:
        out = {}
        for n, txt in c.defaults.items():
            out[n] = self.spec_eval(txt, {}, st)
        return out

    def apply_contract(self, c, args, kw, st: State, node):
        names = list(c.params)
        dflt = self.contract_defaults(c, st)
        for n_, k_ in c.params.items():
            if k_ == "any" and n_ not in dflt:
                dflt[n_] = V(NONE, None)
        env = self.bind_params(names, dflt, args, kw, node, c.qualname)
        env.pop("__extra_kwargs__", None)
        inst = self.instantiate(c, env)
        for n in names:
            pk = inst(c.params[n])
            if pk in ("any", "fn"):
                continue
            env[n] = self.coerce_arg(env[n], parse_kind(pk, self.reg.opaque), st, f"{c.qualname}.{n}")
        self.used_contracts.add(c.qualname)
        for nm in c.caller_env:
            if nm in st.env and nm not in env:
                env[nm] = st.env[nm]
        pre = st.fork()
        # preconditions
        for lab, txt in c.requires.items():
            g = self.spec_goal(txt, env, st)
            self.oblige(st, "pre", f"{c.qualname}.{lab}", g, node, note=txt)
            if "forall" in txt:
                # the goal was proved for a fresh constant: what holds afterwards is the quantified clause
                st.assume(self.spec_assume(txt, env, st))
        # effects: frame + havoc
        for entry in c.modifies:
            if entry == "fresh":
                continue
            region, addr = self.resolve_mod(entry, env, pre)
            ghost = region.startswith("field:__")
            if not ghost:
                if addr is None:
                    self.check_frame_wildcard(st, region, node)
                elif callable(addr):
                    self.check_frame_class(st, region, addr, node)
                else:
                    self.check_frame(st, region, addr, node)
            self.havoc_region(st, region, addr)
            if region == "dict" and addr is not None and not callable(addr):
                # a havoced dict still satisfies its representation invariant
                dv = self.spec_eval(entry[:-2] if entry.endswith("[]") else entry, env, pre)
                if dv.kind.target.k is not None:
                    st.assume(self.dict_wf(st, dv))
        for pn in c.consumes:
            if pn in env and is_list(env[pn].kind):
                self.mark_consumed(st, env[pn])
        if c.allocates and not c.pure:  # temporaries of a pure function are unreachable garbage for the caller
            t0 = st.top
            t1 = fresh("top", I)
            st.assume(t1 >= t0)
            st.top = t1
        # exceptional exits
        for exc, cond in c.raises.items():
            s2 = st.fork()
            s2.assume(self.spec_bool(cond, env, pre))
            s2.trace.append(f"raise-{exc}-{c.qualname}")
            self.raise_exc(exc, s2, node, origin=c.qualname)
        # result
        rk = parse_kind(inst(c.returns), self.reg.opaque) if c.returns and c.returns not in ("any",) else NONE
        if c.pure and rk != NONE and not isinstance(rk, Tup):
            # a pure function: the result is the application of an uninterpreted function to the arguments
            arg_terms = []
            for n in names:
                a_ = env[n]
                if a_.kind in (NONE,):
                    arg_terms.append(z3.IntVal(0))
                elif a_.kind == FN:
                    arg_terms.append(self.as_type(a_).term if self.as_type(a_) is not None else z3.IntVal(0))
                elif isinstance(a_.kind, Tup):
                    raise Unsupported(f"tuple argument of pure function {c.qualname}", node)
                else:
                    arg_terms.append(a_.term)
            fn = z3.Function("pure_" + c.qualname.replace(".", "_"), *[t.sort() for t in arg_terms], rk.sort())
            res = V(rk, fn(*arg_terms) if arg_terms else z3.Const("pure_" + c.qualname, rk.sort()))
        else:
            res = self.fresh_value("r_" + c.fname, rk) if rk != NONE else V(NONE, None)
        if self.comp_oracle_stack and rk != NONE and not c.pure:
            self._collect_consts(res, self.comp_oracle_stack[-1])
        if isinstance(rk, Ref):
            st.assume(self.ref_wf(st, res))
            if c.fresh_result:
                st.assume(res.term >= pre.top)
            if is_list(rk) and rk.target.oneshot_possible:
                # a returned iterator / generator has not been iterated yet
                st.assume(z3.Not(self.ghost_flag(st, res.term, "consumed")))
        env2 = dict(env)
        for nm in c.caller_env:
            if nm in st.env and nm not in env2:
                env2[nm] = st.env[nm]
        env2["result"] = res
        for wname, (_gv, wkind) in c.witnesses.items():
            nf = self.no_frame
            self.no_frame = True
            wk = parse_kind(inst(wkind), self.reg.opaque)
            if is_list(wk):
                wl = self.new_list(st, wk.target.elem, fresh("wlen", I), fresh("warr", z3.ArraySort(I, wk.target.elem.sort())))
            else:
                wl = self.fresh_value("wit_" + wname, wk, st)
                if self.comp_oracle_stack:
                    self._collect_consts(wl, self.comp_oracle_stack[-1])
            self.no_frame = nf
            env2[wname] = wl
            st.env["WIT_" + wname] = wl  # ghost: the callee's existential witness, usable in the caller's proves/invariants
        all_ens = dict(c.ensures)
        if c.overrides and c.overrides in self.reg.contracts:
            # what the interface promises holds for every implementation (each is verified against it)
            for lab, txt in self.reg.contracts[c.overrides].ensures.items():
                all_ens.setdefault("iface." + lab, txt)
        for lab, txt in all_ens.items():
            sg = dict(st.ghost)
            st.ghost["__top0__"] = pre.top
            try:
                st.assume(self.spec_assume(txt, env2, st, pre))
            finally:
                st.ghost = sg
        # oracle log
        if c.qualname.endswith(".randint") or c.qualname.endswith(".random_float"):
            st.draws.append((c.qualname, env.get("self"), res))
        elif c.qualname.endswith(".random_bool") and res.kind == BOOL:
            # random_bool is choice([True, False]) over randint(0, 1): True <-> draw 0
            st.draws.append((c.qualname, env.get("self"), V(INT, z3.If(res.term, z3.IntVal(0), z3.IntVal(1)))))
        st.calls.append((c.qualname, env, res))
        yield res, st

    def instantiate(self, c, env):
        """Bind the contract's kind variables from the actual arguments; returns a text substitution."""
        import re

        binding = {}
        for tv in c.typevars:
            for n, ks in c.params.items():
                if n not in env:
                    continue
                a = env[n]
                if ks == tv and a.kind not in (NONE, FN):
                    binding.setdefault(tv, a.kind)
                elif ks.rstrip("?") in (f"list[{tv}]", f"iter[{tv}]") and is_list(a.kind) and a.kind.target.elem is not None:
                    binding.setdefault(tv, a.kind.target.elem)

        def inst(ks):
            if ks is None:
                return ks
            for tv, k in binding.items():
                ks = re.sub(rf"\b{tv}\b", k.name, ks)
            return ks

        return inst

    def box_val(self, v: V, st) -> V:
        """Inject a Python value into the opaque sort of program values (Val): one injective constructor per
        dynamic type, so that 'exactly the declared base type' is expressible (box_bool(b) is not an int value)."""
        VAL = Opaque("Val")
        if v.kind == INT:
            return V(VAL, z3.Function("box_int", I, VAL.sort())(v.term))
        if v.kind == REAL:
            return V(VAL, z3.Function("box_float", z3.RealSort(), VAL.sort())(v.term))
        if v.kind == BOOL:
            return V(VAL, z3.Function("box_bool", z3.BoolSort(), VAL.sort())(v.term))
        if v.kind == NONE:
            return V(VAL, z3.Const("box_none", VAL.sort()))
        if isinstance(v.kind, Opaque) and v.kind.sname == "Str":
            return V(VAL, z3.Function("box_str", v.kind.sort(), VAL.sort())(v.term))
        if is_list(v.kind):
            tag = "box_tuple" if getattr(v.kind.target, "is_tuple", False) else "box_list"
            bx = V(VAL, z3.Function(tag, I, VAL.sort())(v.term))
            hook = self.reg.hooks.get(tag)
            if hook is not None:
                hook(self, st, v, bx)
            return bx
        if isinstance(v.kind, Ref):
            return V(VAL, z3.Function("box_obj", I, VAL.sort())(v.term))
        if isinstance(v.kind, Tup):
            items = [self.box_val(x, st) for x in v.term]
            nf = self.no_frame
            self.no_frame = True
            try:
                lst = self.list_from_values(st, items) if items else self.new_list(st, VAL)
            finally:
                self.no_frame = nf
            return V(VAL, z3.Function("box_tuple", I, VAL.sort())(lst.term))
        raise Unsupported(f"cannot treat a {v.kind} as a program value")

    def _collect_consts(self, v: V, out: list):
        if isinstance(v.kind, Tup):
            for x in v.term:
                self._collect_consts(x, out)
        elif v.term is not None and v.kind != FN:
            out.append(v.term)

    def resolve_mod(self, entry: str, env: dict, st: State):
        """modifies entry -> (region, address term).  Forms: 'x' (list or dict x), 'x.f' (field f of object x),
        'x.*' (all fields of x), 'e.f' with e any spec expression."""
        entry = entry.strip()
        if entry.startswith("class:"):
            # every field of every object whose dynamic class is (a subclass of) the named class
            cname = entry[6:]
            ids = [self.class_id(s_) for s_ in self.reg.classes if self.reg.is_subclass(s_, cname)] or [self.class_id(cname)]
            for s_ in self.reg.classes:
                if self.reg.is_subclass(s_, cname):
                    for f, ks in self.reg.classes[s_].fields.items():
                        fk = parse_kind(ks, self.reg.opaque)
                        if fk not in (FN, NONE):
                            self.H.fld_arr(st, f, fk.sort())

            def pred(a, st2, ids=ids):
                tag = self.sel(st2, self.cls_arr(st2), a)
                return z3.Or([tag == i for i in ids])

            pred.class_name = cname
            return "field:*", pred
        if entry.startswith("all:dict["):
            # typed wildcard: the contents of every dict of this static kind (identified by its dynamic container tag)
            dk = parse_kind(entry[4:], self.reg.opaque)
            tag = self.container_tag(dk.target)
            for arr_ in (self.H.dom_arr, self.H.dkel_arr, self.H.dklen_arr):
                arr_(st, dk.target.k.sort())
            self.H.map_arr(st, dk.target.k.sort(), dk.target.v.sort())

            def dpred(a, s_, _tag=tag):
                return self.cls_arr(s_)[a] == _tag

            dpred.class_name = None
            dpred.dict_kind = entry[4:]
            dpred.dict_sorts = (dk.target.k.sort(), dk.target.v.sort())
            return "dict", dpred
        if entry.startswith("all:"):
            # wildcard: 'all:dict' (contents of every dict) or 'all:field:<name>' (that field of every object)
            reg_ = entry[4:]
            if reg_.startswith("field:"):
                for ci in self.reg.classes.values():
                    if reg_[6:] in ci.fields:
                        fk = parse_kind(ci.fields[reg_[6:]], self.reg.opaque)
                        if fk not in (FN, NONE):
                            self.H.fld_arr(st, reg_[6:], fk.sort())
            return reg_, None
        if entry.endswith("[]"):
            v = self.spec_eval(entry[:-2], env, st)
            if is_list(v.kind):
                self.touch_container(st, v)
                return "list", v.term
            if is_dict(v.kind):
                self.touch_container(st, v)
                self._mod_values[v.term.get_id()] = v
                return "dict", v.term
            raise Unsupported(f"modifies entry {entry}: not a container")
        if entry.endswith(".*"):
            base = self.spec_eval(entry[:-2], env, st)
            if is_obj(base.kind):
                cls = base.kind.target.cls
                for c2 in self.reg.classes:
                    if self.reg.is_subclass(c2, cls) or self.reg.is_subclass(cls, c2):
                        for f, ks in self.reg.classes[c2].fields.items():
                            fk = parse_kind(ks, self.reg.opaque)
                            if fk not in (FN, NONE):
                                self.H.fld_arr(st, f, fk.sort())
            return "field:*", base.term
        node = parse_spec(entry)
        if isinstance(node, ast.Attribute):
            base_txt = ast.unparse(node.value)
            base = self.spec_eval(base_txt, env, st)
            if is_obj(base.kind) and self.field_kind(base.kind.target.cls, node.attr) is None and not node.attr.startswith("__"):
                # ghost / undeclared field
                pass
            if is_obj(base.kind) or isinstance(base.kind, Ref):
                fk = self.field_kind(base.kind.target.cls, node.attr) if is_obj(base.kind) else None
                if fk is not None and fk not in (FN, NONE):
                    self.H.fld_arr(st, node.attr, fk.sort())  # make sure the array exists so that havoc reaches it
                return "field:" + node.attr, base.term
        v = self.spec_eval(entry, env, st)
        if is_list(v.kind):
            self.touch_container(st, v)
            return "list", v.term
        if is_dict(v.kind):
            self.touch_container(st, v)
            return "dict", v.term
        raise Unsupported(f"modifies entry {entry}")

    def touch_container(self, st, v):
        """Create the heap arrays a container kind lives in, so that a havoc of the region reaches them."""
        t = v.kind.target
        if isinstance(t, ListT):
            self.H.len_arr(st)
            if t.elem is not None:
                self.H.el_arr(st, t.elem.sort())
        elif isinstance(t, DictT) and t.k is not None:
            self.H.dom_arr(st, t.k.sort())
            self.H.map_arr(st, t.k.sort(), t.v.sort())
            self.H.dklen_arr(st, t.k.sort())
            self.H.dkel_arr(st, t.k.sort())

    # ------------------------------------------------------------------ exceptions
    def raise_exc(self, exc: str, st: State, node, origin=None):
        """Route a raised exception: to the raise buffer (the statement executor sorts out handlers)."""
        self.raise_buffer.append((exc, st, node, origin))

    # ------------------------------------------------------------------ inlining
    def find_def(self, file: str, qualname: str):
        mod = self.load_module(file)
        fd = mod["defs"].get(qualname)
        if fd is None:
            raise Unsupported(f"no source for {qualname} in {file}")
        return fd

    def find_method_def(self, cls: str, name: str):
        for c in self.reg.mro(cls):
            ci = self.reg.classes.get(c)
            if ci is None or ci.file is None:
                continue
            mod = self.load_module(ci.file)
            fd = mod["defs"].get(f"{ci.srcname}.{name}")
            if fd is not None:
                return ci.file, fd
        return None

    def call_module_function(self, name, args, kw, st, node):
        fd = self.module["defs"].get(name)
        if fd is None:
            raise Unsupported(f"function {name}", node)
        yield from self.inline_call(fd, self.file, args, kw, st, node, qual=name)

    def inline_call(self, fd: ast.FunctionDef, file: str, args, kw, st: State, node, qual=None, closure_env=None):
        qual = qual or fd.name
        if self.inline_depth > 6:
            raise Unsupported(f"inlining too deep at {qual}", node)
        if any(isinstance(n, (ast.Yield, ast.YieldFrom)) for n in ast.walk(fd)):
            raise Unsupported(f"inlining generator {qual} (needs a contract)", node)
        names = [a.arg for a in fd.args.posonlyargs + fd.args.args]
        defaults = {}
        dvals = fd.args.defaults
        for a, d in zip(names[len(names) - len(dvals) :], dvals):
            defaults[a] = self.ev1(d, st)
        for a, d in zip(fd.args.kwonlyargs, fd.args.kw_defaults):
            names.append(a.arg)
            if d is not None:
                defaults[a.arg] = self.ev1(d, st)
        env = self.bind_params(names, defaults, args, kw, node, qual)
        extra = env.pop("__extra_kwargs__", {})
        if fd.args.kwarg is not None:
            env[fd.args.kwarg.arg] = V(FN, FuncRef("kwargs", items=extra))
        elif extra:
            raise Unsupported(f"unexpected keyword arguments {list(extra)} for {qual}", node)
        self.inlined.add(f"{file}::{qual}")
        saved_env = st.env
        saved_ctx = (self.file, self.module, self.module_consts, self.module_funcs, self.module_imports, self.local_funcs, self.cur_qual)
        mod = self.load_module(file)
        self.file, self.module = file, mod
        self.module_consts, self.module_funcs, self.module_imports = mod["consts"], mod["funcs"], mod["imports"]
        self.local_funcs = {}
        self.cur_qual = qual
        self.inline_depth += 1
        st.env = dict(closure_env or {})
        st.env.update(env)
        envs_to_restore = []
        try:
            outs = list(self.exec_block(fd.body, st))
        finally:
            self.inline_depth -= 1
            (self.file, self.module, self.module_consts, self.module_funcs, self.module_imports, self.local_funcs, self.cur_qual) = saved_ctx
        for kind, val, s in outs:
            if kind == "next":
                s.env = dict(saved_env)
                yield V(NONE, None), s
            elif kind == "return":
                s.env = dict(saved_env)
                yield val, s
            elif kind == "raise":
                s.env = dict(saved_env)
                self.raise_buffer.append((val[0], s, val[1], val[2]))
            else:
                raise Unsupported(f"{kind} escaping function {qual}", node)

    def call_closure(self, r: FuncRef, args, kw, st: State, node):
        fnode = r.node
        if isinstance(fnode, ast.Lambda):
            names = [a.arg for a in fnode.args.args]
            defaults = {}
            for a, d in zip(names[len(names) - len(fnode.args.defaults) :], fnode.args.defaults):
                defaults[a] = self.ev1(d, st)
            env = self.bind_params(names, defaults, args, kw, node, "<lambda>")
            saved = dict(st.env)
            st.env.update(env)
            outs = list(self.ev(fnode.body, st))
            for v, s in outs:
                for n in names:
                    if n in saved:
                        s.env[n] = saved[n]
                    else:
                        s.env.pop(n, None)
                yield v, s
            return
        # nested def: late-binding closure over the *current* enclosing environment
        if any(isinstance(n, (ast.Yield, ast.YieldFrom)) for n in ast.walk(fnode)):
            raise Unsupported("nested generator function", node)
        outer = dict(getattr(r, "env", None) or st.env)
        names = [a.arg for a in fnode.args.args]
        written = {n.id for n in ast.walk(fnode) if isinstance(n, ast.Name) and isinstance(n.ctx, ast.Store)}
        nonlocal_names = {n for s_ in ast.walk(fnode) if isinstance(s_, ast.Nonlocal) for n in s_.names}
        saved_lf = self.local_funcs
        for v, s in self.inline_call(fnode, getattr(r, "file", None) or self.file, args, kw, st, node, qual=f"{getattr(r, 'qual', None) or self.cur_qual}.<locals>.{fnode.name}", closure_env=outer):
            yield v, s
        self.local_funcs = saved_lf

    # ------------------------------------------------------------------ constructors
    def construct(self, cls: str, args, kw, st: State, node):
        ci = self.reg.classes.get(cls)
        if ci is None:
            raise Unsupported(f"class {cls}", node)
        c = self.reg.contracts.get(f"{cls}.__init__")
        a = self.alloc(st)
        obj = V(Ref(ObjT(cls)), a)
        clsid = self.class_id(cls)
        st.heap["f___cls_Int"] = z3.Store(self.H.fld_arr(st, "__cls", I), a, z3.IntVal(clsid))
        if c is not None and not c.inline:
            for _r, s in self.apply_contract(c, [obj] + list(args), kw, st, node):
                yield obj, s
            return
        if ci.init_fields is not None:
            names = list(ci.init_fields)
            defaults = {}
            for f, txt in getattr(ci, "field_defaults", {}).items():
                defaults[f] = self.spec_eval(txt, {}, st)
            env = self.bind_params(names, defaults, args, kw, node, cls)
            for f in names:
                fk = self.field_kind(cls, f)
                if fk is None:
                    raise Unsupported(f"field {cls}.{f} undeclared", node)
                val = self.coerce_arg(env[f], fk, st, f"{cls}.{f}") if fk != FN else env[f]
                self.fset(st, obj, f, fk, val, node)
            yield obj, st
            return
        fd = self.find_method_def(cls, "__init__")
        if fd is None:
            if args or kw:
                raise Unsupported(f"constructor of {cls}", node)
            yield obj, st
            return
        for _r, s in self.inline_call(fd[1], fd[0], [obj] + list(args), kw, st, node, qual=f"{cls}.__init__"):
            yield obj, s

    def class_id(self, cls: str) -> int:
        if cls not in self.class_ids:
            self.class_ids[cls] = len(self.class_ids) + 1
        return self.class_ids[cls]

    def call_super(self, mname, args, kw, st, node):
        cls = self.cur_qual.split(".")[0]
        selfv = st.env.get("self")
        if selfv is None:
            raise Unsupported("super() without self", node)
        for base in self.reg.mro(cls)[1:]:
            c = self.reg.contracts.get(f"{base}.{mname}")
            if c is not None:
                yield from self.call_contract_or_inline(c, [selfv] + args, kw, st, node)
                return
            ci = self.reg.classes.get(base)
            if ci is not None and ci.file is not None:
                fd = self.load_module(ci.file)["defs"].get(f"{ci.srcname}.{mname}")
                if fd is not None:
                    yield from self.inline_call(fd, ci.file, [selfv] + args, kw, st, node, qual=f"{base}.{mname}")
                    return
        raise Unsupported(f"super().{mname}", node)

    # ------------------------------------------------------------------ externals
    def call_external(self, name, args, kw, st, node):
        short = name.split(".")[-1]
        c = self.reg.contracts.get(name) or self.reg.contracts.get(short)
        if c is None:
            m = getattr(self, "bi_" + short, None)
            if m is not None:
                yield from self.call_builtin(short, args, kw, st, node)
                return
            raise Unsupported(f"external {name} has no assumed contract", node)
        self.externals_used.add(c.qualname)
        yield from self.apply_contract(c, args, kw, st, node)
