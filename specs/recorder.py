"""CSV recorder (C20): closure-cell obligations of the field extractors."""
from pyvc.spec import REG as R

REC = "geneticengine/evaluation/recorder.py"
SGP = "geml/simplegp.py"
R.contract(
    "CSVSearchRecorder.__init__",
    file=REC,
    params={},
    captures_only=True,
    props=["C20"],
    note="per-objective extractor lambdas are created in a loop over the objectives: each must bind its own component index",
)
R.contract(
    "SimpleGP.build_recorder",
    file=SGP,
    params={},
    captures_only=True,
    props=["C20"],
    note="extra-field wrappers are created in a comprehension over the callbacks: each must bind its own callback",
)
