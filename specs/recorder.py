"""CSV recorder (C20): closure-cell obligations of the field extractors."""
from pyvc.spec import REG as R

REC = "geneticengine/evaluation/recorder.py"
SGP = "geml/simplegp.py"
R.contract(
    "CSVSearchRecorder.__init__",
    file=REC,
    params={},
    captures_only=True,
    props=["C20"],
    note="per-objective extractor lambdas are created in a loop over the objectives: each must bind its own component index",
)
R.contract(
    "SimpleGP.build_recorder",
    file=SGP,
    params={},
    captures_only=True,
    props=["C20"],
    note="extra-field wrappers are created in a comprehension over the callbacks: each must bind its own callback",
)

# ---- register(): one complete row per registration, flushed before it returns (C20) ---------------------------------
# Ghost model of the buffered file the csv writer wraps, at row granularity: rows handed to writerow() are pending until
# flush() moves them to disk.  (csv.writer serialises one row per writerow call, quoting embedded separators and line
# breaks: assumed, exercised on real files by the bounded driver.)
import specs.tracking  # noqa: F401,E402  (declaration order)

R.cls("TextFile", fields={"disk_rows": "int", "pending_rows": "int", "last_width": "int"})
R.cls("CsvWriter", fields={"file": "TextFile"})
R.cls("FieldMapper", fields={})
R.opaque.add("Cell")
R.contract(
    "FieldMapper.__call__",
    params=dict(self="FieldMapper", t="ProgressTracker", i="Individual", p="Problem"),
    returns="~Cell",
    modifies=[],
    allocates=False,
    verify=False,
    note="a configured field extractor: computes one cell from (tracker, individual, problem) without writing to the heap (assumed)",
)
R.contract(
    "CsvWriter.writerow",
    params=dict(self="CsvWriter", row="list[~Cell]"),
    returns="None",
    ensures={"one_more_pending": "self.file.pending_rows == old(self.file.pending_rows) + 1", "as_wide_as_the_row": "self.file.last_width == len(row)"},
    modifies=["self.file.pending_rows", "self.file.last_width"],
    allocates=False,
    verify=False,
)
R.contract(
    "TextFile.flush",
    params=dict(self="TextFile"),
    returns="None",
    ensures={"pending_reach_disk": "self.disk_rows == old(self.disk_rows) + old(self.pending_rows)", "buffer_empty": "self.pending_rows == 0"},
    modifies=["self.disk_rows", "self.pending_rows"],
    allocates=False,
    verify=False,
)
R.cls("CSVSearchRecorder", bases=["SearchRecorder"], file=REC,
      fields={"csv_file": "TextFile", "csv_writer": "CsvWriter", "fields": "dict[~Str,FieldMapper]", "only_record_best_individuals": "bool", "header_printed": "bool"})
R.contract(
    "CSVSearchRecorder.register",
    file=REC,
    params=dict(self="CSVSearchRecorder", tracker="ProgressTracker", individual="Individual", problem="Problem", is_best="bool"),
    defaults={"is_best": "False"},
    returns="None",
    requires={
        "writer_wraps_the_file": "same(self.csv_writer.file, self.csv_file)",
        "nothing_buffered": "self.csv_file.pending_rows == 0",
    },
    ensures={
        "one_row_per_registration": "implies(not self.only_record_best_individuals or is_best, "
        "self.csv_file.disk_rows == old(self.csv_file.disk_rows) + 1 and self.csv_file.last_width == len(keysof(self.fields)))",
        "nothing_when_filtered": "implies(self.only_record_best_individuals and not is_best, self.csv_file.disk_rows == old(self.csv_file.disk_rows))",
        "complete_rows_only": "self.csv_file.pending_rows == 0",
    },
    modifies=["self.csv_file.disk_rows", "self.csv_file.pending_rows", "self.csv_file.last_width"],
    props=["C20"],
    note="one row per registered individual (only flagged ones when so configured), one cell per configured field, and nothing left in the "
    "buffer when register() returns: an interruption between registrations leaves header + complete rows",
)
