"""GE / stack-based linear genotypes: one-point crossover and single-codon mutation (C06, C09)."""
from pyvc.spec import REG as R

GE = "geneticengine/representations/grammatical_evolution/ge.py"
STK = "geneticengine/representations/stackgggp/__init__.py"

for key, gkey, file, src in (
    ("GrammaticalEvolutionRepresentation", "GEGenotype", GE, None),
    ("StackBasedGGGPRepresentation", "StackGenotype", STK, None),
):
    R.cls(gkey, src="Genotype", fields={"dna": "list[int]"}, file=file, init_fields=["dna"])
    R.cls(key, fields={"grammar": "Grammar", "gene_length": "int", "decider": "MaxDepthDecider", "failures_limit": "int"}, file=file)
    REPINV = {
        "gene_length_pos": "self.gene_length >= 1",
    }
    R.contract(
        f"{key}.mutate",
        file=file,
        params=dict(self=key, random="RandomSource", genotype=gkey, kwargs="any"),
        returns=gkey,
        requires={**REPINV, "shape": "len(genotype.dna) == self.gene_length"},
        ensures={
            "fresh_child": "fresh(result) and fresh(result.dna)",
            "same_length": "len(result.dna) == len(genotype.dna)",
            "at_most_one_gene_changed": "exists(0, len(genotype.dna), lambda p: forall(0, len(genotype.dna), "
            "lambda k: implies(k != p, result.dna[k] == genotype.dna[k])))",
            "parent_unchanged": "len(genotype.dna) == old(len(genotype.dna)) and "
            "forall(0, len(genotype.dna), lambda k: genotype.dna[k] == old(genotype.dna[k]))",
        },
        modifies=["random.*"],
        props=["C06", "C09", "C10"],
    )
    R.contract(
        f"{key}.crossover",
        file=file,
        params=dict(self=key, random="RandomSource", parent1=gkey, parent2=gkey, kwargs="any"),
        returns=f"tuple[{gkey},{gkey}]",
        requires={**REPINV, "shape1": "len(parent1.dna) == self.gene_length", "shape2": "len(parent2.dna) == self.gene_length"},
        ensures={
            "fresh_children": "fresh(result[0]) and fresh(result[0].dna) and fresh(result[1]) and fresh(result[1].dna)",
            "same_length": "len(result[0].dna) == len(parent1.dna) and len(result[1].dna) == len(parent1.dna)",
            "locus_provenance": "forall(0, len(parent1.dna), lambda k: "
            "(result[0].dna[k] == parent1.dna[k] or result[0].dna[k] == parent2.dna[k]) and "
            "(result[1].dna[k] == parent1.dna[k] or result[1].dna[k] == parent2.dna[k]))",
            "one_point": "CUT >= 0 and forall(0, len(parent1.dna), lambda k: "
            "result[0].dna[k] == ite(k < CUT, parent1.dna[k], parent2.dna[k]) and "
            "result[1].dna[k] == ite(k < CUT, parent2.dna[k], parent1.dna[k]))",
            "parents_unchanged": "forall(0, len(parent1.dna), lambda k: parent1.dna[k] == old(parent1.dna[k]) and parent2.dna[k] == old(parent2.dna[k]))",
        },
        witnesses={"CUT": ("rindex", "int")},
        modifies=["random.*"],
        props=["C06", "C09", "C10"],
    )
    R.contract(
        f"{key}.create_genotype",
        file=file,
        params=dict(self=key, random="RandomSource", kwargs="any"),
        returns=gkey,
        requires={"gene_length_nonneg": "self.gene_length >= 0"},
        ensures={
            "shape": "len(result.dna) == self.gene_length",
            "genes_nonneg": "forall(0, len(result.dna), lambda k: result.dna[k] >= 0)",
            "fresh": "fresh(result) and fresh(result.dna)",
        },
        modifies=["random.*"],
        props=["C06", "C18"],
    )
