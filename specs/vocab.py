"""Shared specification vocabulary: spec functions with a z3 encoding (here) and a native definition
(pyvc.native.NATIVE_FUNCS); axioms are added to the executor on first use."""
from __future__ import annotations

import z3

from pyvc.kinds import V, INT, REAL, BOOL, is_list
from pyvc.engine_call import specfunc
from pyvc.state import Unsupported, I
from pyvc import ops


def _psum_fn(ex, sort):
    name = "psum_" + str(sort)
    f = z3.Function(name, z3.ArraySort(I, sort), I, sort)
    key = ("axiom", name)
    if key not in ex.__dict__.setdefault("_axiom_keys", set()):
        ex._axiom_keys.add(key)
        a = z3.Const("ps_a", z3.ArraySort(I, sort))
        n = z3.Int("ps_n")
        zero = z3.RealVal(0) if sort == z3.RealSort() else z3.IntVal(0)
        ex.axioms.append(z3.ForAll([a, n], z3.Implies(n <= 0, f(a, n) == zero), patterns=[f(a, n)]))
        ex.axioms.append(z3.ForAll([a, n], z3.Implies(n > 0, f(a, n) == f(a, n - 1) + a[n - 1]), patterns=[f(a, n)]))
        ex.recdefs[f] = lambda aa, nn, f=f, zero=zero: z3.If(nn <= 0, zero, f(aa, nn - 1) + aa[nn - 1])
    return f


@specfunc("psum")
def psum(ex, st, lst, n):
    """psum(lst, n) = lst[0] + ... + lst[n-1]"""
    ek = ex.elem_kind(lst)
    f = _psum_fn(ex, ek.sort())
    return V(ek, f(ex.larr(st, lst), ops.to_int_term(n)))


@specfunc("oldel")
def oldel(ex, st, lst, i):
    """element i (current value of i) of lst in the function-entry heap"""
    old = st.ghost.get("__old__")
    if old is None:
        raise Unsupported("oldel outside two-state clause")
    ek = ex.elem_kind(lst)
    arr = ex.sel(old, ex.H.el_arr(old, ek.sort()), lst.term)
    return ex.from_term(ek, ex.sel(old, arr, ops.to_int_term(i)))


@specfunc("oldlen")
def oldlen(ex, st, lst):
    old = st.ghost.get("__old__")
    if old is None:
        raise Unsupported("oldlen outside two-state clause")
    return V(INT, ex.sel(old, ex.H.len_arr(old), lst.term))


@specfunc("trunc")
def trunc(ex, st, x):
    return V(INT, ops.real_trunc(ops.to_real_term(x)))


def _ssum_fn(ex):
    R_ = z3.RealSort()
    f = z3.Function("ssum", z3.ArraySort(I, R_), z3.ArraySort(I, z3.BoolSort()), I, R_)
    if ("axiom", "ssum") not in ex.__dict__.setdefault("_axiom_keys", set()):
        ex._axiom_keys.add(("axiom", "ssum"))
        c = z3.Const("ss_c", z3.ArraySort(I, R_))
        m = z3.Const("ss_m", z3.ArraySort(I, z3.BoolSort()))
        n = z3.Int("ss_n")
        ex.axioms.append(z3.ForAll([c, m, n], z3.Implies(n <= 0, f(c, m, n) == 0), patterns=[f(c, m, n)]))
        ex.axioms.append(z3.ForAll([c, m, n], z3.Implies(n > 0, f(c, m, n) == f(c, m, n - 1) + z3.If(m[n - 1], -c[n - 1], c[n - 1])), patterns=[f(c, m, n)]))
        ex.recdefs[f] = lambda cc, mm, nn, f=f: z3.If(nn <= 0, z3.RealVal(0), f(cc, mm, nn - 1) + z3.If(mm[nn - 1], -cc[nn - 1], cc[nn - 1]))
    return f


@specfunc("ssum")
def ssum(ex, st, comps, minimize, n):
    """ssum(c, m, n) = sum over k < n of (-c[k] if m[k] else c[k]): the property's default multi-objective aggregate"""
    f = _ssum_fn(ex)
    return V(REAL, f(ex.larr(st, comps), ex.larr(st, minimize), ops.to_int_term(n)))


@specfunc("budget_done")
def budget_done(ex, st, budget, tracker):
    """abstract 'this budget is exhausted' predicate: an uninterpreted function of the budget, the evaluation
    counter and the tracker's best individual (what concrete budgets read)"""
    f = z3.Function("budget_done", I, I, I, z3.BoolSort())
    ev = ex.fget(st, tracker, "evaluator", ex.field_kind(tracker.kind.target.cls, "evaluator"))
    cnt = ex.fget(st, ev, "count", INT)
    best = ex.fget(st, tracker, "best_individual", ex.field_kind(tracker.kind.target.cls, "best_individual"))
    return V(BOOL, f(budget.term, cnt.term, best.term))
