"""Shared specification vocabulary: spec functions with a z3 encoding (here) and a native definition
(pyvc.native.NATIVE_FUNCS); axioms are added to the executor on first use."""
from __future__ import annotations

import z3

from pyvc.kinds import V, INT, REAL, BOOL, is_list
from pyvc.engine_call import specfunc
from pyvc.state import Unsupported, I
from pyvc import ops


def _psum_fn(ex, sort):
    name = "psum_" + str(sort)
    f = z3.Function(name, z3.ArraySort(I, sort), I, sort)
    key = ("axiom", name)
    if key not in ex.__dict__.setdefault("_axiom_keys", set()):
        ex._axiom_keys.add(key)
        a = z3.Const("ps_a", z3.ArraySort(I, sort))
        n = z3.Int("ps_n")
        zero = z3.RealVal(0) if sort == z3.RealSort() else z3.IntVal(0)
        ex.axioms.append(z3.ForAll([a, n], z3.Implies(n <= 0, f(a, n) == zero), patterns=[f(a, n)]))
        ex.axioms.append(z3.ForAll([a, n], z3.Implies(n > 0, f(a, n) == f(a, n - 1) + a[n - 1]), patterns=[f(a, n)]))
        ex.recdefs[f] = lambda aa, nn, f=f, zero=zero: z3.If(nn <= 0, zero, f(aa, nn - 1) + aa[nn - 1])
    return f


@specfunc("psum")
def psum(ex, st, lst, n):
    """psum(lst, n) = lst[0] + ... + lst[n-1]"""
    ek = ex.elem_kind(lst)
    f = _psum_fn(ex, ek.sort())
    return V(ek, f(ex.larr(st, lst), ops.to_int_term(n)))


@specfunc("oldel")
def oldel(ex, st, lst, i):
    """element i (current value of i) of lst in the function-entry heap"""
    old = st.ghost.get("__old__")
    if old is None:
        raise Unsupported("oldel outside two-state clause")
    ek = ex.elem_kind(lst)
    arr = ex.sel(old, ex.H.el_arr(old, ek.sort()), lst.term)
    return ex.from_term(ek, ex.sel(old, arr, ops.to_int_term(i)))


@specfunc("oldlen")
def oldlen(ex, st, lst):
    old = st.ghost.get("__old__")
    if old is None:
        raise Unsupported("oldlen outside two-state clause")
    return V(INT, ex.sel(old, ex.H.len_arr(old), lst.term))


@specfunc("trunc")
def trunc(ex, st, x):
    return V(INT, ops.real_trunc(ops.to_real_term(x)))


def _ssum_fn(ex):
    R_ = z3.RealSort()
    f = z3.Function("ssum", z3.ArraySort(I, R_), z3.ArraySort(I, z3.BoolSort()), I, R_)
    if ("axiom", "ssum") not in ex.__dict__.setdefault("_axiom_keys", set()):
        ex._axiom_keys.add(("axiom", "ssum"))
        c = z3.Const("ss_c", z3.ArraySort(I, R_))
        m = z3.Const("ss_m", z3.ArraySort(I, z3.BoolSort()))
        n = z3.Int("ss_n")
        ex.axioms.append(z3.ForAll([c, m, n], z3.Implies(n <= 0, f(c, m, n) == 0), patterns=[f(c, m, n)]))
        ex.axioms.append(z3.ForAll([c, m, n], z3.Implies(n > 0, f(c, m, n) == f(c, m, n - 1) + z3.If(m[n - 1], -c[n - 1], c[n - 1])), patterns=[f(c, m, n)]))
        ex.recdefs[f] = lambda cc, mm, nn, f=f: z3.If(nn <= 0, z3.RealVal(0), f(cc, mm, nn - 1) + z3.If(mm[nn - 1], -cc[nn - 1], cc[nn - 1]))
    return f


@specfunc("ssum")
def ssum(ex, st, comps, minimize, n):
    """ssum(c, m, n) = sum over k < n of (-c[k] if m[k] else c[k]): the property's default multi-objective aggregate"""
    f = _ssum_fn(ex)
    return V(REAL, f(ex.larr(st, comps), ex.larr(st, minimize), ops.to_int_term(n)))


@specfunc("budget_done")
def budget_done(ex, st, budget, tracker):
    """abstract 'this budget is exhausted' predicate: an uninterpreted function of the budget, the evaluation
    counter and the tracker's best individual (what concrete budgets read)"""
    f = z3.Function("budget_done", I, I, I, z3.BoolSort())
    ev = ex.fget(st, tracker, "evaluator", ex.field_kind(tracker.kind.target.cls, "evaluator"))
    cnt = ex.fget(st, ev, "count", INT)
    best = ex.fget(st, tracker, "best_individual", ex.field_kind(tracker.kind.target.cls, "best_individual"))
    return V(BOOL, f(budget.term, cnt.term, best.term))


# ---- grammar distance: DEFINED by the equations of the shallowest derivable program ---------------------------
def _T():
    from pyvc.kinds import Opaque

    return Opaque("Type")


def _pure(name, *sorts):
    return z3.Function("pure_" + name, *sorts)


def _gdist_fn(ex, st):
    T = _T().sort()
    B = z3.BoolSort()
    f = z3.Function("gdist", I, T, I)
    if ("axiom", "gdist") in ex.__dict__.setdefault("_axiom_keys", set()):
        return f
    ex._axiom_keys.add(("axiom", "gdist"))
    ann, lst, uni, gen = (_pure(n, T, B) for n in ("is_annotated", "is_generic_list", "is_union", "is_generic"))
    params = _pure("get_generic_parameters", T, I)
    g = z3.Int("gd_g")
    ty = z3.Const("gd_ty", T)
    k = z3.Int("gd_k")
    # entry-heap reads (the grammar is read-only in every unit that uses gdist: checked by the frame obligations)
    ed_arr = ex.H.fld_arr(st, "expansion_depthing", B)
    dtt_arr = ex.H.fld_arr(st, "distanceToTerminal", I)
    H0 = ex.H.base
    ed = lambda gg: z3.If(H0[ex.H.n_fld("expansion_depthing", B)][gg], 1, 0)
    tbl = lambda gg, t: ex.H.map_arr(st, T, I) is not None and H0[ex.H.n_map(T, I)][H0[ex.H.n_fld("distanceToTerminal", I)][gg]][t]
    ln = ex.H.len_arr(st)
    el = ex.H.el_arr(st, T)
    L0, E0 = H0["len"], H0[ex.H.n_el(T)]
    P = lambda t: params(t)
    n_of = lambda t: L0[P(t)]
    at = lambda t, kk: E0[P(t)][kk]
    is_leaf = z3.And(z3.Not(ann(ty)), z3.Not(lst(ty)), z3.Not(uni(ty)), z3.Not(gen(ty)))
    ax = ex.axioms
    ax.append(z3.ForAll([g, ty], z3.Implies(ann(ty), f(g, ty) == f(g, at(ty, 0))), patterns=[f(g, ty)]))
    ax.append(z3.ForAll([g, ty], z3.Implies(z3.And(z3.Not(ann(ty)), lst(ty)), f(g, ty) == ed(g) + f(g, at(ty, 0))), patterns=[f(g, ty)]))
    # union: ed + the minimum over the alternatives (bounds every alternative, attained by one)
    wmin = z3.Function("gdist_argmin", I, T, I)
    wmax = z3.Function("gdist_argmax", I, T, I)
    isu = z3.And(z3.Not(ann(ty)), z3.Not(lst(ty)), uni(ty))
    ax.append(z3.ForAll([g, ty, k], z3.Implies(z3.And(isu, 0 <= k, k < n_of(ty)), f(g, ty) <= ed(g) + f(g, at(ty, k))), patterns=[z3.MultiPattern(f(g, ty), at(ty, k))]))
    ax.append(z3.ForAll([g, ty], z3.Implies(isu, z3.And(0 <= wmin(g, ty), wmin(g, ty) < n_of(ty), f(g, ty) == ed(g) + f(g, at(ty, wmin(g, ty))))), patterns=[f(g, ty)]))
    isg = z3.And(z3.Not(ann(ty)), z3.Not(lst(ty)), z3.Not(uni(ty)), gen(ty))
    ax.append(z3.ForAll([g, ty, k], z3.Implies(z3.And(isg, 0 <= k, k < n_of(ty)), f(g, ty) >= ed(g) + f(g, at(ty, k))), patterns=[z3.MultiPattern(f(g, ty), at(ty, k))]))
    ax.append(z3.ForAll([g, ty], z3.Implies(isg, z3.And(0 <= wmax(g, ty), wmax(g, ty) < n_of(ty), f(g, ty) == ed(g) + f(g, at(ty, wmax(g, ty))))), patterns=[f(g, ty)]))
    ax.append(z3.ForAll([g, ty], z3.Implies(is_leaf, f(g, ty) == tbl(g, ty)), patterns=[f(g, ty)]))
    return f


@specfunc("gdist")
def gdist(ex, st, g, ty):
    """minimum depth of a program derivable from `ty` in grammar g, as the equations of the property define it"""
    f = _gdist_fn(ex, st)
    t = ex.as_type(ty) or ty
    return V(INT, f(g.term, t.term))


@specfunc("gdist_defined")
def gdist_defined(ex, st, g, ty):
    """every leaf symbol reachable through the wrappers of `ty` has a table entry, and wrapper types carry the
    parameters their form needs (the shape invariant `typing` guarantees: Annotated/list have >= 1 parameter,
    unions and tuples >= 1)"""
    T = _T().sort()
    B = z3.BoolSort()
    d = z3.Function("gdist_defined", I, T, B)
    if ("axiom", "gdist_defined") not in ex.__dict__.setdefault("_axiom_keys", set()):
        ex._axiom_keys.add(("axiom", "gdist_defined"))
        ann, lst, uni, gen = (_pure(n, T, B) for n in ("is_annotated", "is_generic_list", "is_union", "is_generic"))
        params = _pure("get_generic_parameters", T, I)
        H0 = ex.H.base
        ex.H.len_arr(st), ex.H.el_arr(st, T), ex.H.fld_arr(st, "distanceToTerminal", I), ex.H.dom_arr(st, T)
        L0, E0 = H0["len"], H0[ex.H.n_el(T)]
        gg = z3.Int("gdd_g")
        ty_ = z3.Const("gdd_ty", T)
        k = z3.Int("gdd_k")
        n_of = L0[params(ty_)]
        at = lambda kk: E0[params(ty_)][kk]
        wrapper = z3.Or(ann(ty_), lst(ty_), uni(ty_), gen(ty_))
        dom = H0[ex.H.n_dom(T)][H0[ex.H.n_fld("distanceToTerminal", I)][gg]][ty_]
        ex.axioms.append(z3.ForAll([gg, ty_], z3.Implies(z3.And(d(gg, ty_), wrapper), z3.And(n_of >= 1, params(ty_) >= 1, params(ty_) < ex.top0)), patterns=[d(gg, ty_)]))
        ex.axioms.append(z3.ForAll([gg, ty_, k], z3.Implies(z3.And(d(gg, ty_), wrapper, 0 <= k, k < n_of), d(gg, at(k))), patterns=[z3.MultiPattern(d(gg, ty_), at(k))]))
        ex.axioms.append(z3.ForAll([gg, ty_], z3.Implies(z3.And(d(gg, ty_), z3.Not(wrapper)), dom), patterns=[d(gg, ty_)]))
    t = ex.as_type(ty) or ty
    return V(BOOL, d(g.term, t.term))
