"""Shared specification vocabulary: spec functions with a z3 encoding (here) and a native definition
(pyvc.native.NATIVE_FUNCS); axioms are added to the executor on first use."""
from __future__ import annotations

import z3

from pyvc.kinds import V, INT, REAL, BOOL, is_list
from pyvc.engine_call import specfunc
from pyvc.state import Unsupported, I, fresh
from pyvc import ops


def _psum_fn(ex, sort):
    name = "psum_" + str(sort)
    f = z3.Function(name, z3.ArraySort(I, sort), I, sort)
    key = ("axiom", name)
    if key not in ex.__dict__.setdefault("_axiom_keys", set()):
        ex._axiom_keys.add(key)
        a = z3.Const("ps_a", z3.ArraySort(I, sort))
        n = z3.Int("ps_n")
        zero = z3.RealVal(0) if sort == z3.RealSort() else z3.IntVal(0)
        ex.axioms.append(z3.ForAll([a, n], z3.Implies(n <= 0, f(a, n) == zero), patterns=[f(a, n)]))
        ex.axioms.append(z3.ForAll([a, n], z3.Implies(n > 0, f(a, n) == f(a, n - 1) + a[n - 1]), patterns=[f(a, n)]))
        ex.recdefs[f] = lambda aa, nn, f=f, zero=zero: z3.If(nn <= 0, zero, f(aa, nn - 1) + aa[nn - 1])
    return f


@specfunc("psum")
def psum(ex, st, lst, n):
    """psum(lst, n) = lst[0] + ... + lst[n-1]"""
    ek = ex.elem_kind(lst)
    f = _psum_fn(ex, ek.sort())
    return V(ek, f(ex.larr(st, lst), ops.to_int_term(n)))


@specfunc("oldel")
def oldel(ex, st, lst, i):
    """element i (current value of i) of lst in the function-entry heap"""
    old = st.ghost.get("__old__")
    if old is None:
        raise Unsupported("oldel outside two-state clause")
    ek = ex.elem_kind(lst)
    arr = ex.sel(old, ex.H.el_arr(old, ek.sort()), lst.term)
    return ex.from_term(ek, ex.sel(old, arr, ops.to_int_term(i)))


@specfunc("oldlen")
def oldlen(ex, st, lst):
    old = st.ghost.get("__old__")
    if old is None:
        raise Unsupported("oldlen outside two-state clause")
    return V(INT, ex.sel(old, ex.H.len_arr(old), lst.term))


@specfunc("trunc")
def trunc(ex, st, x):
    return V(INT, ops.real_trunc(ops.to_real_term(x)))


def _ssum_fn(ex):
    R_ = z3.RealSort()
    f = z3.Function("ssum", z3.ArraySort(I, R_), z3.ArraySort(I, z3.BoolSort()), I, R_)
    if ("axiom", "ssum") not in ex.__dict__.setdefault("_axiom_keys", set()):
        ex._axiom_keys.add(("axiom", "ssum"))
        c = z3.Const("ss_c", z3.ArraySort(I, R_))
        m = z3.Const("ss_m", z3.ArraySort(I, z3.BoolSort()))
        n = z3.Int("ss_n")
        ex.axioms.append(z3.ForAll([c, m, n], z3.Implies(n <= 0, f(c, m, n) == 0), patterns=[f(c, m, n)]))
        ex.axioms.append(z3.ForAll([c, m, n], z3.Implies(n > 0, f(c, m, n) == f(c, m, n - 1) + z3.If(m[n - 1], -c[n - 1], c[n - 1])), patterns=[f(c, m, n)]))
        ex.recdefs[f] = lambda cc, mm, nn, f=f: z3.If(nn <= 0, z3.RealVal(0), f(cc, mm, nn - 1) + z3.If(mm[nn - 1], -cc[nn - 1], cc[nn - 1]))
    return f


@specfunc("ssum")
def ssum(ex, st, comps, minimize, n):
    """ssum(c, m, n) = sum over k < n of (-c[k] if m[k] else c[k]): the property's default multi-objective aggregate"""
    f = _ssum_fn(ex)
    return V(REAL, f(ex.larr(st, comps), ex.larr(st, minimize), ops.to_int_term(n)))


@specfunc("budget_done")
def budget_done(ex, st, budget, tracker):
    """abstract 'this budget is exhausted' predicate: an uninterpreted function of the budget, the evaluation
    counter and the tracker's best individual (what concrete budgets read)"""
    f = z3.Function("budget_done", I, I, I, z3.BoolSort())
    ev = ex.fget(st, tracker, "evaluator", ex.field_kind(tracker.kind.target.cls, "evaluator"))
    cnt = ex.fget(st, ev, "count", INT)
    best = ex.fget(st, tracker, "best_individual", ex.field_kind(tracker.kind.target.cls, "best_individual"))
    return V(BOOL, f(budget.term, cnt.term, best.term))


# ---- grammar distance: DEFINED by the equations of the shallowest derivable program ---------------------------
def _T():
    from pyvc.kinds import Opaque

    return Opaque("Type")


def _pure(name, *sorts):
    return z3.Function("pure_" + name, *sorts)


def _typeform_axioms(ex):
    """Shape facts of `typing` objects as seen through grammar/utils.py (assumed; listed in the trusted base):
    tuple[...] and list[...] are generics, a list is not a tuple, neither is Annotated or a Union, a Union is not
    Annotated, is_metahandler is is_annotated."""
    if ("axiom", "typeforms") in ex.__dict__.setdefault("_axiom_keys", set()):
        return
    ex._axiom_keys.add(("axiom", "typeforms"))
    T, B = _T().sort(), z3.BoolSort()
    ann, lst, tup, uni, gen, mh = (_pure(n, T, B) for n in ("is_annotated", "is_generic_list", "is_generic_tuple", "is_union", "is_generic", "is_metahandler"))
    ty = z3.Const("tf_ty", T)
    ex.axioms.append(z3.ForAll([ty], z3.Implies(tup(ty), z3.And(gen(ty), z3.Not(lst(ty)), z3.Not(ann(ty)), z3.Not(uni(ty)))), patterns=[tup(ty)]))
    ex.axioms.append(z3.ForAll([ty], z3.Implies(lst(ty), z3.And(gen(ty), z3.Not(tup(ty)), z3.Not(ann(ty)), z3.Not(uni(ty)))), patterns=[lst(ty)]))
    ex.axioms.append(z3.ForAll([ty], z3.Implies(uni(ty), z3.Not(ann(ty))), patterns=[uni(ty)]))
    ex.axioms.append(z3.ForAll([ty], mh(ty) == ann(ty), patterns=[mh(ty)]))
    ex.note_assumption("type-form axioms: tuple/list are generics and mutually exclusive with Annotated/Union; is_metahandler == is_annotated (shape of typing objects, assumed)")


def _gdist_fn(ex, st):
    T = _T().sort()
    B = z3.BoolSort()
    f = z3.Function("gdist", I, T, I)
    _typeform_axioms(ex)
    if ("axiom", "gdist") in ex.__dict__.setdefault("_axiom_keys", set()):
        return f
    ex._axiom_keys.add(("axiom", "gdist"))
    ann, lst, uni, gen = (_pure(n, T, B) for n in ("is_annotated", "is_generic_list", "is_union", "is_generic"))
    params = _pure("get_generic_parameters", T, I)
    g = z3.Int("gd_g")
    ty = z3.Const("gd_ty", T)
    k = z3.Int("gd_k")
    # entry-heap reads (the grammar is read-only in every unit that uses gdist: checked by the frame obligations)
    ed_arr = ex.H.fld_arr(st, "expansion_depthing", B)
    dtt_arr = ex.H.fld_arr(st, "distanceToTerminal", I)
    H0 = ex.H.base
    ed = lambda gg: z3.If(H0[ex.H.n_fld("expansion_depthing", B)][gg], 1, 0)
    tbl = lambda gg, t: ex.H.map_arr(st, T, I) is not None and H0[ex.H.n_map(T, I)][H0[ex.H.n_fld("distanceToTerminal", I)][gg]][t]
    ln = ex.H.len_arr(st)
    el = ex.H.el_arr(st, T)
    L0, E0 = H0["len"], H0[ex.H.n_el(T)]
    P = lambda t: params(t)
    n_of = lambda t: L0[P(t)]
    at = lambda t, kk: E0[P(t)][kk]
    is_leaf = z3.And(z3.Not(ann(ty)), z3.Not(lst(ty)), z3.Not(uni(ty)), z3.Not(gen(ty)))
    ax = ex.axioms
    # every unfolding equation is triggered by the marker gd_unfold(ty), which the gdist() spec function emits for the
    # types a clause mentions: unguarded, f(g, ty) -> f(g, parameter(ty)) -> ... is a matching loop
    trig_f = z3.Function("gd_unfold", T, B)
    tr_ty = trig_f(ty)  # kept referenced: z3py's MultiPattern drops its argument tuple before the API call
    ex._pinned = getattr(ex, "_pinned", []) + [tr_ty]
    trig = lambda _t: tr_ty
    fg = f(g, ty)
    P1 = lambda: [z3.MultiPattern(fg, tr_ty)]
    ax.append(z3.ForAll([g, ty], z3.Implies(ann(ty), f(g, ty) == f(g, at(ty, 0))), patterns=P1()))
    ax.append(z3.ForAll([g, ty], z3.Implies(z3.And(z3.Not(ann(ty)), lst(ty)), f(g, ty) == ed(g) + f(g, at(ty, 0))), patterns=P1()))
    # union: ed + the minimum over the alternatives (bounds every alternative, attained by one)
    wmin = z3.Function("gdist_argmin", I, T, I)
    wmax = z3.Function("gdist_argmax", I, T, I)
    isu = z3.And(z3.Not(ann(ty)), z3.Not(lst(ty)), uni(ty))
    atk = at(ty, k)
    ax.append(z3.ForAll([g, ty, k], z3.Implies(z3.And(isu, 0 <= k, k < n_of(ty)), f(g, ty) <= ed(g) + f(g, at(ty, k))), patterns=[z3.MultiPattern(fg, tr_ty, atk)]))
    ax.append(z3.ForAll([g, ty], z3.Implies(isu, z3.And(0 <= wmin(g, ty), wmin(g, ty) < n_of(ty), f(g, ty) == ed(g) + f(g, at(ty, wmin(g, ty))))), patterns=P1()))
    isg = z3.And(z3.Not(ann(ty)), z3.Not(lst(ty)), z3.Not(uni(ty)), gen(ty))
    ax.append(z3.ForAll([g, ty, k], z3.Implies(z3.And(isg, 0 <= k, k < n_of(ty)), f(g, ty) >= ed(g) + f(g, at(ty, k))), patterns=[z3.MultiPattern(fg, tr_ty, atk)]))
    ax.append(z3.ForAll([g, ty], z3.Implies(isg, z3.And(0 <= wmax(g, ty), wmax(g, ty) < n_of(ty), f(g, ty) == ed(g) + f(g, at(ty, wmax(g, ty))))), patterns=P1()))
    ax.append(z3.ForAll([g, ty], z3.Implies(is_leaf, f(g, ty) == tbl(g, ty)), patterns=P1()))
    return f


@specfunc("gdist")
def gdist(ex, st, g, ty):
    """minimum depth of a program derivable from `ty` in grammar g, as the equations of the property define it"""
    f = _gdist_fn(ex, st)
    t = ex.as_type(ty) or ty
    trig = z3.Function("gd_unfold", _T().sort(), z3.BoolSort())
    ex.add_fact(st, trig(t.term))
    return V(INT, f(g.term, t.term))


@specfunc("gdist_defined")
def gdist_defined(ex, st, g, ty):
    """every leaf symbol reachable through the wrappers of `ty` has a table entry and (unless int / float / bool) is a
    registered node of the grammar, wrapper types are of a supported form (Annotated, list, union, tuple) and carry the
    parameters their form needs (the shape invariant `typing` guarantees: Annotated/list have >= 1 parameter,
    unions and tuples >= 1)"""
    T = _T().sort()
    B = z3.BoolSort()
    d = z3.Function("gdist_defined", I, T, B)
    if ("axiom", "gdist_defined") not in ex.__dict__.setdefault("_axiom_keys", set()):
        ex._axiom_keys.add(("axiom", "gdist_defined"))
        ann, lst, uni, gen = (_pure(n, T, B) for n in ("is_annotated", "is_generic_list", "is_union", "is_generic"))
        params = _pure("get_generic_parameters", T, I)
        H0 = ex.H.base
        ex.H.len_arr(st), ex.H.el_arr(st, T), ex.H.fld_arr(st, "distanceToTerminal", I), ex.H.dom_arr(st, T)
        L0, E0 = H0["len"], H0[ex.H.n_el(T)]
        gg = z3.Int("gdd_g")
        ty_ = z3.Const("gdd_ty", T)
        k = z3.Int("gdd_k")
        n_of = L0[params(ty_)]
        at = lambda kk: E0[params(ty_)][kk]
        wrapper = z3.Or(ann(ty_), lst(ty_), uni(ty_), gen(ty_))
        dom = H0[ex.H.n_dom(T)][H0[ex.H.n_fld("distanceToTerminal", I)][gg]][ty_]
        tupf = _pure("is_generic_tuple", T, B)
        supported = z3.Or(ann(ty_), lst(ty_), uni(ty_), tupf(ty_))  # the type forms create_node knows how to build
        ex.axioms.append(z3.ForAll([gg, ty_], z3.Implies(z3.And(d(gg, ty_), wrapper), z3.And(n_of >= 1, params(ty_) >= 1, params(ty_) < ex.top0, supported)), patterns=[d(gg, ty_)]))
        ex.axioms.append(z3.ForAll([gg, ty_, k], z3.Implies(z3.And(d(gg, ty_), wrapper, 0 <= k, k < n_of), d(gg, at(k))), patterns=[z3.MultiPattern(d(gg, ty_), at(k))]))
        member = z3.Function("pure_TypeSet___contains__", I, T, B)
        ex.H.fld_arr(st, "all_nodes", I)
        nodes_g = H0[ex.H.n_fld("all_nodes", I)][gg]
        base3 = [ex.as_type(V(FN, _fr("builtin", n_))).term for n_ in ("int", "float", "bool")]
        registered = z3.Or(*[ty_ == b_ for b_ in base3], member(nodes_g, ty_))
        ex.axioms.append(z3.ForAll([gg, ty_], z3.Implies(z3.And(d(gg, ty_), z3.Not(wrapper)), z3.And(dom, registered)), patterns=[d(gg, ty_)]))
    t = ex.as_type(ty) or ty
    return V(BOOL, d(g.term, t.term))


# ---- program values (opaque sort Val): well-typedness and depth, introduced by the value constructors ------------
def _VAL():
    from pyvc.kinds import Opaque

    return Opaque("Val")


def _wt_fn():
    return z3.Function("welltyped", _VAL().sort(), _T().sort(), I, z3.BoolSort())


def _vd_fn():
    return z3.Function("vdepth", _VAL().sort(), I)


def _value_axioms(ex, st):
    """The C01 / C03 definitions that do not depend on a particular constructor call (clause by clause from the
    property statement): base values have depth 0 and exactly their own type; a value of a production is a value
    of the abstract type that lists it; a value of a union alternative is a value of the union."""
    if ("axiom", "values") in ex.__dict__.setdefault("_axiom_keys", set()):
        return
    ex._axiom_keys.add(("axiom", "values"))
    VAL, T, B = _VAL().sort(), _T().sort(), z3.BoolSort()
    wt, vd = _wt_fn(), _vd_fn()
    bi = z3.Function("box_int", I, VAL)
    bf = z3.Function("box_float", z3.RealSort(), VAL)
    bb = z3.Function("box_bool", B, VAL)
    i, r, b, g = z3.Int("va_i"), z3.Real("va_r"), z3.Bool("va_b"), z3.Int("va_g")
    v = z3.Const("va_v", VAL)
    ty = z3.Const("va_ty", T)
    k = z3.Int("va_k")
    tint = ex.as_type(V(FN, _fr("builtin", "int"))).term
    tfloat = ex.as_type(V(FN, _fr("builtin", "float"))).term
    tbool = ex.as_type(V(FN, _fr("builtin", "bool"))).term
    ax = ex.axioms
    ax.append(z3.ForAll([i, g], z3.And(wt(bi(i), tint, g), vd(bi(i)) == 0), patterns=[wt(bi(i), tint, g)]))
    ax.append(z3.ForAll([i], vd(bi(i)) == 0, patterns=[vd(bi(i))]))
    ax.append(z3.ForAll([r, g], wt(bf(r), tfloat, g), patterns=[wt(bf(r), tfloat, g)]))
    ax.append(z3.ForAll([r], vd(bf(r)) == 0, patterns=[vd(bf(r))]))
    ax.append(z3.ForAll([b, g], wt(bb(b), tbool, g), patterns=[wt(bb(b), tbool, g)]))
    ax.append(z3.ForAll([b], vd(bb(b)) == 0, patterns=[vd(bb(b))]))
    # exactness of base types: a bool is not an int value, an int is not a bool / float value
    ax.append(z3.ForAll([b, g], z3.And(z3.Not(wt(bb(b), tint, g)), z3.Not(wt(bb(b), tfloat, g))), patterns=[wt(bb(b), tint, g)]))
    ax.append(z3.ForAll([i, g], z3.And(z3.Not(wt(bi(i), tbool, g)), z3.Not(wt(bi(i), tfloat, g))), patterns=[wt(bi(i), tbool, g)]))
    ax.append(z3.ForAll([v], vd(v) >= 0, patterns=[vd(v)]))
    # subsumption: productions under their abstract type, alternatives under their union
    H0 = ex.H.base
    ex.H.fld_arr(st, "alternatives", I), ex.H.map_arr(st, T, I), ex.H.dom_arr(st, T), ex.H.len_arr(st), ex.H.el_arr(st, T)
    alts = lambda gg, a: H0[ex.H.n_map(T, I)][H0[ex.H.n_fld("alternatives", I)][gg]][a]
    has = lambda gg, a: H0[ex.H.n_dom(T)][H0[ex.H.n_fld("alternatives", I)][gg]][a]
    L0, E0 = H0["len"], H0[ex.H.n_el(T)]
    ax.append(z3.ForAll([v, ty, g, k], z3.Implies(z3.And(has(g, ty), 0 <= k, k < L0[alts(g, ty)], wt(v, E0[alts(g, ty)][k], g)), wt(v, ty, g)),
                        patterns=[z3.MultiPattern(wt(v, E0[alts(g, ty)][k], g), has(g, ty))]))
    annp = _pure("is_annotated", T, B)
    md0 = z3.Function("pure_type_metadata0", T, I)
    rf = z3.Function("refinedby", I, VAL, B)
    params_ = _pure("get_generic_parameters", T, I)
    ax.append(z3.ForAll([v, ty, g], z3.Implies(z3.And(annp(ty), wt(v, E0[params_(ty)][0], g), rf(md0(ty), v)), wt(v, ty, g)),
                        patterns=[z3.MultiPattern(wt(v, E0[params_(ty)][0], g), annp(ty))]))
    uni = _pure("is_union", T, B)
    params = _pure("get_generic_parameters", T, I)
    ax.append(z3.ForAll([v, ty, g, k], z3.Implies(z3.And(uni(ty), 0 <= k, k < L0[params(ty)], wt(v, E0[params(ty)][k], g)), wt(v, ty, g)),
                        patterns=[z3.MultiPattern(wt(v, E0[params(ty)][k], g), uni(ty))]))


def _fr(tag, name):
    from pyvc.engine_expr import FuncRef

    return FuncRef(tag, name=name)


from pyvc.kinds import FN  # noqa: E402


def _box_tuple_facts(ex, st, v, bx):
    """Definition of well-typedness and depth for a real tuple (an immutable sequence cell), stated where the tuple
    becomes a program value: C01 'a real tuple for a tuple type' -- as many components as the type has parameters,
    each well-typed for its parameter; C03 'containers are transparent' -- depth = deepest component (0 if empty)."""
    from pyvc.kinds import Opaque

    if not (isinstance(v.kind.target.elem, Opaque) and v.kind.target.elem.sname == "Val"):
        return
    ex._pinned = getattr(ex, "_pinned", []) + [v.term]
    _value_axioms(ex, st)
    T, B = _T().sort(), z3.BoolSort()
    wt, vd = _wt_fn(), _vd_fn()
    n = ex.llen(st, v)
    arr = ex.larr(st, v)
    at = lambda kk: ex.sel(st, arr, kk)
    k = z3.Int("bt_k")
    ty, g = z3.Const("bt_ty", T), z3.Int("bt_g")
    w = fresh("bt_w", I)
    b = bx.term
    H0 = ex.H.base
    ex.H.len_arr(st), ex.H.el_arr(st, T)
    L0, E0 = H0["len"], H0[ex.H.n_el(T)]
    params = _pure("get_generic_parameters", T, I)
    tup = _pure("is_generic_tuple", T, B)
    facts = [
        ex.forall_p([k], z3.Implies(z3.And(0 <= k, k < n), vd(at(k)) <= vd(b)), [vd(at(k))]),
        z3.Implies(n == 0, vd(b) == 0),
        z3.Implies(n >= 1, z3.And(0 <= w, w < n, vd(b) == vd(at(w)))),
        z3.ForAll([ty, g], z3.Implies(z3.And(tup(ty), n == L0[params(ty)],
                                             z3.ForAll([k], z3.Implies(z3.And(0 <= k, k < n), wt(at(k), E0[params(ty)][k], g)))), wt(b, ty, g)),
                  patterns=[wt(b, ty, g)]),
    ]
    for f_ in facts:
        ex.add_fact(st, f_)


try:
    from pyvc.spec import REG as _REG

    _REG.hooks["box_tuple"] = _box_tuple_facts
except Exception:  # pragma: no cover
    pass


THE_GRAMMAR = z3.Int("THE_GRAMMAR")


@specfunc("handlers_may_fail")
def handlers_may_fail(ex, st):
    """a property of the grammar in use: some refinement's generate() can fail (raise the library's
    SynthesisException / GeneticEngineError) instead of producing a value -- e.g. a user-defined handler that runs out
    of candidates.  Uninterpreted: totality clauses are stated relative to it."""
    return V(BOOL, z3.Bool("HANDLERS_MAY_FAIL"))


@specfunc("thegrammar")
def thegrammar(ex, st):
    """the grammar the unit works with (well-typedness is relative to it)"""
    from pyvc.kinds import parse_kind

    return V(parse_kind("Grammar", ex.reg.opaque), THE_GRAMMAR)


@specfunc("welltyped")
def welltyped(ex, st, v, ty, g=None):
    """C01: v is a value of type ty in grammar g (introduced by the value constructors' contracts and the
    subsumption axioms; never assumed for anything the code did not build through them)"""
    _value_axioms(ex, st)
    vv = v if (hasattr(v.kind, "sname") and v.kind.sname == "Val") else ex.box_val(v, st)
    t = ex.as_type(ty) or ty
    return V(BOOL, _wt_fn()(vv.term, t.term, g.term if g is not None else THE_GRAMMAR))


@specfunc("refinedby")
def refinedby(ex, st, mh, v):
    """C02: v satisfies the documented predicate of the refinement object mh (uninterpreted here; each built-in
    handler's generate is verified against its documented predicate in specs/metahandlers.py)"""
    _value_axioms(ex, st)
    vv = v if (hasattr(v.kind, "sname") and v.kind.sname == "Val") else ex.box_val(v, st)
    return V(BOOL, z3.Function("refinedby", I, _VAL().sort(), z3.BoolSort())(mh.term, vv.term))


@specfunc("vdepth")
def vdepth(ex, st, v):
    """C03: depth of a program value -- longest chain of nested grammar nodes (base values 0, containers transparent)"""
    _value_axioms(ex, st)
    vv = v if (hasattr(v.kind, "sname") and v.kind.sname == "Val") else ex.box_val(v, st)
    return V(INT, _vd_fn()(vv.term))


@specfunc("g_ok")
def g_ok(ex, st, garg):
    """G_eq: the grammar's distance table satisfies the local equations the synthesis relies on -- base types 0,
    a concrete production 1 + the maximum over its field types (1 when it has no fields), an abstract type the
    minimum over its productions (attained), every field type / production registered.  Established by
    extract_grammar (checked on real grammars by the bounded C05 driver); assumed here (assume-guarantee)."""
    T, B = _T().sort(), z3.BoolSort()
    ok = z3.Function("g_ok", I, B)
    if ("axiom", "g_ok") not in ex.__dict__.setdefault("_axiom_keys", set()):
        ex._axiom_keys.add(("axiom", "g_ok"))
        f = _gdist_fn(ex, st)
        d = z3.Function("gdist_defined", I, T, B)
        H0 = ex.H.base
        ex.H.fld_arr(st, "alternatives", I), ex.H.map_arr(st, T, I), ex.H.dom_arr(st, T), ex.H.len_arr(st), ex.H.el_arr(st, T)
        ex.H.fld_arr(st, "all_nodes", I)
        alts = lambda gg, a: H0[ex.H.n_map(T, I)][H0[ex.H.n_fld("alternatives", I)][gg]][a]
        has = lambda gg, a: H0[ex.H.n_dom(T)][H0[ex.H.n_fld("alternatives", I)][gg]][a]
        member = z3.Function("pure_TypeSet___contains__", I, T, B)
        nodes = lambda gg: H0[ex.H.n_fld("all_nodes", I)][gg]
        L0, E0 = H0["len"], H0[ex.H.n_el(T)]
        args = _pure("get_arguments", T, I)  # list of (name, type) pairs
        from pyvc.kinds import Tup, Opaque

        pair = Tup([Opaque("Str"), Opaque("Type")])
        EP = ex.H.el_arr(st, pair.sort())
        EP0 = H0[ex.H.n_el(pair.sort())]
        fty = lambda c, k: pair.accs()[1](EP0[args(c)][k])
        g, a, c = z3.Int("go_g"), z3.Const("go_a", T), z3.Const("go_c", T)
        k = z3.Int("go_k")
        wmin = z3.Function("g_ok_argmin", I, T, I)
        wmax = z3.Function("g_ok_argmax", I, T, I)
        ann, lst, uni, gen = (_pure(n, T, B) for n in ("is_annotated", "is_generic_list", "is_union", "is_generic"))
        leaf = lambda t: z3.And(z3.Not(ann(t)), z3.Not(lst(t)), z3.Not(uni(t)), z3.Not(gen(t)))
        tint = ex.as_type(V(FN, _fr("builtin", "int"))).term
        tfloat = ex.as_type(V(FN, _fr("builtin", "float"))).term
        tbool = ex.as_type(V(FN, _fr("builtin", "bool"))).term
        ax = ex.axioms
        for t0 in (tint, tfloat, tbool):
            ax.append(z3.ForAll([g], z3.Implies(ok(g), z3.And(f(g, t0) == 0, d(g, t0), leaf(t0))), patterns=[ok(g)]))
        # abstract types: every production registered, distance = minimum over the productions (attained), ed = 0 handled by caller
        isabs = lambda gg, t: z3.And(leaf(t), has(gg, t))
        ax.append(z3.ForAll([g, a, k], z3.Implies(z3.And(ok(g), isabs(g, a), 0 <= k, k < L0[alts(g, a)]),
                                                  z3.And(d(g, E0[alts(g, a)][k]), f(g, a) <= _edg(ex, g) + f(g, E0[alts(g, a)][k]), member(nodes(g), E0[alts(g, a)][k]), leaf(E0[alts(g, a)][k]))),
                            patterns=[z3.MultiPattern(ok(g), E0[alts(g, a)][k])]))
        ax.append(z3.ForAll([g, a], z3.Implies(z3.And(ok(g), isabs(g, a), f(g, a) < 1000000),
                                               z3.And(0 <= wmin(g, a), wmin(g, a) < L0[alts(g, a)], f(g, a) == _edg(ex, g) + f(g, E0[alts(g, a)][wmin(g, a)]))),
                            patterns=[z3.MultiPattern(ok(g), alts(g, a))]))
        ax.append(z3.ForAll([g, a], z3.Implies(z3.And(ok(g), has(g, a)), z3.And(alts(g, a) >= 1, alts(g, a) < ex.top0)), patterns=[z3.MultiPattern(ok(g), alts(g, a))]))
        # distances are non-negative (table entries are 0 for base types and 1 + ... otherwise)
        fga = f(g, a)
        ex._pinned = getattr(ex, "_pinned", []) + [fga]
        ax.append(z3.ForAll([g, a], z3.Implies(ok(g), fga >= 0), patterns=[z3.MultiPattern(ok(g), fga)]))
        # registered nodes are classes, never typing wrappers (register_type adds a type only after the
        # is_generic_list / is_annotated / is_generic tests failed)
        mem_a = member(nodes(g), a)
        ex._pinned = getattr(ex, "_pinned", []) + [mem_a]
        ax.append(z3.ForAll([g, a], z3.Implies(z3.And(ok(g), mem_a), leaf(a)), patterns=[z3.MultiPattern(ok(g), mem_a)]))
        # concrete productions: 1 + max over field types (1 without fields); field types registered
        isconc = lambda gg, t: z3.And(leaf(t), z3.Not(has(gg, t)), member(nodes(gg), t), t != tint, t != tfloat, t != tbool)
        ax.append(z3.ForAll([g, c, k], z3.Implies(z3.And(ok(g), isconc(g, c), 0 <= k, k < L0[args(c)]),
                                                  z3.And(d(g, fty(c, k)), z3.Implies(f(g, c) < 1000000, f(g, c) >= 1 + f(g, fty(c, k))))),
                            patterns=[z3.MultiPattern(ok(g), EP0[args(c)][k])]))
        ax.append(z3.ForAll([g, c], z3.Implies(z3.And(ok(g), isconc(g, c)), z3.And(f(g, c) >= 1, args(c) >= 1, args(c) < ex.top0, L0[args(c)] >= 0)), patterns=[z3.MultiPattern(ok(g), args(c))]))
    return V(BOOL, ok(garg.term))


def _edg(ex, g):
    B = z3.BoolSort()
    H0 = ex.H.base
    return z3.If(H0[ex.H.n_fld("expansion_depthing", B)][g], 1, 0)
