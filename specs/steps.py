"""GP steps and combinators: population-size arithmetic (C15), elitism (C16), selection (C17)."""
import specs.evaluation  # noqa: F401  (declaration order)
import specs.sources  # noqa: F401  (declaration order)
from pyvc.spec import REG as R, Loop

COMB = "geneticengine/algorithms/gp/operators/combinators.py"
STRUCT = "geneticengine/algorithms/gp/structure.py"

R.cls("GeneticStep", fields={}, file=STRUCT)
R.cls("ParallelStep", bases=["GeneticStep"], fields={"steps": "list[GeneticStep]", "weights": "list[float]"}, file=COMB)
R.cls("ExclusiveParallelStep", bases=["ParallelStep"], fields={}, file=COMB)
R.cls("SequenceStep", bases=["GeneticStep"], fields={"steps": "list[GeneticStep]"}, file=COMB)
R.cls("IdentityStep", bases=["GeneticStep"], fields={}, file=COMB)

R.contract(
    "ParallelStep.cumsum",
    file=COMB,
    params=dict(self="ParallelStep", li="list[int]"),
    returns="list[int]",
    ensures={
        "len": "len(result) == len(li)",
        "running_sums": "forall(0, len(li), lambda k: result[k] == psum(li, k + 1))",
        "fresh": "fresh(result)",
    },
    loops={0: Loop(invariants={"len": "len(nl) == _k", "v": "v == psum(li, _k)", "sums": "forall(0, _k, lambda k: nl[k] == psum(li, k + 1))"}, modifies=["nl[]"])},
    locals={"nl": "list[int]"},
    fresh_result=True,
    props=["C15"],
)
PART = {
    "one_range_per_step": "len(result) == len(self.weights)",
    "starts_at_zero": "result[0][0] == 0",
    "ordered": "forall(0, len(result), lambda j: result[j][0] <= result[j][1])",
    "contiguous": "forall(0, len(result) - 1, lambda j: result[j][1] == result[j + 1][0])",
    "ends_at_target": "result[len(result) - 1][1] == target_size",
    "within_target": "forall(0, len(result), lambda j: 0 <= result[j][0] and result[j][1] <= target_size)",
}
R.contract(
    "ParallelStep.compute_ranges",
    file=COMB,
    params=dict(self="ParallelStep", population="list[Individual]", target_size="int"),
    returns="list[tuple[int,int]]",
    requires={
        "steps_and_weights": "len(self.weights) >= 1",
        "weights_nonneg": "forall(0, len(self.weights), lambda i: self.weights[i] >= 0)",
        "some_weight": "psum(self.weights, len(self.weights)) > 0",
        "target_nonneg": "target_size >= 0",
    },
    ensures=dict(PART),
    lemmas={"psum_nonneg": ("n", "0", "len(self.weights)", "psum(self.weights, n) >= 0")},
    post_lemmas={"share_sums_nonneg": ("n", "0", "len(shares)", "psum(shares, n) >= 0")},
    proves={
        "pre_shares_nonneg": "forall(0, len(shares), lambda k: shares[k] >= 0)",
        "pre_indices_monotone": "forall(0, len(indices) - 1, lambda k: indices[k] <= indices[k + 1])",
    },
    fresh_result=True,
    props=["C15", "C16"],
)

# ---- interface of every step: asked for k, given at least k (in any iterable form), yields exactly k --------
STEP_PARAMS = dict(problem="Problem", evaluator="Evaluator", representation="Representation", random="RandomSource",
                   population="iter[Individual]", target_size="int", generation="int")
STEP_REQ = {"target_nonneg": "target_size >= 0", "enough_individuals": "avail(population) >= target_size"}
STEP_ENS = {
    "exactly_k": "len(result) == target_size",
    # C09: whatever a step does, fitness values already cached on any individual stay as they were (stores only
    # grow) and a phenotype, once cached, is never replaced; genotypes and the population container are outside
    # every step's frame (modifies)
    "cached_fitness_kept": "fitness_stores_monotone()",
    "phenotype_cache_stable": "phenotypes_sticky()",
    # C16, run-level clause at the step interface: what an elitism step yields contains an individual at least as good as
    # every member of the population it was given
    "an_elitism_step_keeps_the_best": "implies(isinstance(self, ElitismStep) and target_size >= 1, forall(0, old(avail(population)), lambda e: "
    "problem in result[0].fitness_store and problem in old(item(population, e)).fitness_store and "
    "result[0].fitness_store[problem].maximizing_aggregate >= old(item(population, e)).fitness_store[problem].maximizing_aggregate))",
}
STEP_MOD = ["random.*", "evaluator.count", "problem.ff.fn.ncalls", "all:dict[Problem,Fitness]", "all:field:phenotype"]
for _other in ("IdentityStep", "ParallelStep", "ExclusiveParallelStep", "SequenceStep", "TournamentSelection", "LexicaseSelection", "GenericMutationStep",
               "GenericCrossoverStep", "NoveltyStep", "EvaluateStep"):
    R.disjoint.add(("ElitismStep", _other))  # single inheritance from GeneticStep: no step class is also an ElitismStep
for m in ("iterate", "apply"):
    R.contract(
        f"GeneticStep.{m}",
        params=dict(self="GeneticStep", **STEP_PARAMS),
        returns="iter[Individual]",
        requires=dict(STEP_REQ),
        ensures=dict(STEP_ENS),
        modifies=list(STEP_MOD),
        consumes=["population"],
        fresh_result=True,
        verify=False,
        note="interface contract of every genetic step (population in any iterable form)",
    )
R.contract(
    "GeneticStep.apply#body",
    src="GeneticStep.apply",
    file=STRUCT,
    params=dict(self="GeneticStep", **STEP_PARAMS),
    returns="iter[Individual]",
    requires=dict(STEP_REQ),
    ensures=dict(STEP_ENS),
    loops={0: Loop(invariants={"copied": "len(OUT) == _k and len(current) == _k", "yields_what_iterate_yields": "forall(0, _k, lambda j: same(OUT[j], _seq[j]))"},
                   modifies=["OUT[]", "current[]"])},
    modifies=list(STEP_MOD),
    props=["C15", "C09"],
)
R.contract("GeneticStep.pre_iterate", params=dict(self="GeneticStep", **STEP_PARAMS), returns="None", allocates=False, verify=False)
R.contract("GeneticStep.post_iterate", params=dict(self="GeneticStep", **STEP_PARAMS), returns="None", allocates=False, verify=False)

R.contract(
    "IdentityStep.iterate",
    file=COMB,
    overrides="GeneticStep.iterate",
    params=dict(self="IdentityStep", **STEP_PARAMS),
    returns="iter[Individual]",
    requires=dict(STEP_REQ),
    loops={0: Loop(invariants={"count": "len(OUT) == _k"}, modifies=["OUT[]"])},
    modifies=[],
    props=["C15", "C09"],
)
R.contract(
    "ParallelStep.iterate",
    file=COMB,
    overrides="GeneticStep.iterate",
    params=dict(self="ParallelStep", **STEP_PARAMS),
    returns="iter[Individual]",
    requires={
        **STEP_REQ,
        "steps_and_weights": "len(self.weights) >= 1 and len(self.steps) == len(self.weights)",
        "weights_nonneg": "forall(0, len(self.weights), lambda i: self.weights[i] >= 0)",
        "some_weight": "psum(self.weights, len(self.weights)) > 0",
    },
    loops={
        0: Loop(
            invariants={
                "telescoping": "len(OUT) == ite(_k == 0, 0, ranges[_k - 1][1])",
                "population_intact": "len(npopulation) >= target_size",
                "cached_fitness_kept": "fitness_stores_monotone()", "phenotype_cache_stable": "phenotypes_sticky()",
                "processed_slices_are_in_the_output": "forall(0, _k, lambda i: ranges[i][1] <= len(OUT) and 0 <= ranges[i][0])",
                "elitism_slots_so_far_kept_the_best": "forall(0, _k, lambda i: implies(isinstance(self.steps[i], ElitismStep) and ranges[i][1] - ranges[i][0] > 0, forall(0, len(npopulation), lambda e: problem in OUT[ranges[i][0]].fitness_store and problem in npopulation[e].fitness_store and OUT[ranges[i][0]].fitness_store[problem].maximizing_aggregate >= npopulation[e].fitness_store[problem].maximizing_aggregate)))",
                "sub_steps_see_the_complete_population": "len(npopulation) == old(avail(population)) and forall(0, len(npopulation), lambda e: same(npopulation[e], old(item(population, e))))",
            },
            modifies=["OUT[]"] + STEP_MOD,
        )
    },
    proves={
        # C16, second sentence, at the level of one generation step: if a slice of positive size is given to an elitism step, the
        # new population contains an individual at least as good as every member of the old one
        "a_reserved_elitism_slot_keeps_the_best": "forall(0, len(self.steps), lambda i: implies(isinstance(self.steps[i], ElitismStep) and ranges[i][1] - ranges[i][0] > 0, forall(0, old(avail(population)), lambda e: problem in result[ranges[i][0]].fitness_store and problem in old(item(population, e)).fitness_store and result[ranges[i][0]].fitness_store[problem].maximizing_aggregate >= old(item(population, e)).fitness_store[problem].maximizing_aggregate)))",
    },
    modifies=list(STEP_MOD),
    props=["C15", "C16", "C09"],
)
R.contract(
    "ExclusiveParallelStep.iterate",
    file=COMB,
    overrides="GeneticStep.iterate",
    params=dict(self="ExclusiveParallelStep", **STEP_PARAMS),
    returns="iter[Individual]",
    requires={
        **STEP_REQ,
        "steps_and_weights": "len(self.weights) >= 1 and len(self.steps) == len(self.weights)",
        "weights_nonneg": "forall(0, len(self.weights), lambda i: self.weights[i] >= 0)",
        "some_weight": "psum(self.weights, len(self.weights)) > 0",
    },
    loops={
        0: Loop(
            invariants={
                "telescoping": "len(OUT) == ite(_k == 0, 0, ranges[_k - 1][1])",
                "population_intact": "len(npopulation) >= target_size",
                "cached_fitness_kept": "fitness_stores_monotone()", "phenotype_cache_stable": "phenotypes_sticky()",
            },
            modifies=["OUT[]"] + STEP_MOD,
        )
    },
    modifies=list(STEP_MOD),
    props=["C15", "C09"],
)

# ---- helpers used by the steps ---------------------------------------------------------------------------
EAPI = "geneticengine/evaluation/api.py"
HLP = "geneticengine/problems/helpers.py"
IND = "geneticengine/solutions/individual.py"
R.contract(
    "Evaluator.evaluate",
    file=EAPI,
    params=dict(self="Evaluator", problem="Problem", individuals="list[Individual]"),
    returns="None",
    requires={},
    ensures={
        "all_evaluated": "forall(0, len(individuals), lambda k: problem in individuals[k].fitness_store)",
        "existing_fitness_kept": "fitness_stores_monotone()",
        "phenotype_cache_stable": "phenotypes_sticky()",
        "list_unchanged": "len(individuals) == oldlen(individuals) and forall(0, len(individuals), lambda k: same(individuals[k], oldel(individuals, k)))",
        "counter_bounds": "self.count >= old(self.count) and self.count <= old(self.count) + len(individuals)",
    },
    loops={0: Loop(invariants={"t": "True"}, modifies=[])},
    modifies=["self.count", "problem.ff.fn.ncalls", "all:dict[Problem,Fitness]", "all:field:phenotype"],
    props=["C13", "C15", "C16", "C17", "C09"],
)
R.contract(
    "Individual.ensure_fitness",
    file=IND,
    params=dict(self="Individual", problem="Problem"),
    returns="None",
    requires={"already_evaluated": "problem in self.fitness_store"},
    ensures={},
    modifies=[],
    allocates=False,
    props=["C17", "C13"],
    note="as used by the selection key function after the population has been evaluated: a no-op",
)
R.contract("Individual.key_function", file=IND, inline=True, params=dict(problem="Problem"), returns="any", verify=False)
R.contract(
    "sort_population",
    file=HLP,
    params=dict(population="list[Individual]", problem="Problem"),
    returns="list[Individual]",
    requires={"all_evaluated": "forall(0, len(population), lambda k: problem in population[k].fitness_store)"},
    ensures={
        "fresh": "fresh(result)",
        "same_size": "len(result) == len(population)",
        "members": "forall(0, len(result), lambda j: exists(0, len(population), lambda e: same(result[j], population[e])))",
        "best_first": "forall(0, len(result), lambda i: forall(i + 1, len(result), lambda j: "
        "result[i].fitness_store[problem].maximizing_aggregate >= result[j].fitness_store[problem].maximizing_aggregate))",
        "first_is_max": "forall(0, len(population), lambda e: len(result) >= 1 and "
        "result[0].fitness_store[problem].maximizing_aggregate >= population[e].fitness_store[problem].maximizing_aggregate)",
        "evaluated": "forall(0, len(result), lambda k: problem in result[k].fitness_store)",
        "every_input_appears": "len(INV) == len(population) and forall(0, len(population), lambda e: "
        "0 <= INV[e] and INV[e] < len(result) and same(result[INV[e]], population[e]))",
    },
    witnesses={"INV": ("SORTINV0", "list[int]")},
    proves={
        "is_permutation": "len(SORTPERM0) == len(population) and forall(0, len(population), lambda i: "
        "0 <= SORTPERM0[i] and SORTPERM0[i] < len(population) and same(result[i], population[SORTPERM0[i]]) and SORTINV0[SORTPERM0[i]] == i)",
    },
    fresh_result=True,
    props=["C16"],
)

R.contract(
    "is_better",
    file=HLP,
    params=dict(problem="Problem", individual="Individual", other="Individual"),
    returns="bool",
    requires={"both_evaluated": "problem in individual.fitness_store and problem in other.fitness_store"},
    ensures={
        "strict_comparison_of_the_recorded_aggregates": "result == (individual.fitness_store[problem].maximizing_aggregate > "
        "other.fitness_store[problem].maximizing_aggregate)",
    },
    modifies=[],
    allocates=False,
    props=["C12", "C16"],
)
R.contract(
    "best_individual",
    file=HLP,
    params=dict(population="list[Individual]", problem="Problem"),
    returns="Individual",
    requires={
        "non_empty": "len(population) >= 1",
        "all_evaluated": "forall(0, len(population), lambda k: problem in population[k].fitness_store)",
    },
    ensures={
        "member": "exists(0, len(population), lambda e: same(result, population[e]))",
        "no_member_is_better": "forall(0, len(population), lambda e: "
        "result.fitness_store[problem].maximizing_aggregate >= population[e].fitness_store[problem].maximizing_aggregate)",
    },
    modifies=[],
    allocates=False,
    props=["C12", "C16"],
)

ELI = "geneticengine/algorithms/gp/operators/elitism.py"
R.cls("ElitismStep", bases=["GeneticStep"], fields={}, file=ELI)
DISTINCT = {}
R.contract(
    "ElitismStep.iterate",
    file=ELI,
    overrides="GeneticStep.iterate",
    params=dict(self="ElitismStep", **STEP_PARAMS),
    returns="iter[Individual]",
    requires={**STEP_REQ, **DISTINCT},
    ensures={
        "members": "forall(0, len(result), lambda j: exists(0, old(avail(population)), lambda e: same(result[j], old(item(population, e)))))",
        "evaluated": "forall(0, len(result), lambda j: problem in result[j].fitness_store)",
        "best_is_kept": "implies(target_size >= 1, forall(0, old(avail(population)), lambda e: "
        "result[0].fitness_store[problem].maximizing_aggregate >= old(item(population, e)).fitness_store[problem].maximizing_aggregate))",
    },
    proves={
        "top_k": "forall(0, len(candidates), lambda e: forall(0, target_size, lambda j: "
        "(WIT_INV[e] < target_size and same(new_population[WIT_INV[e]], candidates[e])) or "
        "new_population[j].fitness_store[problem].maximizing_aggregate >= candidates[e].fitness_store[problem].maximizing_aggregate))",
    },
    modifies=["evaluator.count", "problem.ff.fn.ncalls", "all:dict[Problem,Fitness]", "all:field:phenotype"],
    props=["C15", "C16", "C13", "C09"],
)

# ---- remaining steps ---------------------------------------------------------------------------------------
SEL = "geneticengine/algorithms/gp/operators/selection.py"
MUT = "geneticengine/algorithms/gp/operators/mutation.py"
CRO = "geneticengine/algorithms/gp/operators/crossover.py"
NOV = "geneticengine/algorithms/gp/operators/novelty.py"
EVS = "geneticengine/algorithms/gp/operators/evaluation.py"
R.cls("TournamentSelection", bases=["GeneticStep"], fields={"tournament_size": "int", "with_replacement": "bool"}, file=SEL)
R.cls("GenericMutationStep", bases=["GeneticStep"], fields={"probability": "float"}, file=MUT)
R.cls("GenericCrossoverStep", bases=["GeneticStep"], fields={"probability": "float"}, file=CRO)
R.cls("NoveltyStep", bases=["GeneticStep"], fields={}, file=NOV)
R.cls("EvaluateStep", bases=["GeneticStep"], fields={}, file=EVS)

R.contract(
    "Representation.create_genotype",
    params=dict(self="Representation", random="RandomSource", kwargs="any"),
    returns="Genotype",
    modifies=["random.*"],
    fresh_result=False,
    verify=False,
    note="interface: may raise the library's own errors (not modelled here); result is some genotype",
)
R.contract(
    "Representation.mutate",
    params=dict(self="Representation", random="RandomSource", genotype="Genotype?", kwargs="any"),
    returns="Genotype",
    modifies=["random.*"],
    verify=False,
)
R.contract(
    "Representation.crossover",
    params=dict(self="Representation", random="RandomSource", parent1="Genotype?", parent2="Genotype?", kwargs="any"),
    returns="tuple[Genotype,Genotype]",
    modifies=["random.*"],
    verify=False,
)
R.contract(
    "TournamentSelection.iterate",
    file=SEL,
    overrides="GeneticStep.iterate",
    params=dict(self="TournamentSelection", **STEP_PARAMS),
    returns="iter[Individual]",
    requires={**STEP_REQ, **DISTINCT, "tournament_size_pos": "self.tournament_size >= 1", "nonempty_population": "avail(population) >= 1"},
    ensures={
        "members": "forall(0, len(result), lambda j: exists(0, old(avail(population)), lambda e: same(result[j], old(item(population, e)))))",
    },
    loops={
        0: Loop(
            invariants={
                "count": "len(OUT) == _k",
                "winners_are_members": "forall(0, _k, lambda j: exists(0, len(pool), lambda e: same(OUT[j], pool[e])))",
                "candidates_are_members": "len(candidates) >= 1 and forall(0, len(candidates), lambda c: exists(0, len(pool), lambda e: same(candidates[c], pool[e])))",
                "pool_evaluated": "len(pool) >= 1 and forall(0, len(pool), lambda e: problem in pool[e].fitness_store)",
                "pool_is_input": "len(pool) == old(avail(population)) and forall(0, len(pool), lambda e: same(pool[e], old(item(population, e))))",
            },
            modifies=["OUT[]", "random.*"],
        )
    },
    yield_asserts={
        "winner_was_drawn": "exists(0, len(candidates), lambda c: same(yielded, candidates[c]))",
        "winner_beats_every_participant": "forall(0, len(candidates), lambda c: "
        "yielded.fitness_store[problem].maximizing_aggregate >= candidates[c].fitness_store[problem].maximizing_aggregate)",
    },
    modifies=["random.*", "evaluator.count", "problem.ff.fn.ncalls", "all:dict[Problem,Fitness]", "all:field:phenotype"],
    props=["C15", "C17", "C13", "C09"],
)

R.contract(
    "Individual.__init__",
    params=dict(self="Individual", genotype="Genotype?", representation="Representation", metadata="any"),
    returns="None",
    ensures={
        "fields": "same(self.genotype, genotype) and same(self.representation, representation) and self.phenotype is None",
        "no_fitness_yet": "emptydict(self.fitness_store) and fresh(self.fitness_store) and len(keysof(self.fitness_store)) == 0",
    },
    modifies=["self.*"],
    verify=False,
    note="constructor summary (body: four field assignments and a fresh WeakKeyDictionary); class-level default phenotype = None",
)
R.contract(
    "NoveltyStep.iterate",
    file=NOV,
    overrides="GeneticStep.iterate",
    params=dict(self="NoveltyStep", **STEP_PARAMS),
    returns="iter[Individual]",
    requires={"target_nonneg": "target_size >= 0"},
    loops={0: Loop(invariants={"count": "len(OUT) == _k"}, modifies=["OUT[]", "random.*"])},
    modifies=["random.*"],
    props=["C15", "C09"],
)
R.contract(
    "GenericMutationStep.iterate",
    file=MUT,
    overrides="GeneticStep.iterate",
    params=dict(self="GenericMutationStep", **STEP_PARAMS),
    returns="iter[Individual]",
    requires={**STEP_REQ, "representation_mutates": "isinstance(representation, RepresentationWithMutation)"},
    loops={0: Loop(invariants={"count": "len(OUT) == ite(_k < target_size, _k, target_size)"}, modifies=["OUT[]", "random.*"])},
    modifies=["random.*"],
    props=["C15", "C09"],
)
R.contract(
    "GenericCrossoverStep.crossover",
    file=CRO,
    params=dict(self="GenericCrossoverStep", random="RandomSource", individual1="Individual", individual2="Individual", representation="Representation"),
    returns="tuple[Individual,Individual]",
    requires={"representation_crosses": "isinstance(representation, RepresentationWithCrossover)"},
    ensures={"two_new_individuals": "fresh(result[0]) and fresh(result[1])"},
    modifies=["random.*"],
    props=["C15", "C09"],
)
R.contract(
    "GenericCrossoverStep.iterate",
    file=CRO,
    overrides="GeneticStep.iterate",
    params=dict(self="GenericCrossoverStep", **STEP_PARAMS),
    returns="iter[Individual]",
    requires={**STEP_REQ, "representation_crosses": "isinstance(representation, RepresentationWithCrossover)",
              "pairs_available": "implies(target_size >= 2, avail(population) >= 2)"},
    loops={0: Loop(invariants={"count": "len(OUT) == 2 * _k", "population_kept": "len(npopulation) == old(avail(population))"},
                   modifies=["OUT[]", "random.*"])},
    modifies=["random.*"],
    props=["C15", "C09"],
)
R.contract(
    "EvaluateStep.iterate",
    file=EVS,
    overrides="GeneticStep.iterate",
    params=dict(self="EvaluateStep", **STEP_PARAMS),
    returns="iter[Individual]",
    requires={**STEP_REQ, **DISTINCT},
    modifies=["evaluator.count", "problem.ff.fn.ncalls", "all:dict[Problem,Fitness]", "all:field:phenotype"],
    props=["C15", "C13", "C09"],
)
R.contract(
    "SequenceStep.iterate",
    file=COMB,
    overrides="GeneticStep.iterate",
    params=dict(self="SequenceStep", **STEP_PARAMS),
    returns="iter[Individual]",
    requires={**STEP_REQ, "at_least_one_step": "len(self.steps) >= 1"},
    loops={0: Loop(invariants={"enough": "avail(npopulation) >= target_size", "exact_after_first": "implies(_k >= 1, avail(npopulation) == target_size)", "cached_fitness_kept": "fitness_stores_monotone()", "phenotype_cache_stable": "phenotypes_sticky()"},
                   modifies=list(STEP_MOD))},
    modifies=list(STEP_MOD),
    props=["C15", "C09"],
)

# ---- initialisers, Population, GP ---------------------------------------------------------------------------
INIT = "geneticengine/algorithms/gp/operators/initializers.py"
TOP = "geneticengine/representations/tree/operators.py"
COMMON = "geneticengine/representations/common.py"
POP = "geneticengine/algorithms/gp/population.py"
GPF = "geneticengine/algorithms/gp/gp.py"
R.cls("PopulationInitializer", fields={}, file=STRUCT)
INIT_PARAMS = dict(problem="Problem", representation="Representation", random="RandomSource", target_size="int")
R.contract(
    "PopulationInitializer.initialize",
    params=dict(self="PopulationInitializer", **INIT_PARAMS),
    returns="iter[Individual]",
    requires={"target_nonneg": "target_size >= 0"},
    ensures={"exactly_k": "len(result) == target_size"},
    modifies=["random.*"],
    fresh_result=True,
    verify=False,
    note="interface contract of every population initialiser",
)
R.cls("StandardInitializer", bases=["PopulationInitializer"], fields={}, file=INIT)
R.cls("HalfAndHalfInitializer", bases=["PopulationInitializer"], fields={"initializer1": "PopulationInitializer", "initializer2": "PopulationInitializer"}, file=INIT)
R.cls("GenericPopulationInitializer", bases=["PopulationInitializer"], fields={}, file=COMMON)
R.cls("InjectInitialPopulationWrapper", bases=["PopulationInitializer"], fields={"programs": "list[Individual]", "backup_initializer": "PopulationInitializer"}, file=TOP)
R.cls("TreeBasedRepresentation", bases=["Representation"], fields={}, file="geneticengine/representations/tree/treebased.py")
for key, file in (("StandardInitializer", INIT), ("GenericPopulationInitializer", COMMON)):
    R.contract(
        f"{key}.initialize",
        file=file,
        overrides="PopulationInitializer.initialize",
        params=dict(self=key, **INIT_PARAMS, **({"kwargs": "any"} if key == "StandardInitializer" else {})),
        returns="iter[Individual]",
        requires={"target_nonneg": "target_size >= 0"},
        loops={0: Loop(invariants={"count": "len(OUT) == _k"}, modifies=["OUT[]", "random.*"])},
        modifies=["random.*"],
        props=["C15"],
    )
R.contract(
    "HalfAndHalfInitializer.initialize",
    file=INIT,
    overrides="PopulationInitializer.initialize",
    params=dict(self="HalfAndHalfInitializer", **INIT_PARAMS, kwargs="any"),
    returns="iter[Individual]",
    requires={"target_nonneg": "target_size >= 0"},
    modifies=["random.*"],
    props=["C15"],
)
R.contract(
    "InjectInitialPopulationWrapper.initialize",
    file=TOP,
    overrides="PopulationInitializer.initialize",
    params=dict(self="InjectInitialPopulationWrapper", **INIT_PARAMS),
    returns="iter[Individual]",
    requires={"target_nonneg": "target_size >= 0", "tree_representation": "isinstance(representation, TreeBasedRepresentation)"},
    loops={0: Loop(invariants={"count": "len(OUT) == _k"}, modifies=["OUT[]"])},
    modifies=["random.*"],
    props=["C15"],
    note="injected programs are modelled as Individuals (the Individual branch of ensure_ind); wrapping of raw trees is covered by the bounded layer",
)

R.cls("Population", fields={"tracker": "SingleObjectiveProgressTracker", "individuals": "list[Individual]"}, file=POP)
R.contract(
    "ProgressTracker.evaluate_single",
    params=dict(self="SingleObjectiveProgressTracker", individual="Individual"),
    returns="None",
    ensures={"evaluated": "self.problem in individual.fitness_store", "existing_fitness_kept": "fitness_stores_monotone()"},
    modifies=["self.best_individual", "self.hist[]", "class:SearchRecorder", "self.evaluator.count", "self.problem.ff.fn.ncalls", "all:dict[Problem,Fitness]", "all:field:phenotype"],
    verify=False,
    note="summary of evaluate([individual]) (verified as SingleObjectiveProgressTracker.evaluate) for use inside Population",
)
R.contract(
    "Population.__init__",
    file=POP,
    params=dict(self="Population", it="iter[Individual]", tracker="SingleObjectiveProgressTracker", generation="int"),
    returns="None",
    ensures={
        "holds_every_individual_given": "len(self.individuals) == old(avail(it))",
        "fresh_list": "fresh(self.individuals)",
        "tracker_kept": "same(self.tracker, tracker)",
    },
    loops={0: Loop(invariants={"count": "len(self.individuals) == _k and fresh(self.individuals) and same(self.tracker, tracker)"},
                   modifies=["self.individuals[]", "all:dict[Problem,Fitness]", "all:dict[~Str,int]", "all:field:phenotype", "tracker.best_individual", "tracker.hist[]",
                             "class:SearchRecorder", "tracker.evaluator.count", "tracker.problem.ff.fn.ncalls"])},
    modifies=["self.*", "all:dict[Problem,Fitness]", "all:dict[~Str,int]", "all:field:phenotype", "tracker.best_individual", "tracker.hist[]", "class:SearchRecorder",
              "tracker.evaluator.count", "tracker.problem.ff.fn.ncalls"],
    consumes=["it"],
    props=["C15", "C13"],
    note="ind.metadata['generation'] = generation is a write to a per-individual dict (covered by all:dict[~Str,int])",
)

R.cls("GeneticProgramming", bases=["HeuristicSearch"], fields={"population_size": "int", "population_initializer": "PopulationInitializer", "step": "GeneticStep"}, file=GPF)
R.contract(
    "GeneticProgramming.search",
    file=GPF,
    params=dict(self="GeneticProgramming"),
    returns="Individual?",
    requires={
        "population_size_nonneg": "self.population_size >= 0",
        "representation_varies": "isinstance(self.representation, RepresentationWithMutation) and isinstance(self.representation, RepresentationWithCrossover)",
    },
    ensures={"returns_tracker_best": "same(result, self.tracker.best_individual)",
             "budget_met": "self.tracker.evaluator.count >= self.budget.evaluations_budget"},
    proves={"final_generation_has_population_size": "len(population.individuals) == self.population_size"},
    loops={
        0: Loop(
            invariants={
                "every_generation_has_population_size": "len(population.individuals) == self.population_size",
                "config_unchanged": "same(self.tracker, old(self.tracker)) and same(self.budget, old(self.budget)) and "
                "self.population_size == old(self.population_size) and same(self.step, old(self.step)) and same(self.problem, old(self.problem)) and "
                "same(self.representation, old(self.representation)) and same(self.random, old(self.random)) and "
                "self.budget.evaluations_budget == old(self.budget.evaluations_budget) and same(self.tracker.evaluator, old(self.tracker.evaluator)) and "
                "same(population.tracker, self.tracker)",
            },
            modifies=["self.random.*", "all:dict[Problem,Fitness]", "all:dict[~Str,int]", "all:field:phenotype", "self.tracker.best_individual", "self.tracker.hist[]", "class:SearchRecorder",
                      "self.tracker.evaluator.count", "self.tracker.problem.ff.fn.ncalls", "self.problem.ff.fn.ncalls"],
        )
    },
    modifies=["self.random.*", "all:dict[Problem,Fitness]", "all:dict[~Str,int]", "all:field:phenotype", "self.tracker.best_individual", "self.tracker.hist[]", "class:SearchRecorder",
              "self.tracker.evaluator.count", "self.tracker.problem.ff.fn.ncalls", "self.problem.ff.fn.ncalls"],
    props=["C15", "C12", "C10"],
    note="partial correctness only: termination of GP depends on the step producing unevaluated individuals (DESIGN.md 3/C14)",
)
