"""GP steps and combinators: population-size arithmetic (C15), elitism (C16), selection (C17)."""
from pyvc.spec import REG as R, Loop

COMB = "geneticengine/algorithms/gp/operators/combinators.py"
STRUCT = "geneticengine/algorithms/gp/structure.py"

R.cls("GeneticStep", fields={}, file=STRUCT)
R.cls("ParallelStep", bases=["GeneticStep"], fields={"steps": "list[GeneticStep]", "weights": "list[float]"}, file=COMB)
R.cls("ExclusiveParallelStep", bases=["ParallelStep"], fields={}, file=COMB)
R.cls("SequenceStep", bases=["GeneticStep"], fields={"steps": "list[GeneticStep]"}, file=COMB)
R.cls("IdentityStep", bases=["GeneticStep"], fields={}, file=COMB)

R.contract(
    "ParallelStep.cumsum",
    file=COMB,
    params=dict(self="ParallelStep", li="list[int]"),
    returns="list[int]",
    ensures={
        "len": "len(result) == len(li)",
        "running_sums": "forall(0, len(li), lambda k: result[k] == psum(li, k + 1))",
        "fresh": "fresh(result)",
    },
    loops={0: Loop(invariants={"len": "len(nl) == _k", "v": "v == psum(li, _k)", "sums": "forall(0, _k, lambda k: nl[k] == psum(li, k + 1))"}, modifies=["nl[]"])},
    locals={"nl": "list[int]"},
    fresh_result=True,
    props=["C15"],
)
PART = {
    "one_range_per_step": "len(result) == len(self.weights)",
    "starts_at_zero": "result[0][0] == 0",
    "ordered": "forall(0, len(result), lambda j: result[j][0] <= result[j][1])",
    "contiguous": "forall(0, len(result) - 1, lambda j: result[j][1] == result[j + 1][0])",
    "ends_at_target": "result[len(result) - 1][1] == target_size",
    "within_target": "forall(0, len(result), lambda j: 0 <= result[j][0] and result[j][1] <= target_size)",
}
R.contract(
    "ParallelStep.compute_ranges",
    file=COMB,
    params=dict(self="ParallelStep", population="list[Individual]", target_size="int"),
    returns="list[tuple[int,int]]",
    requires={
        "steps_and_weights": "len(self.weights) >= 1",
        "weights_nonneg": "forall(0, len(self.weights), lambda i: self.weights[i] >= 0)",
        "some_weight": "psum(self.weights, len(self.weights)) > 0",
        "target_nonneg": "target_size >= 0",
    },
    ensures=dict(PART),
    lemmas={"psum_nonneg": ("n", "0", "len(self.weights)", "psum(self.weights, n) >= 0")},
    post_lemmas={"share_sums_nonneg": ("n", "0", "len(shares)", "psum(shares, n) >= 0")},
    fresh_result=True,
    props=["C15", "C16"],
)

# ---- interface of every step: asked for k, given at least k (in any iterable form), yields exactly k --------
STEP_PARAMS = dict(problem="Problem", evaluator="Evaluator", representation="Representation", random="RandomSource",
                   population="iter[Individual]", target_size="int", generation="int")
STEP_REQ = {"target_nonneg": "target_size >= 0", "enough_individuals": "avail(population) >= target_size"}
STEP_ENS = {"exactly_k": "len(result) == target_size"}
STEP_MOD = ["random.*", "evaluator.count", "problem.ff.fn.ncalls", "all:dict", "all:field:phenotype"]
for m in ("iterate", "apply"):
    R.contract(
        f"GeneticStep.{m}",
        params=dict(self="GeneticStep", **STEP_PARAMS),
        returns="iter[Individual]",
        requires=dict(STEP_REQ),
        ensures=dict(STEP_ENS),
        modifies=list(STEP_MOD),
        consumes=["population"],
        fresh_result=True,
        verify=False,
        note="interface contract of every genetic step (population in any iterable form)",
    )
R.contract(
    "GeneticStep.apply#body",
    src="GeneticStep.apply",
    file=STRUCT,
    params=dict(self="GeneticStep", **STEP_PARAMS),
    returns="iter[Individual]",
    requires=dict(STEP_REQ),
    ensures=dict(STEP_ENS),
    loops={0: Loop(invariants={"copied": "len(OUT) == _k and len(current) == _k"}, modifies=["OUT[]", "current[]"])},
    modifies=list(STEP_MOD),
    props=["C15"],
)
R.contract("GeneticStep.pre_iterate", params=dict(self="GeneticStep", **STEP_PARAMS), returns="None", allocates=False, verify=False)
R.contract("GeneticStep.post_iterate", params=dict(self="GeneticStep", **STEP_PARAMS), returns="None", allocates=False, verify=False)

R.contract(
    "IdentityStep.iterate",
    file=COMB,
    overrides="GeneticStep.iterate",
    params=dict(self="IdentityStep", **STEP_PARAMS),
    returns="iter[Individual]",
    requires=dict(STEP_REQ),
    loops={0: Loop(invariants={"count": "len(OUT) == _k"}, modifies=["OUT[]"])},
    modifies=[],
    props=["C15"],
)
R.contract(
    "ParallelStep.iterate",
    file=COMB,
    overrides="GeneticStep.iterate",
    params=dict(self="ParallelStep", **STEP_PARAMS),
    returns="iter[Individual]",
    requires={
        **STEP_REQ,
        "steps_and_weights": "len(self.weights) >= 1 and len(self.steps) == len(self.weights)",
        "weights_nonneg": "forall(0, len(self.weights), lambda i: self.weights[i] >= 0)",
        "some_weight": "psum(self.weights, len(self.weights)) > 0",
    },
    loops={
        0: Loop(
            invariants={
                "telescoping": "len(OUT) == ite(_k == 0, 0, ranges[_k - 1][1])",
                "population_intact": "len(npopulation) >= target_size",
            },
            modifies=["OUT[]"] + STEP_MOD,
        )
    },
    modifies=list(STEP_MOD),
    props=["C15", "C16"],
)
R.contract(
    "ExclusiveParallelStep.iterate",
    file=COMB,
    overrides="GeneticStep.iterate",
    params=dict(self="ExclusiveParallelStep", **STEP_PARAMS),
    returns="iter[Individual]",
    requires={
        **STEP_REQ,
        "steps_and_weights": "len(self.weights) >= 1 and len(self.steps) == len(self.weights)",
        "weights_nonneg": "forall(0, len(self.weights), lambda i: self.weights[i] >= 0)",
        "some_weight": "psum(self.weights, len(self.weights)) > 0",
    },
    loops={
        0: Loop(
            invariants={
                "telescoping": "len(OUT) == ite(_k == 0, 0, ranges[_k - 1][1])",
                "population_intact": "len(npopulation) >= target_size",
            },
            modifies=["OUT[]"] + STEP_MOD,
        )
    },
    modifies=list(STEP_MOD),
    props=["C15"],
)
