"""SGE / dSGE structured genotypes: per-key uniform crossover, single-gene mutation (C06, C09)."""
import specs.gene_sources  # noqa: F401  (declaration order)
from pyvc.spec import REG as R, Loop

SGE = "geneticengine/representations/grammatical_evolution/structured_ge.py"
DSGE = "geneticengine/representations/grammatical_evolution/dynamic_structured_ge.py"

R.cls("SGEGenotype", src="Genotype", fields={"dna": "dict[~Str,list[int]]"}, file=SGE, init_fields=["dna"])
R.cls("StructuredGrammaticalEvolutionRepresentation", fields={"grammar": "Grammar", "gene_length": "int", "decider": "MaxDepthDecider"}, file=SGE)
R.classes["DSGEGenotype"].fields["dna"] = "dict[~Type,list[int]]"
R.classes["DSGEGenotype"].init_fields = ["random", "dna"]
R.cls("DynamicStructuredGrammaticalEvolutionRepresentation", fields={"grammar": "Grammar", "max_depth": "int"}, file=DSGE)


def unchanged(g):
    return (
        f"len(keysof({g}.dna)) == old(len(keysof({g}.dna))) and forall(0, len(keysof({g}.dna)), lambda i: "
        f"keysof({g}.dna)[i] == old(keysof({g}.dna))[i] and eqlist({g}.dna[keysof({g}.dna)[i]], old({g}.dna[keysof({g}.dna)[i]])))"
    )


MUT_ENS = {
    "fresh_child": "fresh(result) and fresh(result.dna)",
    "same_keys": "len(keysof(result.dna)) == len(keysof(genotype.dna)) and "
    "forall(0, len(keysof(genotype.dna)), lambda i: keysof(result.dna)[i] == keysof(genotype.dna)[i] and keysof(genotype.dna)[i] in result.dna)",
    "same_lengths": "forall(0, len(keysof(genotype.dna)), lambda i: "
    "len(result.dna[keysof(genotype.dna)[i]]) == len(genotype.dna[keysof(genotype.dna)[i]]))",
    "gene_lists_fresh": "forall(0, len(keysof(genotype.dna)), lambda i: fresh(result.dna[keysof(genotype.dna)[i]]))",
    "at_most_one_gene_changed": "forall(0, len(keysof(genotype.dna)), lambda i: "
    "forall(0, len(genotype.dna[keysof(genotype.dna)[i]]), lambda j: "
    "implies(not (keysof(genotype.dna)[i] == WKEY and j == WIDX), "
    "result.dna[keysof(genotype.dna)[i]][j] == genotype.dna[keysof(genotype.dna)[i]][j])))",
}

NATIVE_MUT = {
    "at_most_one_gene_changed": "sum(1 for k in genotype.dna for j in range(len(genotype.dna[k])) if result.dna[k][j] != genotype.dna[k][j]) <= 1"
}

R.contract(
    "StructuredGrammaticalEvolutionRepresentation.mutate",
    file=SGE,
    params=dict(self="StructuredGrammaticalEvolutionRepresentation", random="RandomSource", genotype="SGEGenotype", kwargs="any"),
    returns="SGEGenotype",
    requires={
        "has_keys": "len(keysof(genotype.dna)) >= 1",
        "genes_nonempty": "forall(0, len(keysof(genotype.dna)), lambda i: len(genotype.dna[keysof(genotype.dna)[i]]) >= 1)",
    },
    ensures=dict(MUT_ENS),
    witnesses={"WKEY": ("rkey", "~Str"), "WIDX": ("rindex", "int")},
    native_ensures=NATIVE_MUT,
    modifies=["random.*"],
    props=["C06", "C09", "C10"],
)
R.contract(
    "DynamicStructuredGrammaticalEvolutionRepresentation.mutate",
    file=DSGE,
    params=dict(self="DynamicStructuredGrammaticalEvolutionRepresentation", random="RandomSource", genotype="DSGEGenotype", kwargs="any"),
    returns="DSGEGenotype",
    ensures=dict(MUT_ENS),
    witnesses={"WKEY": ("rkey", "~Type"), "WIDX": ("rindex", "int")},
    native_ensures=NATIVE_MUT,
    modifies=["random.*"],
    props=["C06", "C09", "C10"],
)


def xover(key, gkey, file, keysort):
    K = "mask[i][0]"
    R.contract(
        f"{key}.crossover",
        file=file,
        params=dict(self=key, random="RandomSource", parent1=gkey, parent2=gkey, kwargs="any"),
        returns=f"tuple[{gkey},{gkey}]",
        requires=(
            {"same_keys": "forall(0, len(keysof(parent1.dna)), lambda i: keysof(parent1.dna)[i] in parent2.dna)"} if key.startswith("Structured") else {}
        ),
        ensures={
            "fresh_children": "fresh(result[0]) and fresh(result[0].dna) and fresh(result[1]) and fresh(result[1].dna)",
            "key_set_preserved": "len(keysof(result[0].dna)) == len(keysof(parent1.dna)) and len(keysof(result[1].dna)) == len(keysof(parent1.dna)) and "
            "forall(0, len(keysof(parent1.dna)), lambda i: keysof(result[0].dna)[i] == keysof(parent1.dna)[i] and keysof(result[1].dna)[i] == keysof(parent1.dna)[i] "
            "and keysof(parent1.dna)[i] in result[0].dna and keysof(parent1.dna)[i] in result[1].dna)",
            "whole_list_provenance": "forall(0, len(keysof(parent1.dna)), lambda i: "
            + (
                "(eqlist(result[0].dna[keysof(parent1.dna)[i]], parent1.dna[keysof(parent1.dna)[i]]) and eqlist(result[1].dna[keysof(parent1.dna)[i]], parent2.dna[keysof(parent1.dna)[i]])) or "
                "(eqlist(result[0].dna[keysof(parent1.dna)[i]], parent2.dna[keysof(parent1.dna)[i]]) and eqlist(result[1].dna[keysof(parent1.dna)[i]], parent1.dna[keysof(parent1.dna)[i]])))"
                if key.startswith("Structured")
                else "implies(keysof(parent1.dna)[i] in parent2.dna, "
                "(eqlist(result[0].dna[keysof(parent1.dna)[i]], parent1.dna[keysof(parent1.dna)[i]]) and eqlist(result[1].dna[keysof(parent1.dna)[i]], parent2.dna[keysof(parent1.dna)[i]])) or "
                "(eqlist(result[0].dna[keysof(parent1.dna)[i]], parent2.dna[keysof(parent1.dna)[i]]) and eqlist(result[1].dna[keysof(parent1.dna)[i]], parent1.dna[keysof(parent1.dna)[i]]))))"
            ),
            "gene_lists_fresh": "forall(0, len(keysof(parent1.dna)), lambda i: fresh(result[0].dna[keysof(parent1.dna)[i]]) and fresh(result[1].dna[keysof(parent1.dna)[i]]))",
        },
        loops={
            0: Loop(
                invariants={
                    "keys_so_far": "len(keysof(c1)) == _k and len(keysof(c2)) == _k and forall(0, _k, lambda i: "
                    f"keysof(c1)[i] == {K} and keysof(c2)[i] == {K} and {K} in c1 and {K} in c2)",
                    "provenance": "forall(0, _k, lambda i: "
                    + (
                        f"(eqlist(c1[{K}], parent1.dna[{K}]) and eqlist(c2[{K}], parent2.dna[{K}])) or (eqlist(c1[{K}], parent2.dna[{K}]) and eqlist(c2[{K}], parent1.dna[{K}])))"
                        if key.startswith("Structured")
                        else f"implies({K} in parent2.dna, (eqlist(c1[{K}], parent1.dna[{K}]) and eqlist(c2[{K}], parent2.dna[{K}])) or (eqlist(c1[{K}], parent2.dna[{K}]) and eqlist(c2[{K}], parent1.dna[{K}]))))"
                    ),
                    "fresh_lists": f"forall(0, _k, lambda i: fresh(c1[{K}]) and fresh(c2[{K}]))",
                },
                modifies=["c1[]", "c2[]"],
            )
        },
        locals={"c1": f"dict[{keysort},list[int]]", "c2": f"dict[{keysort},list[int]]"},
        modifies=["random.*"],
        props=["C06", "C09", "C10"],
    )


xover("StructuredGrammaticalEvolutionRepresentation", "SGEGenotype", SGE, "~Str")
xover("DynamicStructuredGrammaticalEvolutionRepresentation", "DSGEGenotype", DSGE, "~Type")
