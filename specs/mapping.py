"""Genotype-to-phenotype mapping (C07 effect contracts; C01 / C03 through the synthesis entry point).  random_node and
create_node are verified against their bodies in specs/synthesis.py; the mapping functions are verified against
random_node's contract: everything a mapping hands to the synthesis must be allocated by the mapping itself (frame
`modifies=[]`), and the mapped program is a well-typed value of the start symbol within the decider's depth limit.
The representations are declared with a depth-limited decider (grow / full / PI-grow family)."""
import specs.gene_sources  # noqa: F401  (declaration order)
import specs.linear_genotypes  # noqa: F401  (declaration order)
import specs.structured_genotypes  # noqa: F401  (declaration order)
import specs.synthesis  # noqa: F401  (declaration order)
from pyvc.spec import REG as R, Loop

GE = "geneticengine/representations/grammatical_evolution/ge.py"
SGE = "geneticengine/representations/grammatical_evolution/structured_ge.py"

MAP_REQ = {
    "the_grammar": "same(self.grammar, thegrammar())",
    "grammar_invariant": "g_ok(self.grammar) and not self.grammar.expansion_depthing",
    "start_registered": "gdist_defined(self.grammar, self.grammar.starting_symbol)",
    "feasible_limit": "gdist(self.grammar, self.grammar.starting_symbol) <= self.decider.max_depth",
    "decider_uses_this_grammar": "same(self.decider.grammar, self.grammar)",
    "limit_below_unproductive_marker": "self.decider.max_depth < 1000000",
}
MAP_ENS = {
    "welltyped": "welltyped(result, self.grammar.starting_symbol)",
    "within_depth": "vdepth(result) <= self.decider.max_depth",
}
R.contract(
    "GrammaticalEvolutionRepresentation.genotype_to_phenotype",
    file=GE,
    params=dict(self="GrammaticalEvolutionRepresentation", genotype="GEGenotype"),
    returns="~Val",
    requires=dict(MAP_REQ, genes="len(genotype.dna) >= 1"),
    ensures=dict(MAP_ENS),
    raises={"GeneticEngineError": "handlers_may_fail()", "SynthesisException": "handlers_may_fail()"},
    modifies=[],
    props=["C07", "C01", "C03", "C10"],
    note="writes nothing that existed before the call: the gene-backed source and the decider copy are allocated here; "
    "in particular the shared random source of the search (self.decider.random) is not in the frame",
)
R.contract(
    "StructuredListWrapper.__init__",
    file=SGE,
    params=dict(self="StructuredListWrapper", dna="dict[~Str,list[int]]"),
    returns="None",
    ensures={
        "dna_by_reference": "same(self.dna, dna)",
        "cursor_per_key": "fresh(self.indexes) and forall(0, len(keysof(dna)), lambda i: keysof(dna)[i] in self.indexes and self.indexes[keysof(dna)[i]] == 0)",
    },
    loops={0: Loop(invariants={"so_far": "forall(0, _k, lambda i: keysof(dna)[i] in indexes and indexes[keysof(dna)[i]] == 0)", "fresh": "fresh(indexes)"},
                   modifies=["indexes[]"])},
    locals={"indexes": "dict[~Str,int]"},
    modifies=["self.dna", "self.indexes"],
    props=["C07"],
)
R.contract(
    "StructuredGrammaticalEvolutionRepresentation.genotype_to_phenotype",
    file=SGE,
    params=dict(self="StructuredGrammaticalEvolutionRepresentation", genotype="SGEGenotype"),
    returns="~Val",
    requires=dict(MAP_REQ),
    ensures=dict(MAP_ENS),
    raises={"GeneticEngineError": "handlers_may_fail()", "SynthesisException": "handlers_may_fail()"},
    modifies=[],
    props=["C07", "C01", "C03", "C10"],
)
