"""Genotype-to-phenotype mapping: effect contracts (C07).  The synthesis routines themselves (random_node /
create_node) are not yet verified against their bodies; their INTERFACE contract states which objects they
may touch -- the random source and the decider they are given -- and the mapping functions are verified
against it: everything a mapping hands to the synthesis must be allocated by the mapping itself."""
import specs.gene_sources  # noqa: F401  (declaration order)
import specs.linear_genotypes  # noqa: F401  (declaration order)
import specs.structured_genotypes  # noqa: F401  (declaration order)
from pyvc.spec import REG as R, Loop

GE = "geneticengine/representations/grammatical_evolution/ge.py"
SGE = "geneticengine/representations/grammatical_evolution/structured_ge.py"

R.cls("Program", fields={})
R.classes["SynthesisDecider"].fields["random"] = "RandomSource?"
R.contract(
    "random_node",
    params=dict(random="RandomSource", grammar="Grammar", starting_symbol="~Type", decider="SynthesisDecider"),
    returns="Program",
    modifies=["random.*", "decider.*"],
    raises={"GeneticEngineError": "True", "SynthesisException": "True"},
    verify=False,
    note="interface of the synthesis entry point: draws come from `random` and from the decider's own source; "
    "decider state (e.g. PI-grow's `expanding`) may be written; the grammar is read-only (C10)",
)
R.contract(
    "GrammaticalEvolutionRepresentation.genotype_to_phenotype",
    file=GE,
    params=dict(self="GrammaticalEvolutionRepresentation", genotype="GEGenotype"),
    returns="Program",
    requires={"genes": "len(genotype.dna) >= 1"},
    raises={"GeneticEngineError": "True", "SynthesisException": "True"},
    modifies=[],
    props=["C07"],
    note="writes nothing that existed before the call: the gene-backed source and the decider copy are allocated here; "
    "in particular the shared random source of the search (self.decider.random) is not in the frame",
)
R.contract(
    "StructuredListWrapper.__init__",
    file=SGE,
    params=dict(self="StructuredListWrapper", dna="dict[~Str,list[int]]"),
    returns="None",
    ensures={
        "dna_by_reference": "same(self.dna, dna)",
        "cursor_per_key": "fresh(self.indexes) and forall(0, len(keysof(dna)), lambda i: keysof(dna)[i] in self.indexes and self.indexes[keysof(dna)[i]] == 0)",
    },
    loops={0: Loop(invariants={"so_far": "forall(0, _k, lambda i: keysof(dna)[i] in indexes and indexes[keysof(dna)[i]] == 0)", "fresh": "fresh(indexes)"},
                   modifies=["indexes[]"])},
    locals={"indexes": "dict[~Str,int]"},
    modifies=["self.dna", "self.indexes"],
    props=["C07"],
)
R.contract(
    "StructuredGrammaticalEvolutionRepresentation.genotype_to_phenotype",
    file=SGE,
    params=dict(self="StructuredGrammaticalEvolutionRepresentation", genotype="SGEGenotype"),
    returns="Program",
    raises={"GeneticEngineError": "True", "SynthesisException": "True"},
    modifies=[],
    props=["C07"],
)
