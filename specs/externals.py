"""Assumed contracts of external (standard-library / third-party) functions.  Never verified; every use is
echoed into the evidence's trusted_base."""
from pyvc.spec import REG as R

R.consts["INFRASTRUCTURE_KEY"] = "$infrastructure"
R.consts["MAX_GENE_VALUE"] = 1024
R.consts["INF_VALUE"] = 1000000

R.contract(
    "PyRandom.randint",
    params=dict(self="PyRandom", a="int", b="int"),
    returns="int",
    requires={"nonempty_range": "a <= b"},
    ensures={"in_range": "a <= result and result <= b"},
    modifies=["self.*"],
    allocates=False,
    note="random.Random.randint (assumed)",
)
R.contract(
    "PyRandom.random",
    params=dict(self="PyRandom"),
    returns="float",
    ensures={"unit_interval": "0 <= result and result < 1"},
    modifies=["self.*"],
    allocates=False,
    note="random.Random.random (assumed)",
)
R.contract(
    "PyRandom.normalvariate",
    params=dict(self="PyRandom", mu="float", sigma="float"),
    returns="float",
    modifies=["self.*"],
    allocates=False,
)
LOG10_TABLE = {'ge_0': 'implies(x >= 1, result > 0 - 0.5)', 'lt_0': 'implies(x < 1, result < 0 - 0.5)', 'ge_1': 'implies(x >= 4, result > 1 - 0.5)', 'lt_1': 'implies(x < 4, result < 1 - 0.5)', 'ge_2': 'implies(x >= 32, result > 2 - 0.5)', 'lt_2': 'implies(x < 32, result < 2 - 0.5)', 'ge_3': 'implies(x >= 317, result > 3 - 0.5)', 'lt_3': 'implies(x < 317, result < 3 - 0.5)', 'ge_4': 'implies(x >= 3163, result > 4 - 0.5)', 'lt_4': 'implies(x < 3163, result < 4 - 0.5)', 'ge_5': 'implies(x >= 31623, result > 5 - 0.5)', 'lt_5': 'implies(x < 31623, result < 5 - 0.5)', 'ge_6': 'implies(x >= 316228, result > 6 - 0.5)', 'lt_6': 'implies(x < 316228, result < 6 - 0.5)', 'ge_7': 'implies(x >= 3162278, result > 7 - 0.5)', 'lt_7': 'implies(x < 3162278, result < 7 - 0.5)', 'ge_8': 'implies(x >= 31622777, result > 8 - 0.5)', 'lt_8': 'implies(x < 31622777, result < 8 - 0.5)', 'ge_9': 'implies(x >= 316227767, result > 9 - 0.5)', 'lt_9': 'implies(x < 316227767, result < 9 - 0.5)', 'ge_10': 'implies(x >= 3162277661, result > 10 - 0.5)', 'lt_10': 'implies(x < 3162277661, result < 10 - 0.5)', 'ge_11': 'implies(x >= 31622776602, result > 11 - 0.5)', 'lt_11': 'implies(x < 31622776602, result < 11 - 0.5)', 'ge_12': 'implies(x >= 316227766017, result > 12 - 0.5)', 'lt_12': 'implies(x < 316227766017, result < 12 - 0.5)', 'ge_13': 'implies(x >= 3162277660169, result > 13 - 0.5)', 'lt_13': 'implies(x < 3162277660169, result < 13 - 0.5)', 'ge_14': 'implies(x >= 31622776601684, result > 14 - 0.5)', 'lt_14': 'implies(x < 31622776601684, result < 14 - 0.5)', 'ge_15': 'implies(x >= 316227766016838, result > 15 - 0.5)', 'lt_15': 'implies(x < 316227766016838, result < 15 - 0.5)', 'ge_16': 'implies(x >= 3162277660168380, result > 16 - 0.5)', 'lt_16': 'implies(x < 3162277660168380, result < 16 - 0.5)', 'ge_17': 'implies(x >= 31622776601683794, result > 17 - 0.5)', 'lt_17': 'implies(x < 31622776601683794, result < 17 - 0.5)', 'ge_18': 'implies(x >= 316227766016837934, result > 18 - 0.5)', 'lt_18': 'implies(x < 316227766016837934, result < 18 - 0.5)', 'ge_19': 'implies(x >= 3162277660168379332, result > 19 - 0.5)', 'lt_19': 'implies(x < 3162277660168379332, result < 19 - 0.5)'}

R.contract(
    "log10",
    params=dict(x="float"),
    returns="float",
    requires={"positive": "x > 0"},
    ensures={"ge0": "implies(x >= 1, result >= 0)", **LOG10_TABLE},
    allocates=False,
    note="math.log10 on integer-valued arguments: result lies strictly between e-0.5 and e+0.5 according to the integer thresholds ceil(10^(e-0.5)), e = 0..19 (assumed; pins round(log10(x)))",
)

R.contract(
    "sum",
    params=dict(xs="list[float]"),
    returns="float",
    ensures={"is_prefix_sum": "result == psum(xs, len(xs))"},
    allocates=False,
    note="builtin sum over a sequence of numbers (assumed)",
)
R.contract(
    "sum_int",
    params=dict(xs="list[int]"),
    returns="int",
    ensures={"is_prefix_sum": "result == psum(xs, len(xs))"},
    allocates=False,
    note="builtin sum over a sequence of ints (assumed)",
)
