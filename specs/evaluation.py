"""Problems, individuals, evaluators (C13, C12, C14)."""
from pyvc.spec import REG as R, Loop

PRB = "geneticengine/problems/__init__.py"
IND = "geneticengine/solutions/individual.py"
EAPI = "geneticengine/evaluation/api.py"
ESEQ = "geneticengine/evaluation/sequential.py"
EPAR = "geneticengine/evaluation/parallel.py"

# ---- data ------------------------------------------------------------------------------------------
R.cls("Fitness", fields={"maximizing_aggregate": "float", "fitness_components": "list[float]"}, file=PRB,
      init_fields=["maximizing_aggregate", "fitness_components"])
R.contract(
    "Fitness.__getitem__",
    params=dict(self="Fitness", i="int"),
    returns="float",
    requires={"aggregate_slot": "i == 0"},
    ensures={"is_aggregate": "result == self.maximizing_aggregate"},
    allocates=False,
    note="NamedTuple indexing; only slot 0 (the maximising aggregate) is used by the units under contract",
)
# the user's fitness function: the only place where the fitness function is 'invoked'
R.cls("FitnessFn", fields={"ncalls": "int"})
R.cls("FFTable", fields={"fn": "FitnessFn"})
R.contract(
    "FFTable.__getitem__",
    params=dict(self="FFTable", key="~Str"),
    returns="FitnessFn",
    ensures={"the_fn": "same(result, self.fn)"},
    allocates=False,
    note="self.ff is {'ff': fitness_function}: the dict is abstracted to its single entry",
)
R.contract(
    "FitnessFn.__call__",
    params=dict(self="FitnessFn", phenotype="Phenotype"),
    returns="float",
    ensures={"counted": "self.ncalls == old(self.ncalls) + 1", "function_of_phenotype": "result == fitval(self, phenotype)"},
    modifies=["self.ncalls"],
    allocates=False,
    note="user fitness function: a deterministic function of the phenotype; ghost counter of invocations",
)
R.cls("Phenotype", fields={})
R.cls("Problem", fields={"minimize": "list[bool]", "ff": "FFTable"}, file=PRB)
R.cls("SingleObjectiveProblem", bases=["Problem"], fields={}, file=PRB)

R.contract(
    "Problem.evaluate",
    params=dict(self="Problem", phenotype="Phenotype"),
    returns="Fitness",
    ensures={
        "fresh": "fresh(result) and fresh(result.fitness_components)",
        "one_invocation": "self.ff.fn.ncalls == old(self.ff.fn.ncalls) + 1",
        "components_nonempty": "len(result.fitness_components) >= 1",
    },
    modifies=["self.ff.fn.ncalls"],
    fresh_result=True,
    verify=False,
    note="interface: exactly one invocation of the fitness function per evaluation",
)
R.contract(
    "Problem.is_better",
    file=PRB,
    params=dict(self="Problem", a="Fitness", b="Fitness"),
    returns="bool",
    ensures={"strictly_greater_aggregate": "result == (a.maximizing_aggregate > b.maximizing_aggregate)"},
    allocates=False,
    props=["C12", "C16"],
)
R.contract(
    "SingleObjectiveProblem.evaluate",
    file=PRB,
    overrides="Problem.evaluate",
    params=dict(self="SingleObjectiveProblem", phenotype="Phenotype"),
    returns="Fitness",
    requires={"one_direction": "len(self.minimize) == 1"},
    ensures={
        "value_is_fitness_function": "len(result.fitness_components) == 1 and result.fitness_components[0] == fitval(self.ff.fn, phenotype)",
        "aggregate_direction": "result.maximizing_aggregate == ite(self.minimize[0], -fitval(self.ff.fn, phenotype), fitval(self.ff.fn, phenotype))",
    },
    modifies=["self.ff.fn.ncalls"],
    fresh_result=True,
    props=["C13", "C12"],
)

# ---- individuals -----------------------------------------------------------------------------------
R.cls(
    "Individual",
    fields={
        "genotype": "Genotype?",
        "representation": "Representation",
        "phenotype": "Phenotype?",
        "fitness_store": "dict[Problem,Fitness]",
        "metadata": "dict[~Str,int]",
        "nevals": "int",  # ghost: number of fitness evaluations performed on this individual
    },
    file=IND,
    owned=("fitness_store",),
)
R.cls("Genotype", fields={})
R.cls("Representation", fields={})
R.contract(
    "Representation.genotype_to_phenotype",
    params=dict(self="Representation", genotype="Genotype?"),
    returns="Phenotype",
    verify=False,
    modifies=[],
    note="interface; purity of the mapping is property C07",
)
R.contract(
    "WeakKeyDictionary",
    params={},
    returns="dict[Problem,Fitness]",
    ensures={"empty": "len(keysof(result)) == 0", "no_keys": "emptydict(result)"},
    fresh_result=True,
    note="weakref.WeakKeyDictionary(): a fresh empty map (assumed; weak-reference collection not modelled)",
)
R.contract(
    "Individual.has_fitness",
    inline=True,
    file=IND,
    params=dict(self="Individual", problem="Problem"),
    returns="bool",
    ensures={"membership": "result == (problem in self.fitness_store)"},
    allocates=False,
    props=["C13"],
)
R.contract(
    "Individual.set_fitness",
    inline=True,
    file=IND,
    params=dict(self="Individual", problem="Problem", fitness="Fitness"),
    returns="None",
    ensures={"stored": "problem in self.fitness_store and same(self.fitness_store[problem], fitness)"},
    modifies=["self.fitness_store[]"],
    allocates=False,
    props=["C13"],
)
R.contract(
    "Individual.get_fitness",
    file=IND,
    params=dict(self="Individual", problem="Problem?"),
    defaults={"problem": "None"},
    returns="Fitness",
    requires={"evaluated": "problem is not None and problem in self.fitness_store"},
    ensures={"lookup": "same(result, self.fitness_store[problem])"},
    allocates=False,
    props=["C13", "C12"],
)
R.contract(
    "Individual.get_phenotype",
    file=IND,
    params=dict(self="Individual"),
    returns="Phenotype",
    ensures={
        "cached": "same(result, self.phenotype) and self.phenotype is not None",
        "stable": "implies(old(self.phenotype) is not None, same(result, old(self.phenotype)))",
    },
    modifies=["self.phenotype"],
    props=["C13", "C07"],
)

# ---- evaluators ------------------------------------------------------------------------------------
R.cls("Evaluator", fields={"count": "int"}, file=EAPI)
R.cls("SequentialEvaluator", bases=["Evaluator"], fields={}, file=ESEQ)
R.cls("ParallelEvaluator", bases=["Evaluator"], fields={}, file=EPAR)
R.contract(
    "Evaluator.register_evaluation",
    inline=True,
    file=EAPI,
    params=dict(self="Evaluator"),
    returns="None",
    ensures={"plus_one": "self.count == old(self.count) + 1"},
    modifies=["self.count"],
    allocates=False,
    props=["C13", "C14"],
)
R.contract(
    "Evaluator.number_of_evaluations",
    inline=True,
    file=EAPI,
    params=dict(self="Evaluator"),
    returns="int",
    ensures={"is_count": "result == self.count"},
    allocates=False,
    props=["C13", "C14"],
)
R.contract(
    "Evaluator.eval_single",
    file=EAPI,
    params=dict(self="Evaluator", problem="Problem", individual="Individual"),
    returns="Fitness",
    ensures={
        "fresh": "fresh(result) and fresh(result.fitness_components)",
        "one_invocation": "problem.ff.fn.ncalls == old(problem.ff.fn.ncalls) + 1",
        "from_phenotype": "individual.phenotype is not None",
        "phenotype_cache_kept": "implies(old(individual.phenotype) is not None, same(individual.phenotype, old(individual.phenotype)))",
        "components_nonempty": "len(result.fitness_components) >= 1",
    },
    modifies=["individual.phenotype", "problem.ff.fn.ncalls"],
    fresh_result=True,
    props=["C13"],
)

EVAL_ENS = {
    "yields_all_in_order": "len(result) == len(individuals) and forall(0, len(individuals), lambda k: same(result[k], individuals[k]))",
    "all_evaluated": "forall(0, len(individuals), lambda k: problem in individuals[k].fitness_store)",
    "existing_fitness_kept": "fitness_stores_monotone()",
    "phenotype_cache_stable": "phenotypes_sticky()",
    "stores_in_place": "forall(0, len(individuals), lambda k: same(individuals[k].fitness_store, old(individuals[k].fitness_store)))",
    "counter_equals_invocations": "self.count - old(self.count) == problem.ff.fn.ncalls - old(problem.ff.fn.ncalls)",
    "counter_bounds": "self.count >= old(self.count) and self.count <= old(self.count) + len(individuals)",
    "nothing_to_do": "implies(forall(0, len(individuals), lambda k: old(problem in individuals[k].fitness_store)), self.count == old(self.count))",
    "single_new": "implies(len(individuals) == 1 and not old(problem in individuals[0].fitness_store), self.count == old(self.count) + 1)",
}
EVAL_REQ = {}
R.contract(
    "Evaluator.evaluate_async",
    params=dict(self="Evaluator", problem="Problem", individuals="list[Individual]"),
    returns="iter[Individual]",
    requires=dict(EVAL_REQ),
    ensures=dict(EVAL_ENS),
    modifies=["self.count", "problem.ff.fn.ncalls", "all:dict[Problem,Fitness]", "all:field:phenotype"],
    verify=False,
    note="interface contract shared by the sequential and the parallel evaluator; per-individual effects "
    "(fitness_store, phenotype cache) are described by the ensures clauses",
)
R.cls("ProcessingPool", fields={})
R.maplike.add("ProcessingPool")
R.contract(
    "Pool",
    params=dict(n="int"),
    returns="ProcessingPool",
    requires={"at_least_one_worker": "n >= 1"},
    fresh_result=True,
    note="pathos ProcessingPool(n): n >= 1 workers (ValueError otherwise)",
)

R.contract(
    "ParallelEvaluator.evaluate_async",
    file=EPAR,
    overrides="Evaluator.evaluate_async",
    params=dict(self="ParallelEvaluator", problem="Problem", individuals="list[Individual]"),
    returns="iter[Individual]",
    requires=dict(EVAL_REQ),
    ensures={},
    locals={"pending": "list[Individual]", "__res": "list[Fitness]"},
    loops={
        # loop 0: collect the individuals that still need a fitness, each once
        0: Loop(
            invariants={
                "indivs_is_input": "len(indivs) == len(individuals) and forall(0, len(indivs), lambda k: same(indivs[k], individuals[k]))",
                "covered": "forall(0, _k, lambda a: (problem in indivs[a].fitness_store) or exists(0, len(pending), lambda b: same(pending[b], indivs[a])))",
                "pending_from_input": "len(pending) <= _k and forall(0, len(pending), lambda b: exists(0, _k, lambda a: same(pending[b], indivs[a])))",
                "pending_unevaluated": "forall(0, len(pending), lambda b: not (problem in pending[b].fitness_store))",
                "pending_distinct": "forall(0, len(pending), lambda b: forall(0, len(pending), lambda c: implies(b != c, not same(pending[b], pending[c]))))",
                "pending_old": "forall(0, len(pending), lambda b: not fresh(pending[b]))",
                "nothing_pending_if_all_done": "implies(forall(0, _k, lambda k: problem in indivs[k].fitness_store), len(pending) == 0)",
                "single": "implies(_k == 1 and not (problem in indivs[0].fitness_store), len(pending) == 1)",
            },
            modifies=["pending[]"],
        ),
        "map0": Loop(
            invariants={
                "one_result_each": "len(__res) == _k",
                "invocations": "problem.ff.fn.ncalls == old(problem.ff.fn.ncalls) + _k",
                "results_fresh": "forall(0, _k, lambda j: fresh(__res[j]) and len(__res[j].fitness_components) >= 1)",
                "sticky": "phenotypes_sticky()",
                "pending_old": "forall(0, len(pending), lambda b: not fresh(pending[b]))",
            },
            modifies=["__res[]", "problem.ff.fn.ncalls", "all:field:phenotype"],
        ),
        # loop 1: store the results
        1: Loop(
            invariants={
                "stored_prefix": "forall(0, _k, lambda b: problem in pending[b].fitness_store)",
                "tail_unevaluated": "forall(_k, len(pending), lambda b: not (problem in pending[b].fitness_store))",
                "kept": "fitness_stores_monotone()",
                "count": "self.count == old(self.count) + _k",
                "pending_old": "forall(0, len(pending), lambda b: not fresh(pending[b]))",
            },
            modifies=["self.count", "all:dict[Problem,Fitness]"],
        ),
    },
    modifies=["self.count", "problem.ff.fn.ncalls", "all:dict[Problem,Fitness]", "all:field:phenotype"],
    props=["C13"],
)

for key, file in (("SequentialEvaluator", ESEQ),):
    R.contract(
        f"{key}.evaluate_async",
        file=file,
        overrides="Evaluator.evaluate_async",
        params=dict(self=key, problem="Problem", individuals="list[Individual]"),
        returns="iter[Individual]",
        requires=dict(EVAL_REQ),
        ensures={},
        loops={
            0: Loop(
                invariants={
                    "yielded_prefix": "len(OUT) == _k and forall(0, _k, lambda k: same(OUT[k], individuals[k]))",
                    "prefix_evaluated": "forall(0, _k, lambda k: problem in individuals[k].fitness_store)",
                    "kept": "fitness_stores_monotone()",
                    "sticky": "phenotypes_sticky()",
                    "counter": "self.count - old(self.count) == problem.ff.fn.ncalls - old(problem.ff.fn.ncalls)",
                    "bounds": "self.count >= old(self.count) and self.count <= old(self.count) + _k",
                    "idle": "implies(forall(0, _k, lambda k: old(problem in individuals[k].fitness_store)), self.count == old(self.count))",
                    "untouched_head": "implies(_k == 0 and len(individuals) >= 1, iff(problem in individuals[0].fitness_store, old(problem in individuals[0].fitness_store)))",
                    "single": "implies(_k == 1 and not old(problem in individuals[0].fitness_store), self.count == old(self.count) + 1)",
                    "input_list_unchanged": "len(individuals) == oldlen(individuals) and forall(0, len(individuals), lambda k: same(individuals[k], oldel(individuals, k)))",
                },
                modifies=["self.count", "problem.ff.fn.ncalls", "OUT[]", "all:dict[Problem,Fitness]", "all:field:phenotype"],
            )
        },
        modifies=["self.count", "problem.ff.fn.ncalls", "all:dict[Problem,Fitness]", "all:field:phenotype"],
        props=["C13"],
    )

# ---- multi-objective problem -------------------------------------------------------------------------
R.cls("VecFn", fields={"ncalls": "int"})
R.cls("AggFn", fields={"is_default": "bool", "owner": "MultiObjectiveProblem"})
R.cls("CritFn", fields={})
R.cls("MFFTable", fields={"fn": "VecFn", "aggregate": "AggFn?", "criterion": "CritFn?"})
R.cls("MultiObjectiveProblem", bases=["Problem"], fields={"mff": "MFFTable", "n_objectives": "int", "initialized": "bool"}, file=PRB)
R.classes["MultiObjectiveProblem"].fields["ff"] = "MFFTable"
R.contract("MFFTable.__getitem__:ff", params=dict(self="MFFTable"), returns="VecFn", ensures={"e": "same(result, self.fn)"}, allocates=False)
R.contract("MFFTable.__getitem__:aggregate_fitness", params=dict(self="MFFTable"), returns="AggFn?", ensures={"e": "same(result, self.aggregate)"}, allocates=False)
R.contract("MFFTable.__getitem__:best_individual", params=dict(self="MFFTable"), returns="CritFn?", ensures={"e": "same(result, self.criterion)"}, allocates=False)
R.contract(
    "VecFn.__call__",
    params=dict(self="VecFn", phenotype="Phenotype"),
    returns="list[float]",
    ensures={"counted": "self.ncalls == old(self.ncalls) + 1", "at_least_one_component": "len(result) >= 1"},
    modifies=["self.ncalls"],
    fresh_result=True,
    note="user multi-objective fitness function; ghost invocation counter",
)
R.contract(
    "AggFn.__call__",
    params=dict(self="AggFn", components="list[float]"),
    returns="float",
    ensures={"default_is_signed_sum": "implies(self.is_default, result == ssum(components, self.owner.minimize, len(components)))"},
    allocates=False,
    note="aggregate over the computed components; the default one is verified as MultiObjectiveProblem.__init__.<locals>.default_single_objective_merge",
)
R.contract("CritFn.__call__", params=dict(self="CritFn", phenotype="Phenotype"), returns="float", allocates=False,
           note="user-supplied best-individual criterion (takes the phenotype)")
R.contract(
    "MultiObjectiveProblem.evaluate",
    file=PRB,
    params=dict(self="MultiObjectiveProblem", phenotype="Phenotype"),
    returns="Fitness",
    requires={
        "initialised": "self.initialized",
        "some_aggregate": "self.ff.aggregate is not None or self.ff.criterion is not None",
        "default_wired": "implies(self.ff.aggregate is not None and self.ff.aggregate.is_default, same(self.ff.aggregate.owner, self))",
    },
    ensures={
        "fresh": "fresh(result) and fresh(result.fitness_components)",
        "one_invocation": "self.ff.fn.ncalls == old(self.ff.fn.ncalls) + 1",
        "components_nonempty": "len(result.fitness_components) >= 1",
        "default_aggregate": "implies(self.ff.aggregate is not None and self.ff.aggregate.is_default, "
        "result.maximizing_aggregate == ssum(result.fitness_components, self.minimize, len(result.fitness_components)))",
    },
    modifies=["self.ff.fn.ncalls"],
    fresh_result=True,
    props=["C13"],
    note="list form of `minimize` (initialised problem); the lazily initialised bool form is covered by the bounded layer only",
)
R.contract(
    "MultiObjectiveProblem.default_merge",
    src="MultiObjectiveProblem.__init__.<locals>.default_single_objective_merge",
    file=PRB,
    params=dict(components="list[float]", self="MultiObjectiveProblem"),
    returns="float",
    requires={"one_direction_per_component": "len(self.minimize) == len(components)"},
    ensures={"signed_sum": "result == ssum(components, self.minimize, len(components))"},
    post_lemmas={"sum_is_signed_sum": ("j", "0", "len(components)", "psum(SUMARG0, j) == ssum(components, self.minimize, j)")},
    props=["C13"],
)
