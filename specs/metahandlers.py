"""Refinements (metahandlers): generate lies within the documented predicate and is accepted by validate (C02)."""
import specs.sources  # noqa: F401  (declaration order)
from pyvc.spec import REG as R, Loop

INTS = "geneticengine/grammar/metahandlers/ints.py"
FLTS = "geneticengine/grammar/metahandlers/floats.py"
VARS = "geneticengine/grammar/metahandlers/vars.py"
LSTS = "geneticengine/grammar/metahandlers/lists.py"
DEP = "geneticengine/grammar/metahandlers/dependent.py"

GEN = dict(random="RandomSource", grammar="any", base_type="any", rec="any", dependent_values="any")
R.cls("MetaHandlerGenerator", fields={})


def handler(key, file, fields, value_kind, doc_pred, req, elem=None):
    """doc_pred(v): the predicate documented for the refinement, written from the class docstring."""
    R.cls(key, bases=["MetaHandlerGenerator"], fields=fields, file=file)
    R.contract(
        f"{key}.validate",
        file=file,
        params=dict(self=key, v=value_kind),
        returns="bool",
        requires=dict(req),
        ensures={"is_documented_predicate": "result == (" + doc_pred.format(v="v") + ")"},
        allocates=False,
        props=["C02"],
    )
    R.contract(
        f"{key}.generate",
        file=file,
        params=dict(self=key, **GEN),
        returns=value_kind,
        requires=dict(req),
        ensures={
            "documented_predicate": doc_pred.format(v="result"),
            "accepted_by_own_validate": "self.validate(result)",
        },
        modifies=["random.*"],
        props=["C02", "C01"],
    )


handler("IntRange", INTS, {"min": "int", "max": "int"}, "int", "self.min <= {v} and {v} <= self.max", {"ordered": "self.min <= self.max"})
handler("FloatRange", FLTS, {"min": "float", "max": "float"}, "float", "self.min <= {v} and {v} <= self.max", {"ordered": "self.min <= self.max"})
handler("IntList", INTS, {"elements": "list[int]"}, "int", "{v} in self.elements", {"nonempty": "len(self.elements) >= 1"})
handler("FloatList", FLTS, {"elements": "list[float]"}, "float", "{v} in self.elements", {"nonempty": "len(self.elements) >= 1"})
handler("VarRange", VARS, {"options": "list[~Str]"}, "~Str", "{v} in self.options", {"nonempty": "len(self.options) >= 1"})
handler(
    "IntervalRange", INTS,
    {"minimum_length": "int", "maximum_length": "int", "maximum_top_limit": "int"},
    "tuple[int,int]",
    "self.minimum_length <= {v}[1] - {v}[0] and {v}[1] - {v}[0] <= self.maximum_length and 0 <= {v}[0] and {v}[1] <= self.maximum_top_limit",
    {"constructor_asserts": "self.maximum_length > self.minimum_length and self.maximum_length < self.maximum_top_limit"},
)
