"""Refinements (metahandlers): generate lies within the documented predicate and is accepted by validate (C02)."""
import specs.sources  # noqa: F401  (declaration order)
from pyvc.spec import REG as R, Loop

INTS = "geneticengine/grammar/metahandlers/ints.py"
FLTS = "geneticengine/grammar/metahandlers/floats.py"
VARS = "geneticengine/grammar/metahandlers/vars.py"
LSTS = "geneticengine/grammar/metahandlers/lists.py"
DEP = "geneticengine/grammar/metahandlers/dependent.py"

GEN = dict(random="RandomSource", grammar="any", base_type="any", rec="any", dependent_values="any")
R.cls("MetaHandlerGenerator", fields={})


def handler(key, file, fields, value_kind, doc_pred, req, elem=None):
    """doc_pred(v): the predicate documented for the refinement, written from the class docstring."""
    R.cls(key, bases=["MetaHandlerGenerator"], fields=fields, file=file)
    R.contract(
        f"{key}.validate",
        file=file,
        params=dict(self=key, v=value_kind),
        returns="bool",
        requires=dict(req),
        ensures={"is_documented_predicate": "result == (" + doc_pred.format(v="v") + ")"},
        allocates=False,
        props=["C02"],
    )
    R.contract(
        f"{key}.generate",
        file=file,
        params=dict(self=key, **GEN),
        returns=value_kind,
        requires=dict(req),
        ensures={
            "documented_predicate": doc_pred.format(v="result"),
            "accepted_by_own_validate": "self.validate(result)",
        },
        modifies=["random.*"],
        props=["C02", "C01"],
    )


handler("IntRange", INTS, {"min": "int", "max": "int"}, "int", "self.min <= {v} and {v} <= self.max", {"ordered": "self.min <= self.max"})
handler("FloatRange", FLTS, {"min": "float", "max": "float"}, "float", "self.min <= {v} and {v} <= self.max", {"ordered": "self.min <= self.max"})
handler("IntList", INTS, {"elements": "list[int]"}, "int", "{v} in self.elements", {"nonempty": "len(self.elements) >= 1"})
handler("FloatList", FLTS, {"elements": "list[float]"}, "float", "{v} in self.elements", {"nonempty": "len(self.elements) >= 1"})
handler("VarRange", VARS, {"options": "list[~Str]"}, "~Str", "{v} in self.options", {"nonempty": "len(self.options) >= 1"})
handler(
    "IntervalRange", INTS,
    {"minimum_length": "int", "maximum_length": "int", "maximum_top_limit": "int"},
    "tuple[int,int]",
    "self.minimum_length <= {v}[1] - {v}[0] and {v}[1] - {v}[0] <= self.maximum_length and 0 <= {v}[0] and {v}[1] <= self.maximum_top_limit",
    {"constructor_asserts": "self.maximum_length > self.minimum_length and self.maximum_length < self.maximum_top_limit"},
)

# ---- ListSizeBetween: the generated list has a length within the documented bounds (C02) -------------------------------
# `rec` (the synthesis callback create_node passes in) is modelled as an object with a __call__ contract: it returns a
# value that is well-typed for the requested type and draws only from random sources.
import specs.typeforms  # noqa: F401,E402  (declaration order)
import specs.synthesis  # noqa: F401,E402  (declaration order)

R.cls("RecFn", fields={})
R.contract(
    "RecFn.__call__",
    params=dict(self="RecFn", typ="~Type"),
    returns="~Val",
    ensures={"value_of_the_requested_type": "welltyped(result, typ)"},
    raises={"SynthesisException": "handlers_may_fail()", "GeneticEngineError": "handlers_may_fail()"},
    modifies=["class:RandomSource", "class:SynthesisDecider"],
    verify=False,
    note="the synthesis callback (create_node's `recurse`): verified as part of create_node; here only its interface is used",
)
R.cls("ListSizeBetween", bases=["MetaHandlerGenerator"], fields={"min": "int", "max": "int"}, file=LSTS)
R.contract(
    "ListSizeBetween.validate",
    file=LSTS,
    params=dict(self="ListSizeBetween", v="list[~Val]"),
    returns="bool",
    ensures={"is_documented_predicate": "result == (self.min <= len(v) and len(v) <= self.max)"},
    allocates=False,
    props=["C02"],
)
R.contract(
    "ListSizeBetween.generate",
    file=LSTS,
    params=dict(self="ListSizeBetween", random="RandomSource", grammar="any", base_type="~Type", rec="RecFn", dependent_values="any"),
    returns="~Val",
    requires={"ordered": "0 <= self.min and self.min <= self.max", "list_type": "is_generic_list(base_type) and len(get_generic_parameters(base_type)) >= 1"},
    proves={
        "length_within_the_documented_bounds": "self.min <= len(li) and len(li) <= self.max",
        "accepted_by_own_validate": "self.validate(li)",
        "elements_of_the_element_type": "forall(0, len(li), lambda k: welltyped(li[k], get_generic_parameter(base_type)))",
    },
    raises={"SynthesisException": "handlers_may_fail()", "GeneticEngineError": "handlers_may_fail()"},
    loops={0: Loop(invariants={"so_far": "len(li) == _k and forall(0, _k, lambda k: welltyped(li[k], inner_type))"},
                   modifies=["li[]", "class:RandomSource", "class:SynthesisDecider"])},
    locals={"li": "list[~Val]"},
    modifies=["class:RandomSource", "class:SynthesisDecider"],
    props=["C02", "C01"],
    note="the returned GengyList wraps `li` (stated over the function's own list: its length is within [min, max], validate accepts it, every element came from rec(element type))",
)
# the variant without list-level mutation / crossover: same generator contract, own validate
R.cls("ListSizeBetweenWithoutListOperations", bases=["MetaHandlerGenerator"], fields={"min": "int", "max": "int"}, file=LSTS)
R.contract(
    "ListSizeBetweenWithoutListOperations.validate",
    file=LSTS,
    params=dict(self="ListSizeBetweenWithoutListOperations", v="list[~Val]"),
    returns="bool",
    ensures={"is_documented_predicate": "result == (self.min <= len(v) and len(v) <= self.max)"},
    allocates=False,
    props=["C02"],
)
R.contract(
    "ListSizeBetweenWithoutListOperations.generate",
    file=LSTS,
    params=dict(self="ListSizeBetweenWithoutListOperations", random="RandomSource", grammar="any", base_type="~Type", rec="RecFn", dependent_values="any"),
    returns="~Val",
    requires={"ordered": "0 <= self.min and self.min <= self.max", "list_type": "is_generic_list(base_type) and len(get_generic_parameters(base_type)) >= 1"},
    proves={
        "length_within_the_documented_bounds": "self.min <= len(li) and len(li) <= self.max",
        "accepted_by_own_validate": "self.validate(li)",
        "elements_of_the_element_type": "forall(0, len(li), lambda k: welltyped(li[k], get_generic_parameter(base_type)))",
    },
    raises={"SynthesisException": "handlers_may_fail()", "GeneticEngineError": "handlers_may_fail()"},
    loops={0: Loop(invariants={"so_far": "len(li) == _k and forall(0, _k, lambda k: welltyped(li[k], inner_type))"},
                   modifies=["li[]", "class:RandomSource", "class:SynthesisDecider"])},
    locals={"li": "list[~Val]"},
    modifies=["class:RandomSource", "class:SynthesisDecider"],
    props=["C02", "C01"],
    note="the returned GengyList wraps `li` (stated over the function's own list: its length is within [min, max], validate accepts it, every element came from rec(element type))",
)
