"""Gene-backed random sources and the deciders' bounded integer draws (C18, C07)."""
import specs.sources  # noqa: F401  (declaration order)
import specs.externals  # noqa: F401  (declaration order)
from pyvc.spec import REG as R

GE = "geneticengine/representations/grammatical_evolution/ge.py"
SGE = "geneticengine/representations/grammatical_evolution/structured_ge.py"
DSGE = "geneticengine/representations/grammatical_evolution/dynamic_structured_ge.py"
STK = "geneticengine/representations/stackgggp/__init__.py"
INI = "geneticengine/representations/tree/initializations.py"
SRC = "geneticengine/random/sources.py"

INV = {"dna_nonempty": "len(self.dna) >= 1", "index_ok": "0 <= self.index and self.index < len(self.dna)"}

for key, file in (("GEListWrapper", GE), ("StackListWrapper", STK)):
    R.cls(key, src="ListWrapper", bases=["RandomSource"], fields={"dna": "list[int]", "index": "int"}, file=file,
          init_fields=["dna", "index"], field_defaults={"index": "0"})
    R.contract(
        f"{key}.randint",
        src="ListWrapper.randint",
        file=file,
        overrides="RandomSource.randint",
        params=dict(self=key, min="int", max="int"),
        returns="int",
        requires={"ordered": "min <= max", **INV},
        ensures={
            "in_range": "min <= result and result <= max",
            "index_ok": "0 <= self.index and self.index < len(self.dna)",
            "reads_next_gene": "self.index == (old(self.index) + 1) % len(self.dna)",
            "function_of_gene": "result == self.dna[self.index] % (max - min + 1) + min",
            "dna_unchanged": "len(self.dna) == old(len(self.dna))",
        },
        modifies=["self.index"],
        allocates=False,
        props=["C18", "C07"],
    )
    R.contract(
        f"{key}.random_float",
        src="ListWrapper.random_float",
        file=file,
        overrides="RandomSource.random_float",
        params=dict(self=key, min="float", max="float"),
        returns="float",
        requires={"ordered": "min <= max", **INV},
        ensures={"in_range": "min <= result and result <= max", "index_ok": "0 <= self.index and self.index < len(self.dna)"},
        modifies=["self.index"],
        allocates=False,
        props=["C18", "C07"],
    )

# ---- structured GE: one gene list (and cursor) per key ------------------------------------------
R.cls("StructuredListWrapper", bases=["RandomSource"], fields={"dna": "dict[~Str,list[int]]", "indexes": "dict[~Str,int]"}, file=SGE)
SINV = {
    "prod_known": "prod in self.dna and prod in self.indexes",
    "genes_nonempty": "len(self.dna[prod]) >= 1",
    "cursor_ok": "0 <= self.indexes[prod] and self.indexes[prod] < len(self.dna[prod])",
}
R.contract(
    "StructuredListWrapper.randint",
    file=SGE,
    overrides="RandomSource.randint",
    params=dict(self="StructuredListWrapper", min="int", max="int", prod="~Str"),
    defaults={"prod": "INFRASTRUCTURE_KEY"},
    returns="int",
    requires={"ordered": "min <= max", **SINV},
    ensures={
        "in_range": "min <= result and result <= max",
        "cursor_ok": "0 <= self.indexes[prod] and self.indexes[prod] < len(self.dna[prod])",
        "function_of_gene": "result == self.dna[prod][self.indexes[prod]] % (max - min + 1) + min",
        "advances_one": "self.indexes[prod] == (old(self.indexes[prod]) + 1) % len(self.dna[prod])",
    },
    modifies=["self.indexes[]"],
    allocates=False,
    props=["C18", "C07"],
)
R.contract(
    "StructuredListWrapper.random_float",
    file=SGE,
    overrides="RandomSource.random_float",
    params=dict(self="StructuredListWrapper", min="float", max="float", prod="~Str"),
    defaults={"prod": "INFRASTRUCTURE_KEY"},
    returns="float",
    requires={
        "ordered": "min <= max",
        "infra_known": "INFRASTRUCTURE_KEY in self.dna and INFRASTRUCTURE_KEY in self.indexes",
        "genes_nonempty": "len(self.dna[INFRASTRUCTURE_KEY]) >= 1",
        "cursor_ok": "0 <= self.indexes[INFRASTRUCTURE_KEY] and self.indexes[INFRASTRUCTURE_KEY] < len(self.dna[INFRASTRUCTURE_KEY])",
    },
    ensures={"in_range": "min <= result and result <= max"},
    modifies=["self.indexes[]"],
    allocates=False,
    props=["C18", "C07"],
)

# ---- native source ---------------------------------------------------------------------------------
R.contract(
    "NativeRandomSource.randint",
    file=SRC,
    overrides="RandomSource.randint",
    params=dict(self="NativeRandomSource", min="int", max="int"),
    returns="int",
    requires={"ordered": "min <= max"},
    ensures={"in_range": "min <= result and result <= max"},
    modifies=["self.random.*"],
    allocates=False,
    props=["C18", "C08"],
)
R.contract(
    "NativeRandomSource.random_float",
    file=SRC,
    overrides="RandomSource.random_float",
    params=dict(self="NativeRandomSource", min="float", max="float"),
    returns="float",
    requires={"ordered": "min <= max"},
    ensures={"in_range": "min <= result and result <= max"},
    modifies=["self.random.*"],
    allocates=False,
    props=["C18", "C08"],
)

# ---- decider draws ---------------------------------------------------------------------------------
R.cls("SynthesisDecider", fields={}, file=INI)
R.cls("BaseDecider", bases=["SynthesisDecider"], fields={"random": "RandomSource", "grammar": "Grammar"}, file=INI)
R.cls("Grammar", fields={})
R.contract(
    "SynthesisDecider.random_int",
    params=dict(self="SynthesisDecider", min_int="int", max_int="int"),
    returns="int",
    requires={"ordered": "min_int <= max_int"},
    ensures={"in_bounds": "min_int <= result and result <= max_int"},
    modifies=["self.*", "self.random.*"],
    verify=False,
    note="interface contract of every decider's bounded integer draw",
)
R.contract(
    "BaseDecider.random_bool",
    file=INI,
    params=dict(self="BaseDecider"),
    returns="bool",
    modifies=["self.random.*"],
    props=["C18", "C01"],
)
R.contract(
    "BaseDecider.random_int",
    file=INI,
    overrides="SynthesisDecider.random_int",
    params=dict(self="BaseDecider", min_int="int", max_int="int"),
    returns="int",
    requires={"ordered": "min_int <= max_int"},
    ensures={"in_bounds": "min_int <= result and result <= max_int"},
    modifies=["self.random.*"],
    props=["C18", "C01"],
)

R.cls("DynamicSGEDecider", bases=["SynthesisDecider"], fields={"genotype": "DSGEGenotype", "grammar": "Grammar", "max_depth": "int", "max_string_length": "int"}, file=DSGE)
R.cls("DSGEGenotype", src="Genotype", fields={"random": "RandomSource"}, file=DSGE)
R.contract(
    "DynamicSGEDecider.read",
    params=dict(self="DynamicSGEDecider", ty="any"),
    returns="int",
    modifies=["self.*", "self.genotype.*", "self.genotype.random.*"],
    verify=False,
    note="reads the next gene of type ty (any integer; genes can be negative only if a user supplies them)",
)
R.contract(
    "DynamicSGEDecider.random_int",
    file=DSGE,
    overrides="SynthesisDecider.random_int",
    params=dict(self="DynamicSGEDecider", min_int="int", max_int="int"),
    returns="int",
    requires={"ordered": "min_int <= max_int"},
    ensures={"in_bounds": "min_int <= result and result <= max_int"},
    modifies=["self.*", "self.genotype.*", "self.genotype.random.*"],
    props=["C18", "C01"],
)

# ---- dynamic SGE: refinement draws read genes through the decider --------------------------------------
R.cls("DeciderSource", bases=["RandomSource"], fields={"decider": "DynamicSGEDecider"}, file=DSGE)
R.contract(
    "DeciderSource.randint",
    file=DSGE,
    overrides="RandomSource.randint",
    params=dict(self="DeciderSource", min="int", max="int"),
    returns="int",
    requires={"ordered": "min <= max"},
    ensures={"in_range": "min <= result and result <= max"},
    modifies=["self.decider.*", "self.decider.genotype.*", "self.decider.genotype.random.*"],
    props=["C18", "C07"],
)
R.contract(
    "DeciderSource.random_float",
    file=DSGE,
    overrides="RandomSource.random_float",
    params=dict(self="DeciderSource", min="float", max="float"),
    returns="float",
    requires={"ordered": "min <= max"},
    ensures={"in_range": "min <= result and result <= max"},
    modifies=["self.decider.*", "self.decider.genotype.*", "self.decider.genotype.random.*"],
    props=["C18", "C07"],
)
