"""Progress trackers, budgets and the search loops (C12, C14)."""
import specs.evaluation  # noqa: F401  (declaration order)
import specs.steps  # noqa: F401  (declaration order)
from pyvc.spec import REG as R, Loop

TRK = "geneticengine/evaluation/tracker.py"
BUD = "geneticengine/evaluation/budget.py"
API = "geneticengine/algorithms/api.py"
RS = "geneticengine/algorithms/random_search.py"
OPO = "geneticengine/algorithms/one_plus_one.py"
HCF = "geneticengine/algorithms/hill_climbing.py"
REC = "geneticengine/evaluation/recorder.py"

AGG = "{x}.fitness_store[{p}].maximizing_aggregate"


def agg(x, p="self.problem"):
    return AGG.format(x=x, p=p)


R.cls("SearchRecorder", fields={}, file=REC)
R.cls("ProgressTracker", fields={"problem": "Problem", "evaluator": "Evaluator", "start_time": "int", "recorders": "list[SearchRecorder]",
                                 "hist": "list[Individual]"}, file=TRK)  # hist: ghost history of post-processed individuals
R.cls("SingleObjectiveProgressTracker", bases=["ProgressTracker"], fields={"best_individual": "Individual?"}, file=TRK)
R.cls("MultiObjectiveProgressTracker", bases=["ProgressTracker"], fields={"pareto_front": "list[Individual]"}, file=TRK)

R.disjoint.add(("SingleObjectiveProgressTracker", "MultiObjectiveProgressTracker"))  # no tracker class inherits from both
# class invariant of the single-objective tracker over the ghost history
T_OK = {
    "hist_evaluated": "forall(0, len(self.hist), lambda h: self.problem in self.hist[h].fitness_store)",
    "none_iff_empty": "iff(self.best_individual is None, len(self.hist) == 0)",
    "best_in_hist": "implies(len(self.hist) > 0, exists(0, len(self.hist), lambda h: same(self.best_individual, self.hist[h])))",
    "best_bounds_all": "forall(0, len(self.hist), lambda h: " + agg("self.best_individual") + " >= " + agg("self.hist[h]") + ")",
}
R.contract(
    "SearchRecorder.register",
    params=dict(self="SearchRecorder", tracker="ProgressTracker", individual="Individual", problem="Problem", is_best="bool"),
    returns="None",
    requires={
        "registered_individual_is_latest": "implies(isinstance(tracker, SingleObjectiveProgressTracker), "
        "len(tracker.hist) >= 1 and same(tracker.hist[len(tracker.hist) - 1], individual) and same(problem, tracker.problem))",
        "flag_iff_first_or_strict_improvement": "implies(isinstance(tracker, SingleObjectiveProgressTracker), iff(is_best, forall(0, len(tracker.hist) - 1, lambda h: "
        + agg("individual", "problem") + " > " + agg("tracker.hist[h]", "problem") + ")))",
        "multi_objective_flag_means_best_aggregate_so_far": "implies(isinstance(tracker, MultiObjectiveProgressTracker) and is_best, same(problem, tracker.problem) and "
        "forall(0, len(tracker.hist), lambda h: " + agg("individual", "problem") + " >= " + agg("tracker.hist[h]", "problem") + "))",
    },
    modifies=["class:SearchRecorder"],
    verify=False,
    note="interface of every recorder; its precondition IS the property clause: single-objective trackers flag is_best exactly when the individual is the first "
    "or strictly better than all earlier ones; multi-objective trackers flag only individuals that attain the best aggregate seen so far",
)
R.contract(
    "SingleObjectiveProgressTracker.post_process",
    file=TRK,
    params=dict(self="SingleObjectiveProgressTracker", individual="Individual"),
    returns="None",
    requires={**T_OK, "individual_evaluated": "self.problem in individual.fitness_store"},
    ensures={**T_OK, "history_extended": "len(self.hist) == old(len(self.hist)) + 1 and same(self.hist[len(self.hist) - 1], individual) and "
             "forall(0, old(len(self.hist)), lambda h: same(self.hist[h], old(self.hist[h])))"},
    loops={0: Loop(invariants={"t": "True"}, modifies=["class:SearchRecorder"])},
    ghost_entry="self.hist.append(individual)",
    modifies=["self.best_individual", "self.hist[]", "class:SearchRecorder"],
    props=["C12", "C20"],
    note="ghost: the individual is appended to self.hist on entry (history of post-processed individuals)",
)

DISTINCT_L = {}
R.contract(
    "SingleObjectiveProgressTracker.evaluate",
    file=TRK,
    params=dict(self="SingleObjectiveProgressTracker", individuals="list[Individual]"),
    returns="None",
    requires={**T_OK, **DISTINCT_L, "history_is_private": "not same(individuals, self.hist)"},
    ensures={
        **T_OK,
        "history_extended": "len(self.hist) == old(len(self.hist)) + len(individuals) and "
        "forall(old(len(self.hist)), len(self.hist), lambda h: same(self.hist[h], individuals[h - old(len(self.hist))]))",
        "counter_bounds": "self.evaluator.count >= old(self.evaluator.count) and self.evaluator.count <= old(self.evaluator.count) + len(individuals)",
        "single_new": "implies(len(individuals) == 1 and not old(self.problem in individuals[0].fitness_store), self.evaluator.count == old(self.evaluator.count) + 1)",
        "all_evaluated": "forall(0, len(individuals), lambda k: self.problem in individuals[k].fitness_store)",
        "existing_fitness_kept": "fitness_stores_monotone()",
        "best_set": "implies(len(individuals) >= 1, self.best_individual is not None)",
    },
    loops={
        0: Loop(
            invariants={
                **T_OK,
                "prefix_recorded": "len(self.hist) == old(len(self.hist)) + _k and "
                "forall(old(len(self.hist)), len(self.hist), lambda h: same(self.hist[h], individuals[h - old(len(self.hist))]))",
                "old_history_kept": "forall(0, old(len(self.hist)), lambda h: same(self.hist[h], old(self.hist[h])))",
            },
            modifies=["self.best_individual", "self.hist[]", "class:SearchRecorder"],
        )
    },
    modifies=["self.best_individual", "self.hist[]", "class:SearchRecorder", "self.evaluator.count", "self.problem.ff.fn.ncalls", "all:dict[Problem,Fitness]", "all:field:phenotype"],
    props=["C12", "C14"],
)
R.contract(
    "SingleObjectiveProgressTracker.get_best_individual",
    inline=True,
    file=TRK,
    params=dict(self="SingleObjectiveProgressTracker"),
    returns="Individual?",
    ensures={"is_best": "same(result, self.best_individual)"},
    allocates=False,
    props=["C12"],
)
R.contract(
    "ProgressTracker.get_number_evaluations",
    inline=True,
    file=TRK,
    params=dict(self="ProgressTracker"),
    returns="int",
    ensures={"is_counter": "result == self.evaluator.count"},
    allocates=False,
    props=["C14"],
)
R.contract("ProgressTracker.get_problem", inline=True, file=TRK, params=dict(self="ProgressTracker"), returns="Problem",
           ensures={"p": "same(result, self.problem)"}, allocates=False, props=["C14"])

# ---- budgets ------------------------------------------------------------------------------------------
R.cls("SearchBudget", fields={}, file=BUD)
R.cls("EvaluationBudget", bases=["SearchBudget"], fields={"evaluations_budget": "int"}, file=BUD)
R.cls("AnyOf", bases=["SearchBudget"], fields={"a": "SearchBudget", "b": "SearchBudget"}, file=BUD)
R.cls("TargetFitness", bases=["SearchBudget"], fields={"value": "float"}, file=BUD)
R.contract(
    "SearchBudget.is_done",
    params=dict(self="SearchBudget", tracker="SingleObjectiveProgressTracker"),
    returns="bool",
    ensures={"function_of_state": "result == budget_done(self, tracker)"},
    allocates=False,
    verify=False,
    note="interface: a pure predicate of budget and tracker state",
)
R.contract(
    "EvaluationBudget.is_done",
    file=BUD,
    params=dict(self="EvaluationBudget", tracker="SingleObjectiveProgressTracker"),
    returns="bool",
    ensures={"counter_reached": "result == (tracker.evaluator.count >= self.evaluations_budget)"},
    allocates=False,
    props=["C14"],
)
R.contract(
    "AnyOf.is_done",
    file=BUD,
    params=dict(self="AnyOf", tracker="SingleObjectiveProgressTracker"),
    returns="bool",
    ensures={"disjunction": "result == (budget_done(self.a, tracker) or budget_done(self.b, tracker))"},
    allocates=False,
    props=["C14"],
)
R.contract(
    "TargetFitness.is_done",
    file=BUD,
    params=dict(self="TargetFitness", tracker="SingleObjectiveProgressTracker"),
    returns="bool",
    requires={
        "best_evaluated": "implies(tracker.best_individual is not None, tracker.problem in tracker.best_individual.fitness_store and "
        "len(tracker.best_individual.fitness_store[tracker.problem].fitness_components) >= 1)",
    },
    ensures={
        "within_tolerance": "result == (tracker.best_individual is not None and "
        "abs(tracker.best_individual.fitness_store[tracker.problem].fitness_components[0] - self.value) < 0.0001)",
    },
    allocates=False,
    props=["C14"],
)

R.contract(
    "MultiObjectiveProgressTracker.get_best_individuals",
    file=TRK,
    params=dict(self="MultiObjectiveProgressTracker"),
    returns="list[Individual]",
    ensures={"is_the_front": "same(result, self.pareto_front)"},
    modifies=[],
    allocates=False,
    props=["C12"],
)
R.cls("TargetMultiSameFitness", bases=["SearchBudget"], fields={"target_fitness": "float"}, file=BUD)
R.contract(
    "TargetMultiSameFitness.is_done",
    file=BUD,
    params=dict(self="TargetMultiSameFitness", tracker="MultiObjectiveProgressTracker"),
    returns="bool",
    requires={
        "front_non_empty_and_evaluated": "len(tracker.pareto_front) >= 1 and tracker.problem in tracker.pareto_front[0].fitness_store",
    },
    ensures={
        "every_component_within_tolerance": "result == forall(0, len(tracker.pareto_front[0].fitness_store[tracker.problem].fitness_components), lambda c: "
        "abs(tracker.pareto_front[0].fitness_store[tracker.problem].fitness_components[c] - self.target_fitness) < 0.001)",
    },
    modifies=[],
    props=["C14"],
)

R.cls("TargetMultiFitness", bases=["SearchBudget"], fields={"targets": "list[float]"}, file=BUD)
R.contract(
    "TargetMultiFitness.is_done",
    file=BUD,
    params=dict(self="TargetMultiFitness", tracker="MultiObjectiveProgressTracker"),
    returns="bool",
    requires={
        "front_non_empty_and_evaluated": "len(tracker.pareto_front) >= 1 and tracker.problem in tracker.pareto_front[0].fitness_store",
        "one_target_per_component": "len(tracker.pareto_front[0].fitness_store[tracker.problem].fitness_components) == len(self.targets)",
    },
    ensures={
        "every_component_within_tolerance_of_its_target": "result == forall(0, len(self.targets), lambda c: "
        "abs(tracker.pareto_front[0].fitness_store[tracker.problem].fitness_components[c] - self.targets[c]) < 0.001)",
    },
    modifies=[],
    props=["C14"],
)

# ---- search loops -------------------------------------------------------------------------------------
R.cls("SynthesisAlgorithm", fields={"tracker": "SingleObjectiveProgressTracker", "problem": "Problem", "budget": "EvaluationBudget",
                                    "representation": "Representation"}, file=API)
R.cls("HeuristicSearch", bases=["SynthesisAlgorithm"], fields={"random": "RandomSource"}, file="geneticengine/algorithms/heuristics.py")
R.cls("RandomSearch", bases=["HeuristicSearch"], fields={}, file=RS)
R.cls("OnePlusOne", bases=["HeuristicSearch"], fields={}, file=OPO)
R.cls("HC", bases=["HeuristicSearch"], fields={"number_of_mutations": "int"}, file=HCF)
R.contract("SynthesisAlgorithm.is_done", inline=True, file=API, params=dict(self="SynthesisAlgorithm"), returns="bool",
           ensures={"delegates": "result == (self.tracker.evaluator.count >= self.budget.evaluations_budget)"}, allocates=False, props=["C14"])


def t_ok(prefix):
    return {k: v.replace("self.", prefix + ".") for k, v in T_OK.items()}


SEARCH_REQ = {**t_ok("self.tracker"), "same_problem": "same(self.tracker.problem, self.problem)",
              "separate_objects": "not same(self.tracker.evaluator, self.budget)"}


def search_contract(key, file, batch, extra_req=None, loops=None, extra_fields=None, locals_=None, ghost_entry=""):
    R.contract(
        f"{key}.search",
        file=file,
        params=dict(self=key),
        returns="Individual?",
        requires={**SEARCH_REQ, **(extra_req or {})},
        ensures={
            "returns_tracker_best": "same(result, self.tracker.best_individual)",
            "budget_met": "self.tracker.evaluator.count >= self.budget.evaluations_budget",
            "stops_at_first_check": f"implies(old(self.tracker.evaluator.count) < self.budget.evaluations_budget, "
            f"self.tracker.evaluator.count < self.budget.evaluations_budget + {batch})",
            **t_ok("self.tracker"),
        },
        loops=loops,
        locals=locals_ or {},
        ghost_entry=ghost_entry,
        modifies=["self.tracker.best_individual", "self.tracker.hist[]", "class:SearchRecorder", "self.tracker.evaluator.count",
                  "self.problem.ff.fn.ncalls", "all:dict[Problem,Fitness]", "all:field:phenotype", "self.random.*"],
        props=["C12", "C14", "C10"],
    )


LOOP_INV = {
    **t_ok("self.tracker"),
    "within_batch": "implies(old(self.tracker.evaluator.count) < self.budget.evaluations_budget, "
    "self.tracker.evaluator.count < self.budget.evaluations_budget + {batch})",
    "monotone": "self.tracker.evaluator.count >= old(self.tracker.evaluator.count)",
    "config_unchanged": "same(self.tracker, old(self.tracker)) and same(self.budget, old(self.budget)) and same(self.problem, old(self.problem)) and "
    "same(self.tracker.problem, self.problem) and same(self.tracker.evaluator, old(self.tracker.evaluator)) and "
    "self.budget.evaluations_budget == old(self.budget.evaluations_budget)",
}
LOOP_MOD = ["self.tracker.best_individual", "self.tracker.hist[]", "class:SearchRecorder", "self.tracker.evaluator.count",
            "self.problem.ff.fn.ncalls", "all:dict[Problem,Fitness]", "all:field:phenotype", "self.random.*"]
search_contract(
    "RandomSearch", RS, 1,
    loops={0: Loop(invariants={k: v.format(batch=1) for k, v in LOOP_INV.items()}, modifies=LOOP_MOD,
                   decreases="self.budget.evaluations_budget - self.tracker.evaluator.count")},
)

R.cls("RepresentationWithMutation", fields={}, file="geneticengine/representations/api.py")
R.cls("RepresentationWithCrossover", fields={}, file="geneticengine/representations/api.py")
search_contract(
    "OnePlusOne", OPO, 1,
    extra_req={"representation_mutates": "isinstance(self.representation, RepresentationWithMutation)"},
    loops={0: Loop(invariants={k: v.format(batch=1) for k, v in LOOP_INV.items()}, modifies=LOOP_MOD,
                   decreases="self.budget.evaluations_budget - self.tracker.evaluator.count")},
)

# ---- multi-objective tracker: every member of the reported front attains the best aggregate seen so far (C12) ----------
TM_OK = {
    "hist_evaluated": "forall(0, len(self.hist), lambda h: self.problem in self.hist[h].fitness_store)",
    "front_empty_iff_nothing_processed": "iff(len(self.pareto_front) == 0, len(self.hist) == 0)",
    "front_evaluated": "forall(0, len(self.pareto_front), lambda f: self.problem in self.pareto_front[f].fitness_store)",
    "front_attains_the_best_aggregate": "forall(0, len(self.pareto_front), lambda f: forall(0, len(self.hist), lambda h: "
    + agg("self.pareto_front[f]") + " >= " + agg("self.hist[h]") + "))",
}
R.contract(
    "MultiObjectiveProgressTracker.is_dominated",
    file=TRK,
    params=dict(self="MultiObjectiveProgressTracker", current="Individual", others="list[Individual]"),
    returns="bool",
    requires={"evaluated": "self.problem in current.fitness_store and forall(0, len(others), lambda k: self.problem in others[k].fitness_store)"},
    ensures={"every_other_is_strictly_better": "result == forall(0, len(others), lambda k: " + agg("others[k]") + " > " + agg("current") + ")"},
    modifies=[],
    props=["C12"],
)
R.contract(
    "MultiObjectiveProgressTracker.evaluate",
    file=TRK,
    params=dict(self="MultiObjectiveProgressTracker", individuals="list[Individual]"),
    returns="None",
    requires={**TM_OK, "history_is_private": "not same(individuals, self.hist) and not same(self.pareto_front, self.hist) and not same(individuals, self.pareto_front)"},
    ensures={
        **TM_OK,
        "history_extended": "len(self.hist) == old(len(self.hist)) + len(individuals)",
        "existing_fitness_kept": "fitness_stores_monotone()",
    },
    loops={
        0: Loop(
            invariants={**TM_OK, "prefix_recorded": "len(self.hist) == old(len(self.hist)) + _k",
                        "front_is_private": "not same(self.pareto_front, self.hist) and not same(individuals, self.pareto_front)",
                        "cached": "fitness_stores_monotone()"},
            ghost_init={"init": "", "step": "self.hist.append(ind)"},
            modifies=["self.pareto_front", "self.hist[]", "class:SearchRecorder"],
        ),
        1: Loop(
            invariants={
                "new_front_starts_with_ind": "len(new_pareto_front) >= 1 and fresh(new_pareto_front)",
                "new_front_evaluated": "forall(0, len(new_pareto_front), lambda f: self.problem in new_pareto_front[f].fitness_store)",
                "new_front_attains_the_best": "forall(0, len(new_pareto_front), lambda f: " + agg("new_pareto_front[f]") + " >= " + agg("ind") + " and "
                "forall(0, len(self.hist), lambda h: " + agg("new_pareto_front[f]") + " >= " + agg("self.hist[h]") + "))",
            },
            modifies=["new_pareto_front[]"],
        ),
        2: Loop(invariants={"t": "True"}, modifies=["class:SearchRecorder"]),
    },
    locals={"new_pareto_front": "list[Individual]"},
    modifies=["self.pareto_front", "self.hist[]", "class:SearchRecorder", "self.evaluator.count", "self.problem.ff.fn.ncalls", "all:dict[Problem,Fitness]", "all:field:phenotype"],
    props=["C12"],
    note="ghost: each processed individual is appended to self.hist at the end of its iteration; the recorders are told is_best = not dominated "
    "(for multi-objective problems ties are flagged as best: the property's reading)",
)
