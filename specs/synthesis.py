"""Program synthesis: create_node and its helpers (C01 well-typedness, C03 depth, C07/C10 frames).

Program values live in the opaque sort Val.  welltyped / vdepth / refinedby are introduced ONLY by the contracts
of the value constructors below (which restate the property's definition clause by clause) and by the
subsumption axioms of specs/vocab.py; create_node is verified against them branch by branch, assuming its own
contract at the recursive calls (partial correctness)."""
import specs.sources  # noqa: F401  (declaration order)
import specs.gene_sources  # noqa: F401  (declaration order)
import specs.typeforms  # noqa: F401  (declaration order)
import specs.metahandlers  # noqa: F401  (declaration order)
from pyvc.spec import REG as R, Loop

INI = "geneticengine/representations/tree/initializations.py"
TRB = "geneticengine/representations/tree/treebased.py"

R.cls("GlobalSynthesisContext", fields={"random": "RandomSource", "grammar": "Grammar", "decider": "MaxDepthDecider"}, file=INI,
      init_fields=["random", "grammar", "decider"])
R.classes["LocalSynthesisContext"].fields["dependent_values"] = "dict[~Str,~Val]?"

R.contract("type_metadata0", params=dict(ty="~Type"), returns="MetaHandlerGenerator", pure=True, allocates=False,
           note="ty.__metadata__[0]: the refinement object of an Annotated type (pure function of the type)")
R.contract("get_arguments", params=dict(n="~Type"), returns="list[tuple[~Str,~Type]]", pure=True, allocates=False,
           ensures={"preexisting": "not fresh(result)"},
           note="(name, type) pairs of the typed constructor arguments of a production: a pure function of the class (assumed)")
R.contract("number_of_nodes", params=dict(v="~Val"), returns="int", pure=True, allocates=False, ensures={"nonneg": "result >= 0"},
           note="node-count label of a value (C11's subject; only its sign matters here)")

# ---- the value constructors: their contracts ARE the definition of well-typedness and depth ------------------
R.contract(
    "wrap_result",
    params=dict(v="~Val", global_context="GlobalSynthesisContext", context="LocalSynthesisContext"),
    returns="~Val",
    ensures={"returns_its_argument": "result == v"},
    allocates=False,
    verify=False,
    note="labels the value's metadata (C11) and stores the context; returns the same value",
)
R.contract(
    "GengyList",
    params=dict(typ="~Type", vals="list[~Val]"),
    returns="~Val",
    ensures={
        "list_of_welltyped_elements": "implies(is_generic_list(typ) and forall(0, len(vals), lambda k: welltyped(vals[k], get_generic_parameter(typ))), welltyped(result, typ))",
        "containers_are_transparent_lower": "forall(0, len(vals), lambda k: vdepth(vals[k]) <= vdepth(result))",
        "containers_are_transparent_empty": "implies(len(vals) == 0, vdepth(result) == 0)",
        "containers_are_transparent_attained": "implies(len(vals) >= 1, exists(0, len(vals), lambda k: vdepth(result) == vdepth(vals[k])))",
    },
    verify=False,
    note="C01: a list type holds a list of well-typed elements; C03: lists do not add depth",
)
R.contract(
    "apply_constructor",
    params=dict(ty="~Type", args="list[~Val]"),
    returns="~Val",
    ensures={
        "node_of_declared_field_types": "implies(len(args) == len(get_arguments(ty)) and "
        "forall(0, len(args), lambda k: welltyped(args[k], get_arguments(ty)[k][1])), welltyped(result, ty))",
        "one_level_deeper_lower": "forall(0, len(args), lambda k: vdepth(args[k]) + 1 <= vdepth(result))",
        "one_level_deeper_fieldless": "implies(len(args) == 0, vdepth(result) == 1)",
        "one_level_deeper_attained": "implies(len(args) >= 1, exists(0, len(args), lambda k: vdepth(result) == vdepth(args[k]) + 1))",
    },
    verify=False,
    note="ty(*args): a node of production ty whose fields hold args in declaration order; depth = 1 + deepest field",
)
R.contract(
    "tuple_of",
    params=dict(vals="list[~Val]"),
    returns="~Val",
    verify=False,
)

# ---- decider draws as program values -------------------------------------------------------------------------------
R.contracts["BaseDecider.random_int"].defaults = {"min_int": "-(9223372036854775807 - 1)", "max_int": "9223372036854775807"}
R.contract(
    "BaseDecider.random_float",
    params=dict(self="BaseDecider"),
    returns="float",
    modifies=["self.random.*"],
    verify=False,
    note="normalvariate clamped to the float range (transcendental: not modelled; only the result type matters for C01)",
)

# ---- refinements --------------------------------------------------------------------------------------------------
R.contract(
    "MetaHandlerGenerator.generate",
    params=dict(self="MetaHandlerGenerator", random="RandomSource", grammar="Grammar", base_type="~Type", rec="fn", dependent_values="dict[~Str,~Val]?"),
    returns="~Val",
    ensures={
        "value_of_the_base_type": "welltyped(result, base_type)",
        "satisfies_the_refinement": "refinedby(self, result)",
        "no_deeper_than_what_rec_builds": "vdepth(result) <= global_context.decider.max_depth - context.depth",
    },
    raises={"SynthesisException": "handlers_may_fail()", "GeneticEngineError": "handlers_may_fail()"},
    modifies=["random.*", "global_context.decider.random.*"],
    caller_env=["global_context", "context"],
    verify=False,
    note="interface of every refinement as used by create_node: the value is of the base type, satisfies the refinement, and is "
    "assembled from base values and from values obtained through rec() (which create_node runs at the caller's depth budget); "
    "the numeric handlers are verified against their documented predicates in specs/metahandlers.py, user handlers are bound by it",
)

CN_REQ = {
    "the_grammar": "same(global_context.grammar, thegrammar())",
    "grammar_invariant": "g_ok(global_context.grammar) and not global_context.grammar.expansion_depthing",
    "type_registered": "gdist_defined(global_context.grammar, starting_symbol)",
    "feasible": "gdist(global_context.grammar, starting_symbol) <= global_context.decider.max_depth - context.depth",
    "decider_uses_this_grammar": "same(global_context.decider.grammar, global_context.grammar)",
    "no_initial_values": "initial_values is None or emptydict(initial_values)",
    "limit_below_unproductive_marker": "global_context.decider.max_depth - context.depth < 1000000",
}
CN_ENS = {
    "welltyped": "welltyped(result, starting_symbol)",
    "within_depth": "vdepth(result) <= global_context.decider.max_depth - context.depth",
}
CN_MOD = ["global_context.random.*", "global_context.decider.random.*", "global_context.decider.expanding", "context.nodes"]
R.contract(
    "create_node",
    file=INI,
    params=dict(global_context="GlobalSynthesisContext", starting_symbol="~Type", context="LocalSynthesisContext",
                dependent_values="dict[~Str,~Val]?", initial_values="dict[~Str,~Val]?"),
    defaults={"dependent_values": "None", "initial_values": "None"},
    returns="~Val",
    requires=dict(CN_REQ),
    ensures=dict(CN_ENS),
    raises={"GeneticEngineError": "handlers_may_fail()", "SynthesisException": "handlers_may_fail()"},
    loops={
        # list elements
        0: Loop(invariants={
            "elements_so_far": "len(nli) == _k and forall(0, _k, lambda j: welltyped(nli[j], inner_type) and vdepth(nli[j]) <= global_context.decider.max_depth - context.depth)",
            "ctx": "nctx.depth == list_depth",
        }, modifies=["nli[]", "nctx.nodes"] + CN_MOD),
        # productions of an abstract type
        1: Loop(invariants={
            "candidates_are_productions": "forall(0, len(compatible_productions), lambda j: exists(0, len(global_context.grammar.alternatives[starting_symbol]), "
            "lambda m: compatible_productions[j] == global_context.grammar.alternatives[starting_symbol][m]))",
            "all_productions_until_a_refinement_failed": "handlers_may_fail() or (len(compatible_productions) == len(global_context.grammar.alternatives[starting_symbol]) and "
            "forall(0, len(compatible_productions), lambda j: compatible_productions[j] == global_context.grammar.alternatives[starting_symbol][j]))",
        }, modifies=["compatible_productions[]"] + CN_MOD),
        # fields of a concrete production
        2: Loop(invariants={
            "fields_so_far": "len(args) == _k and forall(0, _k, lambda j: welltyped(args[j], get_arguments(starting_symbol)[j][1]) and "
            "vdepth(args[j]) <= global_context.decider.max_depth - context.depth - 1)",
            "ctx": "nctx.depth == context.depth + 1",
        }, modifies=["args[]", "dependent_values[]", "nctx.nodes"] + CN_MOD),
    },
    locals={"nli": "list[~Val]", "args": "list[~Val]", "dependent_values": "dict[~Str,~Val]", "dependent_vals": "dict[~Str,~Val]", "initial_vals": "dict[~Str,~Val]"},
    modifies=list(CN_MOD),
    props=["C01", "C02", "C03", "C04", "C07", "C10"],
)

# ---- the synthesis entry point --------------------------------------------------------------------------------------
RN_REQ = {
    "the_grammar": "same(grammar, thegrammar())",
    "grammar_invariant": "g_ok(grammar) and not grammar.expansion_depthing",
    "type_registered": "gdist_defined(grammar, starting_symbol)",
    "feasible": "gdist(grammar, starting_symbol) <= decider.max_depth",
    "decider_uses_this_grammar": "same(decider.grammar, grammar)",
    "limit_below_unproductive_marker": "decider.max_depth < 1000000",
}
R.contract(
    "random_node",
    file=TRB,
    params=dict(random="RandomSource", grammar="Grammar", starting_symbol="~Type", decider="MaxDepthDecider"),
    returns="~Val",
    requires=dict(RN_REQ),
    ensures={
        "welltyped": "welltyped(result, starting_symbol)",
        "within_depth": "vdepth(result) <= decider.max_depth",
    },
    raises={"GeneticEngineError": "handlers_may_fail()", "SynthesisException": "handlers_may_fail()"},
    modifies=["random.*", "decider.random.*", "decider.expanding"],
    props=["C01", "C03", "C04", "C07", "C10"],
    note="synthesis entry point with a depth-limited decider (grow / full / PI-grow): a well-typed value of the requested symbol no deeper than "
    "the decider's limit; draws come from `random` and from the decider's own source only; the grammar is not in the frame (C10)",
)
