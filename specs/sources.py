"""Contracts for geneticengine/random/sources.py (C18, C19, C04, C17)."""
from pyvc.spec import REG as R, Loop

F = "geneticengine/random/sources.py"

R.cls("RandomSource", fields={}, file=F)
R.cls("NativeRandomSource", bases=["RandomSource"], fields={"seed": "int", "random": "PyRandom"}, file=F)
R.cls("PyRandom", fields={})

# ---- the abstract oracle (interface contracts; every concrete source is verified against them) ----
R.contract(
    "RandomSource.randint",
    params=dict(self="RandomSource", min="int", max="int"),
    returns="int",
    requires={"ordered": "min <= max"},
    ensures={"in_range": "min <= result and result <= max"},
    modifies=["self.*"],
    verify=False,
    allocates=False,
    note="abstract oracle: any value in [min, max]; advances only the source's own state",
)
R.contract(
    "RandomSource.random_float",
    params=dict(self="RandomSource", min="float", max="float"),
    returns="float",
    requires={"ordered": "min <= max"},
    ensures={"in_range": "min <= result and result <= max"},
    modifies=["self.*"],
    verify=False,
    allocates=False,
)

# ---- derived primitives, verified against their bodies ----
R.contract(
    "RandomSource.choice",
    file=F,
    typevars=["T"],
    params=dict(self="RandomSource", choices="list[T]"),
    returns="T",
    requires={"nonempty": "len(choices) >= 1"},
    ensures={
        "member": "0 <= IDX and IDX < len(choices) and result == choices[IDX]",
        "list_unchanged": "len(choices) == oldlen(choices)",
    },
    witnesses={"IDX": ("i", "int")},
    modifies=["self.*"],
    allocates=False,
    props=["C18", "C04", "C17"],
)

R.contract(
    "accumulate",
    params=dict(xs="list[float]"),
    returns="list[float]",
    ensures={
        "len": "len(result) == len(xs)",
        "prefix_sums": "forall(0, len(xs), lambda k: result[k] == psum(xs, k + 1))",
    },
    fresh_result=True,
    note="itertools.accumulate: running sums (assumed)",
)

R.contract(
    "RandomSource.choice_weighted",
    file=F,
    typevars=["T"],
    params=dict(self="RandomSource", choices="list[T]", weights="list[float]"),
    returns="T",
    requires={
        "same_len": "len(choices) == len(weights)",
        "nonempty": "len(choices) >= 1",
        "nonneg": "forall(0, len(weights), lambda i: weights[i] >= 0)",
    },
    ensures={
        "member_nonzero": "exists(0, len(choices), lambda j: result == choices[j] and "
        "(weights[j] > 0 or trunc(psum(weights, len(weights)) * 100000) == 0))",
    },
    lemmas={"psum_nonneg": ("n", "0", "len(weights)", "psum(weights, n) >= 0")},
    loops={
        0: Loop(
            invariants={
                "not_yet": "forall(0, _k, lambda i: rand_value >= acc_weights[i])",
            }
        )
    },
    modifies=["self.*"],
    props=["C18", "C19"],
)

R.contract(
    "RandomSource.shuffle",
    file=F,
    typevars=["T"],
    params=dict(self="RandomSource", lst="list[T]"),
    returns="list[T]",
    ensures={
        "same_object": "same(result, lst)",
        "same_len": "len(lst) == oldlen(lst)",
        "perm_range": "len(W) == len(lst) and forall(0, len(lst), lambda a: 0 <= W[a] and W[a] < len(lst))",
        "perm_content": "forall(0, len(lst), lambda a: lst[a] == oldel(lst, W[a]))",
        "perm_injective": "forall(0, len(lst), lambda a: forall(0, len(lst), lambda b: implies(W[a] == W[b], a == b)))",
    },
    witnesses={"W": ("pi", "list[int]")},
    loops={
        0: Loop(
            ghost_init={"init": "pi = list(range(len(lst)))", "step": "pi[i], pi[j] = pi[j], pi[i]"},
            invariants={
                "len": "len(lst) == oldlen(lst) and len(pi) == len(lst)",
                "range": "forall(0, len(lst), lambda a: 0 <= pi[a] and pi[a] < len(lst))",
                "content": "forall(0, len(lst), lambda a: lst[a] == oldel(lst, pi[a]))",
                "injective": "forall(0, len(lst), lambda a: forall(0, len(lst), lambda b: implies(pi[a] == pi[b], a == b)))",
            },
            modifies=["lst[]", "pi[]", "self.*"],
        )
    },
    modifies=["lst[]", "self.*"],
    props=["C18", "C17"],
)

R.contract(
    "RandomSource.pop_random",
    file=F,
    typevars=["T"],
    params=dict(self="RandomSource", lst="list[T]"),
    returns="T",
    requires={"nonempty": "len(lst) >= 1"},
    ensures={
        "one_shorter": "len(lst) == oldlen(lst) - 1",
        "removes_exactly_result": "exists(0, oldlen(lst), lambda p: result == oldel(lst, p) and "
        "forall(0, len(lst), lambda a: lst[a] == ite(a == p, oldel(lst, oldlen(lst) - 1), oldel(lst, a))))",
    },
    modifies=["lst[]", "self.*"],
    allocates=False,
    props=["C18"],
)

R.contract(
    "RandomSource.random_bool",
    file=F,
    params=dict(self="RandomSource"),
    returns="bool",
    modifies=["self.*"],
    props=["C18", "C01"],
)
