"""Type forms (abstraction of typing objects), the Grammar view, and the depth-limited deciders (C03, C04, C05)."""
import specs.sources  # noqa: F401  (declaration order)
import specs.gene_sources  # noqa: F401  (declaration order)
from pyvc.spec import REG as R, Loop

UTL = "geneticengine/grammar/utils.py"
GRM = "geneticengine/grammar/grammar.py"
INI = "geneticengine/representations/tree/initializations.py"
DSGE = "geneticengine/representations/grammatical_evolution/dynamic_structured_ge.py"

# ---- reflection helpers of grammar/utils.py: pure functions of the type object (assumed to agree with `typing`;
#      validated at run time by the bounded layer on every real annotation it meets) ------------------------------
for name in ("is_annotated", "is_generic_list", "is_generic_tuple", "is_generic", "is_union", "is_metahandler", "is_abstract"):
    R.contract(name, params=dict(ty="~Type"), returns="bool", pure=True, allocates=False,
               note="reflection predicate on a type object: a pure function of the type (assumed)")
R.contract(
    "get_generic_parameters",
    params=dict(ty="~Type"),
    returns="list[~Type]",
    pure=True,
    allocates=False,
    ensures={"immutable_preexisting": "not fresh(result)"},
    note="ty.__args__: one fixed sequence per type object (assumed)",
)
R.contract(
    "get_generic_parameter",
    params=dict(ty="~Type"),
    returns="~Type",
    pure=True,
    allocates=False,
    requires={"has_parameter": "len(get_generic_parameters(ty)) >= 1"},
    ensures={"first_parameter": "result == get_generic_parameters(ty)[0]"},
)

# ---- the grammar object ------------------------------------------------------------------------------------
R.cls("TypeSet", fields={})
R.contract("TypeSet.__len__", params=dict(self="TypeSet"), returns="int", pure=True, allocates=False, ensures={"nonneg": "result >= 0"})
R.contract("TypeSet.__contains__", params=dict(self="TypeSet", x="~Type"), returns="bool", pure=True, allocates=False,
           note="membership in one of the grammar's symbol sets (the sets are read-only during synthesis: C10)")
R.classes["Grammar"].fields.update({
    "alternatives": "dict[~Type,list[~Type]]",
    "distanceToTerminal": "dict[~Type,int]",
    "all_nodes": "TypeSet",
    "recursive_prods": "TypeSet",
    "non_terminals": "TypeSet",
    "terminals": "TypeSet",
    "expansion_depthing": "bool",
    "starting_symbol": "~Type",
})
R.classes["Grammar"].file = GRM

R.contract(
    "Grammar.get_distance_to_terminal",
    file=GRM,
    params=dict(self="Grammar", ty="~Type"),
    returns="int",
    requires={"registered": "gdist_defined(self, ty)"},
    ensures={"is_gdist": "result == gdist(self, ty)"},
    allocates=True,
    pure=True,
    props=["C05", "C03", "C04"],
    note="gdist is DEFINED by the equations of the property's 'shallowest program' (specs/vocab.py): annotated -> parameter; "
    "list -> ed + parameter; union -> ed + min over alternatives; other generics (tuple) -> ed + max; otherwise the table entry",
)
R.contract(
    "Grammar.get_min_tree_depth",
    file=GRM,
    inline=True,
    params=dict(self="Grammar"),
    returns="int",
    requires={"start_registered": "self.starting_symbol in self.distanceToTerminal"},
    ensures={"is_table_entry": "result == self.distanceToTerminal[self.starting_symbol]"},
    allocates=False,
    props=["C03", "C05"],
)

# ---- deciders ----------------------------------------------------------------------------------------------
R.cls("LocalSynthesisContext", fields={"depth": "int", "nodes": "int", "expansions": "int", "dependent_values": "any"}, file="geneticengine/solutions/tree.py",
      init_fields=["depth", "nodes", "expansions", "dependent_values"])
R.cls("MaxDepthDecider", bases=["BaseDecider"], fields={"max_depth": "int"}, file=INI)
R.cls("FullDecider", bases=["MaxDepthDecider"], fields={}, file=INI)
R.cls("PositionIndependentGrowDecider", bases=["MaxDepthDecider"], fields={"expanding": "bool"}, file=INI)
R.classes["DynamicSGEDecider"].fields.update({"positions": "dict[~Type,int]"})

CHOOSE_PARAMS = dict(ty="~Type", alternatives="list[~Type]", ctx="LocalSynthesisContext")
ALT_REQ = {
    "some_alternative": "len(alternatives) >= 1",
    "alternatives_registered": "forall(0, len(alternatives), lambda k: gdist_defined(self.grammar, alternatives[k]))",
}
ALT_RAISES = {
    "SynthesisException": "forall(0, len(alternatives), lambda k: gdist(self.grammar, alternatives[k]) > self.max_depth - ctx.depth)",
}
ALT_ENS = {
    "is_an_alternative": "exists(0, len(alternatives), lambda k: result == alternatives[k])",
    "fits_remaining_depth": "gdist(self.grammar, result) <= self.max_depth - ctx.depth",
}
R.contract(
    "SynthesisDecider.choose_production_alternatives",
    params=dict(self="MaxDepthDecider", **CHOOSE_PARAMS),
    returns="~Type",
    requires=dict(ALT_REQ),
    ensures=dict(ALT_ENS),
    raises=dict(ALT_RAISES),
    modifies=["self.random.*", "self.expanding"],
    verify=False,
    note="interface of the depth-limited deciders: the chosen production is one of the alternatives and fits the remaining depth; SynthesisException only when no alternative fits",
)
for key in ("MaxDepthDecider", "FullDecider", "PositionIndependentGrowDecider"):
    R.contract(
        f"{key}.choose_production_alternatives",
        file=INI,
        overrides="SynthesisDecider.choose_production_alternatives",
        params=dict(self=key, **CHOOSE_PARAMS),
        returns="~Type",
        requires=dict(ALT_REQ),
        ensures={},
        raises=dict(ALT_RAISES),
        modifies=["self.random.*"] + (["self.expanding"] if key.startswith("Position") else []),
        props=["C03", "C04", "C01"],
    )
R.contract(
    "MaxDepthDecider.validate",
    file=INI,
    params=dict(self="MaxDepthDecider"),
    returns="None",
    requires={"start_registered": "self.grammar.starting_symbol in self.grammar.distanceToTerminal"},
    ensures={"feasible_limit_accepted": "self.max_depth >= self.grammar.distanceToTerminal[self.grammar.starting_symbol]"},
    raises={"GeneticEngineError": "self.max_depth < self.grammar.distanceToTerminal[self.grammar.starting_symbol]"},
    props=["C03"],
    note="rejects exactly the infeasible limits: raises iff max_depth < minimum tree depth (both directions: ensures on normal return, raises condition)",
)
R.contract(
    "DynamicSGEDecider.validate",
    file=DSGE,
    params=dict(self="DynamicSGEDecider"),
    returns="None",
    requires={"start_registered": "self.grammar.starting_symbol in self.grammar.distanceToTerminal"},
    ensures={"feasible_limit_accepted": "self.max_depth >= self.grammar.distanceToTerminal[self.grammar.starting_symbol]"},
    raises={"GeneticEngineError": "self.max_depth < self.grammar.distanceToTerminal[self.grammar.starting_symbol]"},
    props=["C03"],
)

# ---- construction of a depth-limited decider: the limit is validated up-front (C03) --------------------------------
R.contract(
    "BaseDecider.__init__",
    file=INI,
    inline=True,
    params=dict(self="BaseDecider", random="RandomSource", grammar="Grammar"),
    returns="None",
    modifies=["self.random", "self.grammar"],
)
R.contract(
    "MaxDepthDecider.__init__",
    file=INI,
    params=dict(self="MaxDepthDecider", random="RandomSource", grammar="Grammar", max_depth="int"),
    defaults={"max_depth": "10"},
    returns="None",
    requires={"start_registered": "grammar.starting_symbol in grammar.distanceToTerminal"},
    ensures={
        "fields": "same(self.random, random) and same(self.grammar, grammar) and self.max_depth == max_depth",
        "limit_is_feasible": "max_depth >= grammar.distanceToTerminal[grammar.starting_symbol]",
    },
    raises={"GeneticEngineError": "max_depth < grammar.distanceToTerminal[grammar.starting_symbol]"},
    modifies=["self.random", "self.grammar", "self.max_depth"],
    props=["C03"],
    note="a decider object exists only for feasible limits: an infeasible limit is rejected by the constructor (up-front), "
    "never midway through a program",
)

# ---- the weight-aware chooser (C19) -----------------------------------------------------------------------------------
R.cls("ProgressivelyTerminalDecider", bases=["BaseDecider"], fields={}, file=INI)
R.contract(
    "Grammar.get_weights",
    params=dict(self="Grammar"),
    returns="dict[~Type,float]",
    ensures={"fresh": "fresh(result)", "nonneg": "forall(0, len(keysof(result)), lambda i: result[keysof(result)[i]] >= 0)"},
    verify=False,
    note="declared production weights as extract_grammar normalised them: non-negative (C19's first half, decided by the bounded driver)",
)
R.contract("Grammar.get_max_node_depth", params=dict(self="Grammar"), returns="int", ensures={"nonneg": "result >= 0"}, allocates=False, verify=False,
           note="maximum table distance over the registered nodes (only its sign matters to the chooser)")
R.contract(
    "ProgressivelyTerminalDecider.choose_production_alternatives",
    file=INI,
    params=dict(self="ProgressivelyTerminalDecider", **CHOOSE_PARAMS),
    returns="~Type",
    requires={
        "some_alternative": "len(alternatives) >= 1",
        "depth_nonneg": "ctx.depth >= 0",
        "start_registered": "self.grammar.starting_symbol in self.grammar.distanceToTerminal",
        "table_nonneg": "self.grammar.distanceToTerminal[self.grammar.starting_symbol] >= 0",
        "alternatives_registered": "forall(0, len(alternatives), lambda k: gdist_defined(self.grammar, alternatives[k]))",
    },
    ensures={
        "is_an_alternative": "exists(0, len(alternatives), lambda k: result == alternatives[k])",
    },
    proves={
        "zero_weight_not_chosen": "exists(0, len(alternatives), lambda k: result == alternatives[k] and "
        "(declared[k] > 0 or trunc(psum(weights, len(weights)) * 100000) == 0))",
    },
    modifies=["self.random.*"],
    props=["C19", "C01", "C10"],
    note="C19, second half: the chosen production has a positive declared weight, unless the total effective weight is below the "
    "chooser's resolution of 1e-5 (stated over the function's own `declared` / `weights` lists)",
)

# ---- the unconstrained chooser (used for source material in tree crossover; no depth guarantee) ------------------------
R.contract(
    "BaseDecider.choose_options",
    file=INI,
    typevars=["T"],
    params=dict(self="BaseDecider", alternatives="list[T]", ctx="LocalSynthesisContext"),
    returns="T",
    requires={"some_alternative": "len(alternatives) >= 1"},
    ensures={"is_an_option": "exists(0, len(alternatives), lambda k: result == alternatives[k])"},
    modifies=["self.random.*"],
    props=["C01", "C04"],
    note="a uniform pick among the options: a member of the list, and nothing about its depth",
)
