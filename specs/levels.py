"""Claimed evidence level per property (mirrors MANIFEST.json)."""
LEVELS = {
 "C01": "other",
 "C02": "other",
 "C03": "other",
 "C04": "other",
 "C05": "exploration",
 "C06": "other",
 "C07": "other",
 "C08": "exploration",
 "C09": "other",
 "C10": "other",
 "C11": "exploration",
 "C12": "other",
 "C13": "proof",
 "C14": "other",
 "C15": "proof",
 "C16": "other",
 "C17": "other",
 "C18": "proof",
 "C19": "other",
 "C20": "other"
}
EXPLAIN = {}
