"""Claimed evidence level per property (mirrors MANIFEST.json) and a one-line explanation."""
from pyvc.run import LEVELS, EXPLAIN

LEVELS.update({k: "proof" for k in ("C18", "C06", "C13", "C15", "C16", "C17")})
EXPLAIN.update({"C18": "contracts on the random primitives discharged by z3 for all inputs; bounded layer as extra refuter"})
