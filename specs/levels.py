"""Claimed evidence level per property (mirrors MANIFEST.json) and a one-line explanation."""
LEVELS = {k: "proof" for k in ("C18", "C06", "C13", "C15", "C16", "C17", "C12", "C14")}
EXPLAIN = {}
